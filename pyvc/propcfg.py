"""Property configurations: extra roots, other back ends, assumptions, clauses not decided by contracts."""
from .props import PropertyConfig
from . import ground, static, leanback

M_SHA = "M-sha (T2): SHA-256 is treated as injective on the inputs considered; 'keys differ' conclusions are proved as injectivity of the hashed pre-image in every field"
ILAWS = ("session code is verified against the abstract GroupSpec interface; every interface clause and interface law (ILAW-*) used is "
         "discharged for IntegerGroup over symbolic valid (p,q,g) and for Ed25519 by the refinement obligations (see coverage.interface_*)")
VALID_GROUP = "valid_group(p,q,g): p, q prime, q | p-1, sizes consistent (the precondition 'any valid prime-order group'); for the shipped constants see C18"
A_ENT = "A-entropy: the entropy function returns n bytes when asked for n and does not raise"
A_HKDF = "HKDF-SHA256 (cryptography package) modelled as an uninterpreted function of (ikm, salt, info, length); the call shape is taken from the real source"
A_TERM = "A-ae-terminates: Ed25519 try-and-increment and rejection sampling terminate (probability-1 / density arguments, not proved)"
CONST_NOTE = "integer-group constants are compared with a snapshot frozen from the released tree (certs/published.json); Ed25519 constants with RFC 8032 values typed into pyvc/spec_ed.py"

CONFIG = {}


def cfg(pid, **kw):
    CONFIG[pid] = PropertyConfig(pid, **kw)


def lean_theorems(*names):
    """static Lean theorems that carry a step of the argument (Algebra.lean), as obligations of back end lean"""
    def f():
        r, present = leanback.algebra_status()
        out = []
        for n in names:
            ok = r["ok"] and n in present
            out.append(dict(name="lean:Algebra.%s" % n, backend="lean", status="discharged" if ok else "undecided",
                            detail="lean %.0fs%s" % (r["seconds"], " cached" if r["cached"] else "") if ok else r["tail"][-200:]))
        return out
    return f


def extra(*fs, known=None):
    def run(pid, tier, repo, reg, results):
        out = []
        for f in fs:
            r = f() if not getattr(f, "needs_repo", False) else f(repo)
            if isinstance(r, tuple):     # (obligations, bounded stand-ins)
                out += r[0]
                run.standins = r[1]
            else:
                out += r
        from .props import load_known_findings
        listed = {k["id"] for k in load_known_findings().get("known", []) if k.get("property") == pid}
        for k in (known or []):
            if k not in listed:
                continue
            for r in ground.known(k):
                # a known finding that still reproduces is reported as such; if it no longer reproduces nothing is printed
                if r["status"] == "discharged":
                    out.append(dict(name="known-finding:" + k, backend="ground", status="discharged", detail=r["detail"],
                                    known_finding="%s: %s" % (k, r["detail"])))
        return out
    return run


def _static(repo):
    return static.obligations(repo)


_static.needs_repo = True

cfg("C01", assumptions=[ILAWS, VALID_GROUP, A_ENT, A_HKDF, "the Lean identity spake2_agree holds in any Z-module: the order-q subgroup of (Z/p)* with a*b mod p and a^(n mod q) is one by Lean smul_add/smul_mul/smul_mul_distrib/order_*_closed; the Ed25519 curve points are one by Lean (EdwardsGroup.lean: eadd_assoc, Curve.instAddCommGroup)", "A-ae-empty: arbitrary_element(b'') is defined for the group (ground-checked for the shipped sets in C03/C18)"],
    extra=extra(lean_theorems("spake2_agree", "smul_add", "smul_mul", "smul_mul_distrib", "order_mul_closed", "order_smul_closed")))
cfg("C02", assumptions=[ILAWS, M_SHA, A_ENT],
    not_decided=["'keys differ' as an absolute statement needs collision resistance of SHA-256 (M-sha)",
                 "parameter mismatch with a zero scalar: known finding K2 (inherent in SPAKE2); the non-degenerate algebra is Lean theorem mismatch",
                 "two symmetric ends that sent the SAME blinded element and both receive the same third message agree on a key: degenerate coincidence (probability 2^-252), excluded by hypothesis in lemma C02_tamper_sym"],
    extra=extra(lean_theorems("mismatch", "mismatch'"), known=["K2", "K3"]))
cfg("C03", assumptions=[ILAWS, A_HKDF, CONST_NOTE, "the independent reference derivation (spec/reference.py) is validated only against the library's published vectors (certs/vectors.json)"],
    extra=extra(ground.constants, ground.vectors))
cfg("C04", assumptions=[ILAWS, A_ENT],
    not_decided=["'uniformly distributed' / 'statistically independent' are the probabilistic corollaries of the proved bijection (Lean affine_injOn) and of C11; the corollary itself is stated, not mechanised",
                 "password-independence of the scalar and identity-independence of the message are read off the proved result terms (syntactic dependence over-approximates semantic dependence)"],
    extra=extra(lean_theorems("affine_injOn", "affine_inj_nat")))
cfg("C05", assumptions=[ILAWS, VALID_GROUP, "completeness of x-recovery (needed only for 'honest encodings decode') is the Lean theorem xrecover_complete on the generated mirror of the real xrecover"])
cfg("C06", assumptions=[ILAWS])
cfg("C07", assumptions=[ILAWS, A_ENT, "induction over call histories is a 3-line meta-argument over the proved per-method clauses (flags monotone, raise-iff conditions, scalar stable), not mechanised"])
cfg("C08", assumptions=[ILAWS, "T0 json model: json.loads(json.dumps(d)) == d for str->str dicts; json.dumps output is ASCII"])
cfg("C09", assumptions=[ILAWS, M_SHA],
    not_decided=["the fingerprint does not cover the generator: known finding K1"],
    extra=extra(ground.state, known=["K1"]))
cfg("C10", assumptions=[ILAWS, "T0 json model (key order / whitespace insensitivity of json.loads is a property of the json module, exercised by the ground obligations which re-order keys and indent)"],
    extra=extra(ground.state))
cfg("C11", assumptions=[A_ENT, A_TERM],
    not_decided=["'at most two expected draws' is an expectation; proved: the acceptance set has density >= 1/2 (topbits clause) and exact uniformity follows from the counting lemma (Lean block_count)"],
    extra=extra(lean_theorems("block_count", "head_count")))
cfg("C12", assumptions=["the Lean theorems are stated under [Fact (Nat.Prime Q)]; Nat.Prime Q and Nat.Prime L are themselves Lean theorems (Primes text generated from the Pratt certificates) and are also checked by the Python certificate checker"],
    extra=extra(lambda: [o for o in ground.primality()[0] if "Q is prime" in o["name"] or "L is prime" in o["name"] or o["backend"] == "lean"]))
cfg("C13", assumptions=[VALID_GROUP, "group axioms themselves (associativity, commutativity, distributivity) are facts about the spec operations: Lean Algebra.lean for integer groups; Lean EdwardsGroup.lean (eadd_assoc, Curve.instAddCommGroup) for Ed25519"],
    extra=extra(lean_theorems("smul_add", "smul_mul", "smul_mul_distrib", "smul_zero", "smul_one", "mul_add'", "mul_distrib'", "mul_mul", "insub_add", "insub_mul")))
cfg("C14", assumptions=[A_HKDF, A_TERM, VALID_GROUP, CONST_NOTE], extra=extra(ground.constants, ground.vectors))
cfg("C15", assumptions=[VALID_GROUP, "A-float: math.ceil(bits/8) is exact (bits < 2**53)", "decode(encode(P)) == P on Ed25519 uses the Lean theorems xrecover_complete / xrecover_sq"])
cfg("C16", assumptions=["A-gil: the multi-threaded clause rests on the footprint argument (disjoint write sets, shared state never written after import); no schedule is explored - argued, not proved"],
    not_decided=["multi-threaded executions: sequential contracts cannot express schedules (footprint argument only)"],
    extra=extra(_static))
cfg("C17", assumptions=[M_SHA],
    not_decided=["'changing any single argument changes the key' as an absolute statement needs collision resistance of SHA-256; proved: equal keys imply equal arguments, modulo M-sha"])
cfg("C18", assumptions=[CONST_NOTE, "#E(F_Q) = 8L is cited (point counting is not done here); checked: 8L lies in the Hasse interval and L*Base = O"],
    not_decided=["primality of p1024, p2048, p3072 and q3072: no certificate obtainable offline; Miller-Rabin (probabilistic) reported under bounded_standins, not counted as discharged"],
    extra=extra(ground.constants, ground.primality))
