"""Property configurations: extra roots, other back ends, assumptions, clauses not decided by contracts."""
from .props import PropertyConfig

M_SHA = "M-sha (T2): SHA-256 is treated as injective on the inputs considered; 'keys differ' conclusions are proved as injectivity of the hashed pre-image"
ILAWS = ("GroupSpec interface laws (ILAW-*) are assumed in the session-level proofs and discharged separately for each "
         "concrete group by the refinement obligations of contracts/groups.py and contracts/ed25519.py")

CONFIG = {}


def cfg(pid, **kw):
    CONFIG[pid] = PropertyConfig(pid, **kw)


cfg("C17", assumptions=[M_SHA],
    not_decided=["'changing any single argument changes the key' as an absolute statement needs collision resistance of SHA-256; proved: equal keys imply equal arguments, modulo M-sha"])
cfg("C06", assumptions=[ILAWS])
cfg("C07", assumptions=[ILAWS, "A-entropy: the entropy function returns n bytes when asked for n and does not raise",
                        "induction over call histories is a 3-line meta-argument over the proved per-method clauses (flags monotone, raise-iff conditions), not mechanised"])
cfg("C01", assumptions=[ILAWS, "A-ae-empty: arbitrary_element(b'') is defined for the group (ground-checked for the shipped sets)"])
cfg("C08", assumptions=[ILAWS])
