"""Syntactic frame scan over ALL modules of the package (C16): which statements can write to state that outlives a call
and is not the instance itself.  Complements the per-path heap-write log of the executor (frame obligations)."""
import ast

MUTATORS = {"append", "extend", "insert", "update", "pop", "popitem", "clear", "remove", "discard", "setdefault", "sort", "reverse", "__setitem__", "__setattr__", "__delattr__"}


def scan(repo):
    findings = {"global_statements": [], "non_self_attribute_stores": [], "subscript_stores": [], "mutator_calls": [],
                "setattr_calls": [], "multiply_bound_module_names": [], "mutable_class_attributes": [], "module_level_attribute_stores": [],
                "mutable_default_arguments": []}
    for mname, m in repo.modules.items():
        for n, k in m.assign_counts.items():
            if k > 1:
                findings["multiply_bound_module_names"].append("%s.%s" % (mname, n))
        for st in m.tree.body:
            if isinstance(st, ast.Assign):
                for t in st.targets:
                    if isinstance(t, ast.Attribute):
                        findings["module_level_attribute_stores"].append("%s:%d %s" % (mname, st.lineno, ast.unparse(t)))
            if isinstance(st, ast.ClassDef):
                for cs in st.body:
                    if isinstance(cs, ast.Assign) and isinstance(cs.value, (ast.List, ast.Dict, ast.Set, ast.ListComp, ast.DictComp)):
                        findings["mutable_class_attributes"].append("%s.%s:%d" % (mname, st.name, cs.lineno))
        for fn in [n for n in ast.walk(m.tree) if isinstance(n, (ast.FunctionDef, ast.Lambda))]:
            for dflt in list(fn.args.defaults) + [d for d in fn.args.kw_defaults if d is not None]:
                # a mutable default is ONE object shared by every call in the process
                if isinstance(dflt, (ast.List, ast.Dict, ast.Set, ast.ListComp, ast.DictComp, ast.SetComp)) or \
                        (isinstance(dflt, ast.Call) and isinstance(dflt.func, ast.Name) and dflt.func.id in ("list", "dict", "set", "bytearray", "deque", "defaultdict", "OrderedDict")):
                    findings["mutable_default_arguments"].append("%s:%d %s" % (mname, getattr(fn, "lineno", 0), ast.unparse(dflt)))
            selfname = fn.args.args[0].arg if getattr(fn.args, "args", None) else None
            local_objs = set()
            params = {a.arg for a in getattr(fn.args, "args", [])}
            for n in ast.walk(fn):
                if isinstance(n, ast.Assign):
                    for t in n.targets:
                        if isinstance(t, ast.Name) and t.id not in params and isinstance(n.value, (ast.Call, ast.List, ast.Dict, ast.ListComp, ast.Tuple, ast.BinOp)):
                            local_objs.add(t.id)       # container / object built by this call and bound to a local name
            for n in ast.walk(fn):
                where = "%s:%d" % (mname, getattr(n, "lineno", 0))
                if isinstance(n, (ast.Global, ast.Nonlocal)):
                    findings["global_statements"].append(where)
                if isinstance(n, ast.Attribute) and isinstance(n.ctx, (ast.Store, ast.Del)):
                    base = n.value
                    ok = isinstance(base, ast.Name) and (base.id == selfname and selfname in ("self",) or (base.id == "self"))
                    if not ok:
                        findings["non_self_attribute_stores"].append("%s %s" % (where, ast.unparse(n)))
                if isinstance(n, ast.Subscript) and isinstance(n.ctx, (ast.Store, ast.Del)):
                    # d[k] = v on a container this very call built and holds in a local variable is not shared state
                    if not (isinstance(n.value, ast.Name) and n.value.id in local_objs):
                        findings["subscript_stores"].append("%s %s" % (where, ast.unparse(n)))
                if isinstance(n, ast.Call):
                    if isinstance(n.func, ast.Attribute) and n.func.attr in MUTATORS:
                        recv = n.func.value
                        # mutating a container that this very call built and holds in a local variable is not shared state
                        if not (isinstance(recv, ast.Name) and recv.id in local_objs):
                            findings["mutator_calls"].append("%s %s" % (where, ast.unparse(n.func)))
                    if isinstance(n.func, ast.Name) and n.func.id in ("setattr", "delattr", "exec", "eval", "globals", "vars"):
                        # setattr(self, name, value) inside a method is a store on the instance itself (allowed)
                        onself = n.func.id in ("setattr", "delattr") and n.args and isinstance(n.args[0], ast.Name) and n.args[0].id == "self"
                        if not onself:
                            findings["setattr_calls"].append("%s %s" % (where, n.func.id))
    return findings


# stores that are accepted: a classmethod initialising the instance it just constructed
ALLOWED_NON_SELF = ()


def obligations(repo):
    f = scan(repo)
    out = []

    def ob(name, items, allow=lambda s: False):
        bad = [i for i in items if not allow(i)]
        out.append(dict(name="static:" + name, backend="static-scan", status="discharged" if not bad else "refuted",
                        detail="; ".join(bad)[:400], witness={"offending statements": bad} if bad else None))
    ob("no global/nonlocal statement in any function", f["global_statements"])
    # `self = klass(...)` followed by self.x = ... inside the two _deserialize_from_dict classmethods is a store on a
    # freshly allocated object whose local name is `self`: accepted by the `base.id == "self"` rule above
    ob("attribute stores inside functions target only self", f["non_self_attribute_stores"])
    ob("no subscript store (d[k] = v) on anything but a local container", f["subscript_stores"])
    ob("no mutable default argument", f["mutable_default_arguments"])
    ob("no call of a mutating container method on anything but a local container", f["mutator_calls"])
    ob("no setattr/delattr on objects other than self, no exec/eval/globals/vars", f["setattr_calls"])
    ob("module-level names are bound once", f["multiply_bound_module_names"])
    ob("no mutable class-level attribute", f["mutable_class_attributes"])
    ob("module-level attribute stores only initialise the Ed25519 group singleton at import",
       f["module_level_attribute_stores"], allow=lambda s: s.startswith("ed25519_group:") and "Ed25519Group." in s)
    return out
