"""Per-property assembly: which obligations decide a property, closure over callee clauses actually used
(unsat cores), extra back ends (ground evaluation, Lean), known findings, evidence, exit code."""
import os, sys, json, time, hashlib
from . import main as M

VERIF = M.VERIF
SUPPORT_KINDS = ("callpre", "hint", "invariant", "measure", "retinv")
IMPLEMENTATIONS = ("IntegerGroup", "Ed25519")

# Layers of trust reported in every evidence file (DESIGN.md section 3)
T0_NOTE = "T0 library model of Python builtins/binascii/hashlib/json/HKDF (pyvc/sym.py, pyvc/lib.py), bounded-audited against CPython"
COMMON_ASSUMPTIONS = [
    "A-noO: interpreter not started with -O (assert statements are guards)",
    "Python int is unbounded (exact for CPython); evaluation order and attribute lookup as in the language reference",
    "termination is not proved (partial correctness)",
    "soundness of the VC generator pyvc itself (mitigated by canaries, mutation self-test and CPython cross-check)",
    "z3 4.x/5.x SMT solver and the Python AST front end",
]


class PropertyConfig:
    def __init__(self, pid, extra_quals=(), ground=(), lean=(), assumptions=(), not_decided=(), level_text="", extra=None):
        self.pid, self.extra_quals, self.ground, self.lean = pid, list(extra_quals), list(ground), list(lean)
        self.assumptions, self.not_decided, self.level_text = list(assumptions), list(not_decided), level_text
        self.extra = extra


def load_known_findings():
    p = os.path.join(VERIF, "known_findings.json")
    if not os.path.exists(p):
        return {"known": [], "fixed": []}
    return json.load(open(p))


def run_property(pid, tier):
    t0 = time.time()
    seed = int(os.environ.get("VERIF_SEED", "0"))
    nproc = int(os.environ.get("PYVC_PROCS", "16"))
    repo, reg = M.load()
    from .propcfg import CONFIG
    cfg = CONFIG.get(pid)
    if cfg is None:
        print("no configuration for property %s" % pid)
        return 3
    roots = M.functions_for(reg, pid) + [q for q in cfg.extra_quals if q not in M.functions_for(reg, pid)]
    results = {}
    todo = list(roots)
    needed = {}     # qual -> set(clause names) required transitively by the property
    ilaw_missing = set()
    rounds = 0
    again = False
    while todo or again:
        again = False
        rounds += 1
        res = M.run_functions(todo, nproc)
        results.update(res)
        # relevance + dependency closure
        changed = True
        newq = set()
        while changed:
            changed = False
            for q, r in results.items():
                if "fault" in r:
                    continue
                for o in r["obligations"]:
                    if relevant(pid, q, r, o, needed, roots):
                        for (cq, cn) in o["core"]:
                            s = needed.setdefault(cq, set())
                            if cn not in s:
                                s.add(cn)
                                changed = True
                            c = reg.get(cq)
                            if cq not in results and c is not None and not c.abstract_flag:
                                newq.add(cq)
                            if c is not None and c.abstract_flag:
                                # interface clause: every refinement has to establish it
                                for impl in reg.impls.get(cq, []):
                                    s2 = needed.setdefault(impl, set())
                                    if "refines:" + cn not in s2:
                                        s2.add("refines:" + cn)
                                        changed = True
                                    if impl not in results:
                                        newq.add(impl)
            # class invariants assumed anywhere in the cone: every function that returns such an object, and every method
            # of such a class, has to establish / preserve them (their `ret-inv:*` and `inv:*` obligations become relevant)
            for q, r in list(results.items()):
                if "fault" in r or not (q in roots or needed.get(q)):
                    continue
                for n in r["notes"]:
                    if n.startswith("assumes-inv "):
                        cq = n.split(" ", 1)[1]
                        if cq not in INV_CONE["classes"]:
                            INV_CONE["classes"].add(cq)
                            again = True
                            INV_CONE["names"] |= {cl.name for cl in reg.invariants.get(cq, [])}
                            for q2 in invariant_producers(repo, reg, cq):
                                INV_CONE["quals"].add(q2)
                                if q2 not in results:
                                    newq.add(q2)
            # interface laws used as facts in abstract proofs: add the lemma proving each for every refinement
            for q, r in list(results.items()):
                if "fault" in r or not (q in roots or needed.get(q)):
                    continue
                if any(n.startswith("global ") and "module_init" in n for n in r["notes"]) and "lemma.ed_module_init" not in results \
                        and "lemma.ed_module_init" not in roots:
                    roots.append("lemma.ed_module_init")
                    newq.add("lemma.ed_module_init")
                for a in r["axioms"]:
                    if a.startswith("ILAW-"):
                        for impl in IMPLEMENTATIONS:
                            lq = reg.ilaw_lemmas.get((impl, a))
                            if lq is None:
                                ilaw_missing.add("%s for %s" % (a, impl))
                            elif lq not in results and lq not in roots:
                                roots.append(lq)
                                newq.add(lq)
        todo = sorted(newq - set(results))
    # ---- classify ----------------------------------------------------------------------------------------
    faults = [r for r in results.values() if "fault" in r]
    rel, violations, undecided, canary_missing = [], [], [], []
    for q, r in sorted(results.items()):
        if "fault" in r:
            continue
        touched = False
        for o in r["obligations"]:
            if o["kind"] == "canary":
                continue
            if relevant(pid, q, r, o, needed, roots):
                touched = True
                rel.append((q, o))
                if o["status"] == "refuted":
                    violations.append((q, o))
                elif o["status"] != "discharged":
                    undecided.append((q, o, o["extra"].get("reason", "unknown")))
        if touched or q in roots or q in INV_CONE["quals"]:
            for u in r["unsupported"]:
                undecided.append((q, None, "outside-subset: " + u))
            for e in r["errors"]:
                undecided.append((q, None, "error: " + e))
            for cn, ok in r["canaries"].items():
                if not ok:
                    canary_missing.append("%s/%s" % (q, cn))
            if not any(po[2] == "return" for po in r["path_outcomes"]):
                undecided.append((q, None, "vacuity guard: no returning path explored"))
    # ---- other back ends ----------------------------------------------------------------------------------
    extra_ob = []      # dicts: name, backend, status, detail
    if cfg.extra is not None:
        extra_ob = cfg.extra(pid, tier, repo, reg, results) or []
    # T1 lemma schemas instantiated in the relevant proofs: their Lean theorems must check
    from . import leanback, theory
    t2_used = []
    used_lemmas = sorted({a.split(":", 1)[1] for q, r in results.items() if "fault" not in r and (q in roots or needed.get(q))
                          for a in r["axioms"] if a.startswith("T1:") or a.startswith("T2:")})
    for ln in used_lemmas:
        ln0 = ln.split(" ")[0]
        st, detail = leanback.lemma_status(ln0)
        if st == "assumed":
            t2_used.append("T2 (cited, not machine-checked here): %s - %s" % (ln0, theory.LEMMAS[ln0].doc if ln0 in theory.LEMMAS else ""))
            continue
        extra_ob.append(dict(name="lemma:%s" % ln0, backend="lean", status=st, detail=detail))
    if any(l.split(" ")[0] in leanback.NEEDS_EDGROUP for l in used_lemmas):
        # the ed_* lemmas are theorems about any AddCommGroup; that the curve points with the Edwards addition ARE one is
        # itself a Lean theorem (EdwardsGroup.lean: eadd_assoc, eadd_comm, eadd_zero, eadd_neg, Curve.instAddCommGroup)
        st = leanback.edwards_status()
        ok = st["ok"] and "eadd_assoc" in st["theorems"] and any("instAddCommGroup" in t for t in st["theorems"])
        extra_ob.append(dict(name="lean:the curve points form an abelian group under the Edwards addition (eadd_assoc, Curve.instAddCommGroup)", backend="lean",
                             status="discharged" if ok else "undecided", detail="EdwardsGroup.lean" if ok else st.get("why", "")[:200]))
    for e in extra_ob:
        if e["status"] == "refuted":
            violations.append((e["backend"], dict(name=e["name"], kind=e["backend"], status="refuted", model=e.get("witness"),
                                                   extra={"detail": e.get("detail")}, clause=e["name"], tags=[pid], core=[], goal=e.get("detail"))))
        elif e["status"] != "discharged":
            undecided.append((e["backend"], None, "%s: %s" % (e["name"], e.get("detail"))))
    # ---- guards: T0 axiom audit against CPython (bounded test of the model), cvc5 agreement (thorough) -------------------
    from . import audit
    aud = audit.run(60 if tier != "thorough" else 1500, seed)
    from . import crosscheck, spec_sym
    try:
        xc = crosscheck.run(repo, reg, spec_sym)
    except BaseException as e:
        xc = {"programs": 0, "values_compared": 0, "mismatches": [{"error": str(e)}]}
    cvc5_stats = {"unsat": 0, "unknown": 0, "sat": 0}
    for q, o in rel:
        c5 = (o.get("extra") or {}).get("cvc5")
        if c5:
            cvc5_stats[c5] = cvc5_stats.get(c5, 0) + 1
    engine_faults = []
    if not aud.get("ok"):
        engine_faults.append("T0 axiom audit failed: %s" % (aud.get("failures") or aud.get("error")))
    xc_note = None
    if xc["mismatches"]:
        # the executor disagrees with CPython on a concrete program, or cannot run it.  On an edited tree this is usually the
        # edit leaving the supported subset (reported, not fatal: the verdict of the proof obligations stands on its own)
        xc_note = "engine cross-check: %d mismatches, first: %s" % (len(xc["mismatches"]), str(xc["mismatches"][0])[:300])
        if os.path.realpath(repo.root) == "/repo" and not any("UNSUPPORTED" in str(m) for m in xc["mismatches"]):
            engine_faults.append(xc_note)
    if cvc5_stats["sat"]:
        engine_faults.append("cvc5 found a model for %d queries z3 answered unsat" % cvc5_stats["sat"])
    # ---- spurious counter-models ---------------------------------------------------------------------------------
    # A `sat` answer may rest on an interpretation of an uninterpreted library symbol that real Python does not have.
    # Where the model's inputs can be fed to the real function (plain int/bytes parameters) and the real function SATISFIES
    # the clause on them, the counter-model is spurious: the obligation is undecided, not violated.
    from . import replay as _rp
    kept = []
    for q, o in violations:
        spurious = False
        if o.get("kind") in ("ensures", "raises") and o.get("model"):
            try:
                a = _rp.try_direct(q, o, repo)
            except Exception:
                a = None
            ans = (a or {}).get("answer") or {}
            if a is not None and ans.get("ok") and "clause_error" not in ans and ans.get("precondition_holds") and ans.get("clause_holds") is True:
                spurious = True
        if spurious:
            undecided.append((q, o, "spurious counter-model: the real function satisfies the clause on the model's inputs %s" % str(o.get("model"))[:160]))
        else:
            kept.append((q, o))
    violations = kept
    # ---- known findings ------------------------------------------------------------------------------------
    kf = load_known_findings()
    known_lines, real_violations = [], []
    for q, o in violations:
        k = match_known(kf, pid, o)
        if k is not None:
            known_lines.append("KNOWN-FINDING: property=%s %s" % (pid, k["what"]))
        else:
            real_violations.append((q, o))
    for e in extra_ob:
        if e.get("known_finding"):
            known_lines.append("KNOWN-FINDING: property=%s %s" % (pid, e["known_finding"]))
    # ---- undecided (outside-subset, solver unknown): look for a concrete failing input on the REAL code ----------------------
    # A concrete counterexample is definitive whatever produced it; without one the verdict stays "undecided" (exit 2).
    from . import replay
    fallback = None
    if undecided and not real_violations:
        fallback = undecided_fallback(pid, seed, undecided, reg, repo)
        if fallback is not None:
            o = dict(name="%s/bounded-search-after-undecided" % fallback["function"], kind="bounded-search", status="refuted",
                     clause=fallback.get("clause"), tags=[pid], core=[], model=fallback.get("input"), goal=None,
                     extra={"note": "the verifier could not decide this function (%s); a bounded differential search on the real code found a failing input" % fallback["why_undecided"][:200],
                            "finding": fallback["finding"]})
            o["_prefound"] = fallback
            real_violations.append((fallback["function"], o))
            violations.append((fallback["function"], o))
    # ---- thorough tier: bounded cross-checks of the spec vocabulary / reference against the real code (never counted as proof) --
    thorough_standins = []
    if tier == "thorough":
        from . import scenarios, edfalsify
        t1 = time.time()
        r = scenarios.run(rounds=4, big=True, seed=seed, only=SUITES_FOR.get(pid, []) or ["s_util"])
        thorough_standins.append("differential scenarios %s vs independent reference: %s (%.0fs%s) [BOUNDED]" % (
            SUITES_FOR.get(pid), ("INCOMPLETE: " + str(r.get("error"))[:120]) if r.get("error") else ("no mismatch" if not r.get("mismatch") else "MISMATCH"),
            time.time() - t1, (", %d session scenarios" % r["count"]) if r.get("count") else ""))
        if r.get("mismatch") and not str(r["mismatch"].get("kind", "")).startswith("suite-error") and not real_violations:
            o = dict(name="bounded-cross-check/%s" % r["mismatch"].get("kind"), kind="bounded-search", status="refuted", clause=None, tags=[pid], core=[],
                     model=r["mismatch"], goal=None, extra={"note": "thorough-tier differential scenario found a concrete failing input on the real code"})
            o["_prefound"] = dict(finding=r["mismatch"])
            real_violations.append(("scenarios", o))
        if pid in ("C12", "C13", "C05"):
            for fn in ("double_element", "add_elements", "_add_elements_nonunfied", "is_extended_zero", "xform_extended_to_affine"):
                w = edfalsify.falsify("ed25519_basic." + fn, trials=1500, seed=seed)
                thorough_standins.append("ed25519_basic.%s vs affine reference on 1500 random + all small-order points: %s [BOUNDED]" % (fn, "agree" if w is None else "DISAGREE %s" % w))
    vio_lines = []
    kept = []
    for q, o in real_violations:
        path, found = replay.write_replay(pid, q, o, repo)
        relative_to_invariant = o.get("kind") == "invariant" or bool((o.get("extra") or {}).get("after_loop_cut"))
        if relative_to_invariant and not found:
            # A loop invariant is a proof device of the contract, not part of the property.  A refutation of the invariant itself, or of
            # a clause on a path that starts from the havocked loop state, shows that THIS invariant does not carry the proof for THIS
            # loop (e.g. the loop was restructured); without a failing input on the real code that is a failed proof = undecided.
            undecided.append((q, o, "refuted relative to the contract's loop invariant, and no failing input on the real code was found (model replay, bounded "
                                    "search, differential scenarios): failed proof, not a violation; solver output in %s" % path))
            continue
        kept.append((q, o))
        vio_lines.append("VIOLATION property=%s replay=%s%s" % (pid, path, "" if found else " no-failing-input-found"))
    real_violations = kept
    n_z3 = len(rel)
    n_dis = sum(1 for _, o in rel if o["status"] == "discharged")
    n_extra = len(extra_ob)
    n_extra_dis = sum(1 for e in extra_ob if e["status"] == "discharged")
    assumed_contracts = sorted({"%s/%s" % (cq, cn) for cq, s in needed.items() for cn in s
                                if reg.get(cq) is not None and reg.get(cq).abstract_flag})
    axioms = sorted({a for r in results.values() if "fault" not in r for a in r["axioms"]})
    fns = sorted(q for q, r in results.items() if "fault" not in r and any(relevant(pid, q, r, o, needed, roots) for o in r["obligations"]))
    backends = {"z3": {"obligations": n_z3, "discharged": n_dis,
                       "solver_time_s": round(sum(o["time"] for _, o in rel), 2)}}
    for e in extra_ob:
        b = backends.setdefault(e["backend"], {"obligations": 0, "discharged": 0, "solver_time_s": 0.0})
        b["obligations"] += 1
        b["discharged"] += e["status"] == "discharged"
        b["solver_time_s"] = round(b["solver_time_s"] + e.get("time", 0.0), 2)
    samples = [{"obligation": o["name"], "status": o["status"], "depends_on": ["/".join(c) for c in o["core"]][:6]} for _, o in rel[:3]]
    samples += [{"obligation": o["name"], "status": o["status"], "backend": "lean", "theorem": (o.get("extra") or {}).get("theorem")}
                for _, o in rel if (o.get("extra") or {}).get("backend") == "lean"][:2]
    samples += [{"obligation": e["name"], "backend": e["backend"], "status": e["status"]} for e in extra_ob[:3]]
    if not samples:
        samples = [{"note": "no obligations generated"}]
    exit_code = 0
    if real_violations:
        exit_code = 1
    elif faults or canary_missing or engine_faults or (n_z3 + n_extra) == 0:
        exit_code = 3
    elif undecided:
        exit_code = 2
    ev = {
        "property_id": pid, "tier": tier if tier in ("quick", "thorough") else "quick", "seed": seed, "level": "proof",
        "coverage": {
            "obligations": n_z3 + n_extra, "discharged": n_dis + n_extra_dis,
            "checker_cmd": "python3-vt -m pyvc.main %s --tier %s" % (pid, tier),
            "trusted_base": [T0_NOTE] + ["T0/T1/T2 axiom schema instantiated: " + a for a in axioms],
            "samples": samples,
            "functions_under_contract": fns,
            "functions_inlined_into_callers": sorted({i for q in fns for i in results[q]["inlined"] if i != q and not results[q].get("ghost")}),
            "backends": backends,
            "paths_explored": sum(results[q]["paths"] for q in fns),
            "canaries_refuted": sum(sum(1 for v in results[q]["canaries"].values() if v) for q in fns),
            "interface_clauses_used": assumed_contracts,
            "interface_clauses_refined_by": {a: reg.impls.get(a.split("/")[0], []) for a in assumed_contracts},
            "interface_laws_not_discharged": sorted(ilaw_missing),
            "undecided": [("%s: %s" % (q, why))[:300] for q, _, why in undecided][:20],
            "not_decided_by_this_technique": cfg.not_decided,
            "source_hash": repo.source_hash, "repo_root": repo.root,
            "dropped_constructs": sorted({n for q in fns for n in results[q]["notes"] if n.startswith("dropped")}),
            "known_findings_reproduced": known_lines,
            "bounded_standins": (list(getattr(cfg.extra, "standins", []) or []) if cfg.extra is not None else []) + thorough_standins,
            "closure_rounds": rounds,
            "class_invariants_in_cone": sorted(INV_CONE["classes"]),
            "verifier_notes": sorted({n for q in fns for n in results[q]["notes"] if not n.startswith(("dropped", "global ", "ground:", "assumes-inv", "A-"))})[:40],
            "slowest_obligations": [{"obligation": o["name"], "seconds": o["time"]} for _, o in sorted(rel, key=lambda qo: -qo[1]["time"])[:5]],
            "slowest_functions": [{"function": q, "seconds": round(r.get("time", 0), 1), "solver_calls": r.get("nsolve")} for q, r in
                                  sorted(((q, r) for q, r in results.items() if "fault" not in r), key=lambda qr: -qr[1].get("time", 0))[:5]],
            "lean": lean_summary(),
            "t0_axiom_audit": {"kind": "bounded test of the library model against CPython (not a proof step)", "ok": aud.get("ok"),
                               "instances": aud.get("instances"), "schemas": len(aud.get("schemas", []))},
            "cvc5_crosscheck": cvc5_stats if tier == "thorough" else "thorough tier only",
            "engine_crosscheck": {"kind": "bounded test of the verifier: executor on concrete inputs vs CPython on the real modules", "programs": xc["programs"],
                                  "values_compared": xc["values_compared"], "mismatches": len(xc["mismatches"]), "note": xc_note},
        },
        "assumptions": COMMON_ASSUMPTIONS + cfg.assumptions + t2_used + sorted({n for q in fns for n in results[q]["notes"]
                                                                               if n.startswith(("global ", "ground:", "A-"))}),
        "wall_s": round(time.time() - t0, 2),
        "violations": len(real_violations),
    }
    evdir = "evidence" if os.path.realpath(repo.root) == "/repo" else ".selftest/evidence"   # self-test runs never touch evidence/
    os.makedirs(os.path.join(VERIF, evdir), exist_ok=True)
    with open(os.path.join(VERIF, evdir, pid + ".json"), "w") as f:
        json.dump(ev, f, indent=1, default=str)
    # ---- console ------------------------------------------------------------------------------------------------
    print("property %s tier=%s: %d obligations (%d z3 over %d functions, %d other), %d discharged, %d refuted, %d undecided, %.1fs"
          % (pid, tier, n_z3 + n_extra, n_z3, len(fns), n_extra, n_dis + n_extra_dis, len(violations), len(undecided), time.time() - t0))
    for l in known_lines:
        print(l)
    for f in faults:
        print("CHECKER-FAULT in %s: %s\n%s" % (f["qual"], f["fault"], f.get("tb", "")))
    for c in canary_missing:
        print("CHECKER-FAULT canary not refuted: %s" % c)
    for c in engine_faults:
        print("CHECKER-FAULT %s" % c)
    for q, o, why in undecided[:30]:
        print("UNDECIDED %s %s: %s" % (q, o["name"] if o else "", str(why)[:300]))
    for l in vio_lines:
        print(l)
    return exit_code


SUITES_FOR = {
    "C01": ["s_sessions", "s_params_mix"], "C02": ["s_sessions"], "C03": ["s_derivations", "s_params_mix", "s_sessions"],
    "C04": ["s_sessions", "s_entropy"], "C05": ["s_elements", "s_sessions"], "C06": ["s_sessions"], "C07": ["s_sessions"],
    "C08": ["s_sessions", "s_params_mix"], "C09": ["s_params_mix", "s_sessions"], "C10": ["s_params_mix", "s_sessions"], "C11": ["s_util", "s_entropy"],
    "C12": ["s_elements"], "C13": ["s_elements"], "C14": ["s_derivations", "s_ae_long_runs"], "C15": ["s_util", "s_elements"],
    "C16": ["s_params_mix", "s_entropy"], "C17": [], "C18": ["s_elements"],
}


def undecided_fallback(pid, seed, undecided, reg, repo):
    from . import replay, scenarios
    # (1) plain functions (int/bytes parameters): random + related-input search against the property's own clauses
    for q, o, why in undecided:
        c = reg.get(q)
        if c is None or q in reg.ghosts:
            continue
        for cl in c.post + c.exc:
            if pid not in cl.tags:
                continue
            fake = dict(name="%s/%s" % (q, cl.name), clause=cl.name, extra={}, model=None)
            try:
                a = replay.try_search(q, fake, repo, seed)
            except Exception:
                a = None
            if a and a.get("confirmed"):
                return dict(function=q, clause=cl.name, why_undecided=str(why), finding=a, input=a.get("failing_input"))
    # (2) differential scenarios restricted to the suites that witness this property
    suites = SUITES_FOR.get(pid, [])
    if suites:
        r = scenarios.run(rounds=2, seed=seed, only=suites)
        if r.get("mismatch") and not str(r["mismatch"].get("kind", "")).startswith("suite-error"):
            q = undecided[0][0]
            return dict(function=q, clause=None, why_undecided=str(undecided[0][2]), finding=r["mismatch"], input=r["mismatch"])
    return None


def lean_summary():
    from . import leanback
    out = {}
    try:
        if "alg" in leanback._STATIC:
            r, names = leanback._STATIC["alg"]
            out["Algebra.lean"] = {"ok": r["ok"], "seconds": r["seconds"], "cached": r["cached"], "sha256_of_checked_text": r["sha"][:16], "theorems": len(names)}
        if "edw" in leanback._STATIC:
            st = leanback._STATIC["edw"]
            out["Edwards (header + generated mirror of the real functions + EdwardsProofs + EdwardsExtra)"] = {
                "ok": st["ok"], "seconds": st.get("seconds"), "cached": st.get("cached"), "sha256_of_checked_text": (st.get("sha") or "")[:16], "theorems": len(st.get("theorems", []))}
        for part in ("abstract", "curve"):
            st = leanback._STATIC.get("bridge_" + part)
            if st is not None:
                out["Bridge (%s): z3 lemma schemas printed as Lean statements + BridgeProofs%s.lean + Primes (generated from the Pratt certificates)" % (part, part.capitalize())] = {
                    "ok": st["ok"], "seconds": st.get("seconds"), "cached": st.get("cached"), "sha256_of_checked_text": (st.get("sha") or "")[:16], "schemas_proved": sorted(st.get("names", []))}
        st = leanback._STATIC.get("primes")
        if st is not None:
            out["Primes (Lucas test on certs/pratt_*.json, generated by pyvc/leanprimes.py)"] = {"ok": st["ok"], "seconds": st.get("seconds"), "cached": st.get("cached"), "sha256_of_checked_text": (st.get("sha") or "")[:16]}
    except Exception as e:
        out["error"] = str(e)
    return out


INV_CONE = {"classes": set(), "names": set(), "quals": set()}


def invariant_producers(repo, reg, cq):
    """contracts of functions that can produce or modify an object whose class invariant `cq` carries: the methods of the
    classes below cq (constructors included) and every function whose declared result is such an object"""
    base = repo.find_class(cq)
    below = set()
    for m in repo.modules.values():
        for ci in m.classes.values():
            try:
                if base is not None and (ci is base or repo.is_subclass(ci, base)):
                    below.add(ci.qual)
            except Exception:
                pass
    below.add(cq)
    out = []
    for q2, c in reg.contracts.items():
        if c.abstract_flag or q2 in reg.ghosts:
            continue
        if any(q2.startswith(k + ".") for k in below):
            out.append(q2)
            continue
        rt = getattr(c, "ret_type", None) or ""
        if any(("obj:" + k) in rt for k in below):
            out.append(q2)
    return out


def relevant(pid, q, r, o, needed, roots):
    if o["kind"] == "canary":
        return False
    if r.get("ghost"):
        return q in roots
    if pid in o["tags"]:
        return True
    if q in INV_CONE["quals"] and o["clause"] is not None:
        if o["kind"] == "retinv" and o["clause"] in INV_CONE["names"]:
            return True
        if o["clause"].startswith("inv:") and o["clause"][4:] in INV_CONE["names"]:
            return True
    if o["clause"] is not None and o["clause"] in needed.get(q, ()):
        return True
    if o["kind"] in SUPPORT_KINDS:
        # support obligations (call preconditions, hints, loop invariants) count as soon as the function
        # carries the property
        return q in roots or bool(needed.get(q))
    return False


def match_known(kf, pid, o):
    for k in kf.get("known", []):
        if k["property"] == pid and k.get("obligation") and k["obligation"] in o["name"]:
            return k
    return None
