"""Symbolic executor over the Python AST of the real repository files (DESIGN.md section 2.4).

Direct-style interpreter with replay-based forking: every path is one deterministic execution
driven by a decision trace; alternatives discovered at choice points are queued.
"""
import ast, re, builtins as _bi, binascii as _binascii
import z3
from . import sym
from .sym import IV
from .values import *
from .repo import FunctionInfo, ClassInfo, ModuleInfo, oracle, Oracle, PYMOD

RLIMIT_FEAS = 3_000_000

BUILTIN_EXC = {n: getattr(_bi, n) for n in dir(_bi)
               if isinstance(getattr(_bi, n), type) and issubclass(getattr(_bi, n), BaseException)}
BUILTIN_EXC["binascii.Error"] = _binascii.Error


class HeapObj:
    def __init__(self, oid, cls, lazy=False, fresh=False, label=None):
        self.oid, self.cls, self.lazy, self.fresh, self.label = oid, cls, lazy, fresh, label
        self.fields = {}
        self.present = {}      # field -> z3 Bool: field exists only under this condition
        self.absent = set()    # fields known not to exist
        self.ghost = {}

    def clsname(self):
        return self.cls.qual if isinstance(self.cls, ClassInfo) else self.cls


class Obligation:
    def __init__(self, name, kind, clause, goal, status, model=None, core=None, time=0.0, path=None, extra=None):
        self.name, self.kind, self.clause, self.goal, self.status = name, kind, clause, goal, status
        self.model, self.core, self.time, self.path, self.extra = model, core or [], time, path, extra or {}

    def __repr__(self):
        return "<%s %s>" % (self.status, self.name)


class Ctx:
    def __init__(self, trace, verifier):
        self.trace = list(trace)
        self.pos = 0
        self.pending = []
        self.pc = []
        self.labels = []           # (z3 Bool, (callee qual, clause name))
        self.heap = {}
        self.next_oid = 1
        self.obligations = []
        self.entropy_log = []      # (stream, n-term)
        self.entropy_pos = {}      # stream -> z3 Int position
        self.writes = []           # (oid, field)
        self.global_reads = []
        self.global_objs = {}
        self.verifier = verifier
        self.nsolve = 0
        self.solve_time = 0.0
        self.notes = []
        self.input_syms = {}       # name -> value (for model extraction)
        self.always_deps = []      # callee clauses consumed as bindings (result.f is X): every later obligation depends on them

    # ---- decisions -----------------------------------------------------------------------------
    def choose(self, n, what=""):
        if n == 1:
            return 0
        if self.pos < len(self.trace):
            k = self.trace[self.pos]
        else:
            k = 0
            self.trace.append(0)
            for alt in range(1, n):
                self.pending.append(self.trace[:self.pos] + [alt])
        self.pos += 1
        return k

    def solver(self, rlimit=None, timeout=None):
        s = z3.Solver()
        if rlimit:
            s.set("rlimit", rlimit)
        if timeout:
            s.set("timeout", timeout)
        return s

    def check(self, extra=(), rlimit=RLIMIT_FEAS):
        import time
        t0 = time.time()
        s = self.solver(rlimit=rlimit)
        # feasibility is decided on the nonlinear abstraction (sound for pruning: unsat there => unsat here)
        A = sym.abstract_nl
        s.add([A(f) for f in sym.FACTS.facts])
        s.add([A(f) for f in self.pc])
        for lab, _ in self.labels:
            s.add(lab)
        for e in extra:
            s.add(A(e))
        s.add(sym._ABS_SIDE)
        r = s.check()
        self.nsolve += 1
        self.solve_time += time.time() - t0
        return r

    def branch(self, cond, what=""):
        """Decide a condition; returns python bool; extends the path condition."""
        if isinstance(cond, bool):
            return cond
        if isinstance(cond, SBool):
            cond = cond.t
        c = z3.simplify(cond)
        if z3.is_true(c):
            return True
        if z3.is_false(c):
            return False
        can_t = self.check([c]) != z3.unsat
        can_f = self.check([z3.Not(c)]) != z3.unsat
        if can_t and can_f:
            k = self.choose(2, what)
            if k == 0:
                self.pc.append(c)
                return True
            self.pc.append(z3.Not(c))
            return False
        if can_t:
            self.pc.append(c)
            return True
        if can_f:
            self.pc.append(z3.Not(c))
            return False
        raise PathEnd("infeasible")

    def assume(self, f, label=None):
        if isinstance(f, bool):
            if not f:
                raise PathEnd("infeasible")
            return
        if isinstance(f, SBool):
            f = f.t
        if label is not None:
            lab = z3.Bool("lab!%d!%s!%s" % (len(self.labels), label[0], label[1]))
            self.labels.append((lab, label))
            self.pc.append(z3.Implies(lab, f))
        else:
            self.pc.append(f)

    # ---- heap ----------------------------------------------------------------------------------
    def alloc(self, cls, lazy=False, fresh=True, label=None):
        oid = self.next_oid
        self.next_oid += 1
        self.heap[oid] = HeapObj(oid, cls, lazy=lazy, fresh=fresh, label=label)
        return SObj(oid)

    def obj(self, v):
        return self.heap[v.oid]

    def snapshot(self):
        snap = {}
        for oid, o in self.heap.items():
            snap[oid] = (dict(o.fields), dict(o.present), set(o.absent))
        return snap


def exc_name(v):
    """canonical exception class name from a class value"""
    if isinstance(v, SBuiltin) and v.name.startswith("exc:"):
        return v.name[4:]
    if isinstance(v, SClass):
        return v.cinfo.qual
    raise Unsupported("not an exception class: %r" % (v,))


class Frame:
    def __init__(self, finfo, module, env, contract=None, closure=None):
        self.finfo, self.module, self.env, self.contract, self.closure = finfo, module, env, contract, closure
        self.loop_ordinal = 0


class Interp:
    def __init__(self, repo, reg, ctx, spec, top_qual=None):
        self.repo, self.reg, self.ctx, self.spec = repo, reg, ctx, spec
        self.top_qual = top_qual
        self.depth = 0
        self.pre_snapshot = None
        self.all_snaps = []
        self.use_old = False
        self.call_log = []
        self.fresh_dicts, self._keep = set(), []
        self._anchor = []          # innermost contract whose hint / lemma anchors apply (inherited by inlined same-module helpers)

    # =========================================================================================
    # name resolution
    # =========================================================================================
    def lookup_name(self, name, frame):
        if name in frame.env:
            return frame.env[name]
        cl = frame.closure
        while cl is not None:
            if name in cl.env:
                return cl.env[name]
            cl = cl.closure
        return self.lookup_global(name, frame.module)

    def lookup_global(self, name, module):
        if module is not None:
            if name in module.functions:
                return SFunc(module.functions[name])
            if name in module.classes:
                return SClass(module.classes[name])
            if name in module.assigns:
                return self.global_value(module, name)
            if name in module.imports:
                imp = module.imports[name]
                if imp[0] == "module":
                    return SModule(imp[1])
                _, modname, level, attr = imp
                target = self.repo.resolve_module(module, modname, level)
                if target is not None and target in self.repo.modules:
                    return self.lookup_global(attr, self.repo.modules[target])
                if target is not None and attr in self.repo.modules:
                    return SModule("spake2." + attr)
                if target is not None and (target + "." + attr if target else attr) in self.repo.modules:
                    return SModule("spake2." + (target + "." + attr if target else attr))
                full = (modname or "") + "." + attr
                return self.library_name(full)
        return self.builtin_name(name)

    LIB_FUNCS = {"binascii.hexlify", "binascii.unhexlify", "binascii.b2a_hex", "binascii.a2b_hex", "hashlib.sha256", "math.ceil", "os.urandom",
                 "json.dumps", "json.loads", "itertools.count", "operator.index"}

    def library_name(self, full):
        if full in self.LIB_FUNCS:
            return SBuiltin(full)
        if full == "cryptography.hazmat.primitives.kdf.hkdf":
            return SModule("hkdf")
        if full == "cryptography.hazmat.primitives.hashes":
            return SModule("hashes")
        raise Unsupported("unmodelled import %s" % full)

    def builtin_name(self, name):
        if name in ("len", "int", "str", "bytes", "bool", "isinstance", "type", "hasattr", "pow", "list", "iter",
                    "sorted", "repr", "range", "bin", "tuple", "min", "max", "abs", "divmod", "object", "setattr", "getattr", "zip", "enumerate"):
            return SBuiltin(name)
        if name in BUILTIN_EXC:
            return SBuiltin("exc:" + name)
        if name in ("True", "False", "None"):
            return {"True": True, "False": False, "None": None}[name]
        raise Unsupported("unknown name %s" % name)

    def global_value(self, module, name):
        self.ctx.global_reads.append((module.name, name))
        key = (module.name, name)
        if key in self.ctx.global_objs:
            return self.ctx.global_objs[key]
        desc = self.ctx.verifier.global_desc(module.name, name)
        v = self.from_desc(desc, "%s.%s" % (module.name, name))
        self.ctx.global_objs[key] = v
        return v

    def from_desc(self, d, label):
        if d is None or isinstance(d, bool):
            return d
        if "i" in d:
            return int(d["i"])
        if "b" in d:
            return bytes.fromhex(d["b"])
        if "s" in d:
            return d["s"]
        if "l" in d:
            return [self.from_desc(x, label) for x in d["l"]]
        if "t" in d:
            return tuple(self.from_desc(x, label) for x in d["t"])
        if "o" in d:
            return self.global_object(d, label)
        if "cls" in d:
            raise Unsupported("class-valued global %s" % label)
        raise Unsupported("global value %s" % label)

    def global_object(self, d, label):
        key = ("obj", d["m"], d["o"], d["id"], label.split(".")[0])
        # identity: same real object reached twice gets the same heap node (by label path)
        mod = d.get("m", "")
        cls = None
        if mod.startswith("spake2."):
            m = self.repo.modules.get(mod[len("spake2."):])
            if m:
                cls = m.classes.get(d["o"])
        if cls is None:
            raise Unsupported("global object of unknown class %s.%s" % (mod, d["o"]))
        ident = self.ctx.verifier.global_identity(d, label)
        if ident in self.ctx.global_objs:
            return self.ctx.global_objs[ident]
        o = self.ctx.alloc(cls, lazy=False, fresh=False, label=label)
        self.ctx.global_objs[ident] = o
        ho = self.ctx.obj(o)
        ho.is_global = True
        for k, x in d.get("f", {}).items():
            if isinstance(x, dict) and x.get("ref"):
                continue
            try:
                ho.fields[k] = self.from_desc(x, label + "." + k)
            except Unsupported:
                pass
        # module-level singletons satisfy their class invariant: established by the module-initialisation
        # lemmas (contracts/module_init.py), assumed wherever the global is used
        if not getattr(self.ctx, "raw_globals", False):
            if self.reg.invariants.get(cls.qual):
                self.ctx.notes.append("global %s assumed to satisfy its class invariant (proved by lemma module_init)" % label.split(".")[-1])
            self.ctx.verifier.assume_invariants(self, o, label)
        return o

    # =========================================================================================
    # expressions
    # =========================================================================================
    def eval(self, node, frame, pure=False):
        m = getattr(self, "e_" + type(node).__name__, None)
        if m is None:
            raise Unsupported("expression %s" % type(node).__name__)
        return m(node, frame, pure)

    def e_Constant(self, node, frame, pure):
        v = node.value
        if isinstance(v, (int, bool, bytes, str, float)) or v is None:
            return v
        raise Unsupported("constant %r" % (v,))

    def e_Name(self, node, frame, pure):
        return self.lookup_name(node.id, frame)

    def e_Tuple(self, node, frame, pure):
        return tuple(self.eval(e, frame, pure) for e in node.elts)

    def e_List(self, node, frame, pure):
        return [self.eval(e, frame, pure) for e in node.elts]

    def e_Dict(self, node, frame, pure):
        d = {}
        self.fresh_dicts.add(id(d))
        self._keep.append(d)          # keep alive: ids of collected objects could be reused
        for k, v in zip(node.keys, node.values):
            kk = self.eval(k, frame, pure)
            if not isinstance(kk, str):
                raise Unsupported("dict key not a literal str")
            d[kk] = self.eval(v, frame, pure)
        return d

    def e_DictComp(self, node, frame, pure):
        if len(node.generators) != 1 or node.generators[0].ifs or node.generators[0].is_async:
            raise Unsupported("dict comprehension shape")
        g = node.generators[0]
        it = self.eval(g.iter, frame, pure)
        if not isinstance(it, (list, tuple)):
            raise Unsupported("dict comprehension over %r" % (type(it).__name__,))
        sub = Frame(frame.finfo, frame.module, dict(frame.env), closure=frame.closure)
        d = {}
        self.fresh_dicts.add(id(d))
        self._keep.append(d)
        for x in it:
            self.assign(g.target, x, sub)
            k = self.eval(node.key, sub, pure)
            if not isinstance(k, str):
                raise Unsupported("dict key not a concrete str")
            d[k] = self.eval(node.value, sub, pure)
        return d

    def e_JoinedStr(self, node, frame, pure):
        """f-string: literal pieces and {expr} / {expr:x} / {expr:0Nx} / {expr!s} of ints and strs, as the equivalent concatenation"""
        out = None
        for part in node.values:
            if isinstance(part, ast.Constant) and isinstance(part.value, str):
                piece = part.value
            elif isinstance(part, ast.FormattedValue):
                v = self.eval(part.value, frame, pure)
                spec = None
                if part.format_spec is not None:
                    if not (isinstance(part.format_spec, ast.JoinedStr) and all(isinstance(x, ast.Constant) for x in part.format_spec.values)):
                        raise Unsupported("f-string format spec")
                    spec = "".join(x.value for x in part.format_spec.values)
                if part.conversion not in (-1, 115):
                    raise Unsupported("f-string conversion")
                if spec in (None, ""):
                    if isinstance(v, str) or isinstance(v, SStr):
                        piece = v
                    elif isintlike(v) and not isinstance(v, bool):
                        piece = lib.call_builtin(self, SBuiltin("str"), [v], {}, pure)
                    else:
                        raise Unsupported("f-string of %r" % (type(v).__name__,))
                elif re.fullmatch(r"0?\d*x", spec) and isintlike(v):
                    piece = self.str_format("%" + spec, v)
                else:
                    raise Unsupported("f-string format spec %r" % spec)
            else:
                raise Unsupported("f-string part")
            out = piece if out is None else self.binop(ast.Add(), out, piece, pure)
        return "" if out is None else out

    def e_Lambda(self, node, frame, pure):
        raise Unsupported("lambda")

    def e_IfExp(self, node, frame, pure):
        c = self.truth(self.eval(node.test, frame, pure))
        if pure:
            if isinstance(c, bool):
                return self.eval(node.body if c else node.orelse, frame, pure)
            a = self.eval(node.body, frame, pure)
            b = self.eval(node.orelse, frame, pure)
            return self.ite(c, a, b)
        if self.ctx.branch(c, "ifexp"):
            return self.eval(node.body, frame, pure)
        return self.eval(node.orelse, frame, pure)

    def ite(self, c, a, b):
        if isintlike(a) and isintlike(b):
            return mkint(z3.If(Bo(c), I(a), I(b)))
        if isinstance(a, (bool, SBool)) and isinstance(b, (bool, SBool)):
            return mkbool(z3.If(Bo(c), Bo(a), Bo(b)))
        if isbyteslike(a) and isbyteslike(b):
            return SBytes(z3.If(Bo(c), Bt(a), Bt(b)))
        if isinstance(a, SPoint) and isinstance(b, SPoint):
            return SPoint(z3.If(Bo(c), a.t, b.t))
        if isinstance(a, tuple) and isinstance(b, tuple) and len(a) == len(b):
            return tuple(self.ite(c, x, y) for x, y in zip(a, b))
        raise Unsupported("ite on %r / %r" % (a, b))

    def e_BoolOp(self, node, frame, pure):
        is_and = isinstance(node.op, ast.And)
        if pure:
            acc = []
            for e in node.values:
                v = self.truth(self.eval(e, frame, pure))
                if isinstance(v, bool):
                    if is_and and not v:
                        return False
                    if (not is_and) and v:
                        return True
                    continue
                acc.append(v.t)
            if not acc:
                return is_and
            return mkbool(z3.And(*acc) if is_and else z3.Or(*acc))
        # python semantics: returns the deciding operand
        v = None
        for i, e in enumerate(node.values):
            v = self.eval(e, frame, pure)
            if i == len(node.values) - 1:
                return v
            t = self.ctx.branch(self.truth(v), "boolop")
            if is_and and not t:
                return v
            if (not is_and) and t:
                return v
        return v

    def e_UnaryOp(self, node, frame, pure):
        v = self.eval(node.operand, frame, pure)
        if isinstance(node.op, ast.Not):
            t = self.truth(v)
            if isinstance(t, bool):
                return not t
            return mkbool(z3.Not(t.t))
        if isinstance(node.op, ast.USub):
            if isinstance(v, int):
                return -v
            return mkint(-I(v))
        if isinstance(node.op, ast.UAdd):
            return v
        raise Unsupported("unary op")

    def truth(self, v):
        """python truthiness -> bool | SBool"""
        if isinstance(v, bool) or v is None:
            return bool(v)
        if isinstance(v, SBool):
            return v
        if isinstance(v, int):
            return v != 0
        if isinstance(v, SInt):
            return mkbool(v.t != 0)
        if isinstance(v, (bytes, str, tuple, list, dict)):
            return len(v) > 0
        if isinstance(v, (SBytes, SStr)):
            return mkbool(sym.blen(v.t) > 0)
        if isinstance(v, SByteList):
            return mkbool(sym.blen(v.t) > 0)
        if isinstance(v, (SObj, SFunc, SClass, SBuiltin, SEntropy, SOpaque)):
            return True
        raise Unsupported("truth of %r" % (v,))

    # ---- arithmetic ----------------------------------------------------------------------------
    def e_BinOp(self, node, frame, pure):
        a = self.eval(node.left, frame, pure)
        b = self.eval(node.right, frame, pure)
        return self.binop(node.op, a, b, pure)

    def binop(self, op, a, b, pure=False):
        ctx = self.ctx
        # concrete fast path
        if not is_sym(a) and not is_sym(b) and not isinstance(a, (SObj, list, tuple)) \
                and isinstance(a, (int, bytes, str, float)) and isinstance(b, (int, bytes, str, float, tuple)) \
                and not (isinstance(b, tuple) and any(not isinstance(x, (int, bytes, str, float)) for x in b)):
            # (every operand, and every member of a tuple operand, is a plain Python value here: an exception raised by CPython below
            # is the program's behaviour, not an artefact of symbolic objects)
            try:
                return self.concrete_binop(op, a, b)
            except ZeroDivisionError:
                raise Raise("ZeroDivisionError")
            except TypeError:
                raise Raise("TypeError")
            except ValueError:
                raise Raise("ValueError")
        if isinstance(op, ast.Add):
            if isintlike(a) and isintlike(b):
                return mkint(I(a) + I(b))
            if isbyteslike(a) and isbyteslike(b):
                return SBytes(sym.concat(Bt(a), Bt(b)))
            if isstrlike(a) and isstrlike(b):
                return SStr(sym.concat(St(a), St(b)))
            if isinstance(a, list) and isinstance(b, list):
                return a + b
            if isinstance(a, list) and len(a) == 1 and isinstance(b, SByteList):
                x = a[0]
                # [x] + bytelist  : needs 0 <= x <= 255 to stay a byte list
                self.require(z3.And(I(x) >= 0, I(x) <= 255), "bytelist-cons-range")
                t = sym.fresh("cons", sym.B)
                sym.regb(t)
                sym.FACTS.add(sym.blen(t) == sym.blen(b.t) + 1, "cons-len")
                sym.FACTS.add(sym.bval(t) == I(x) * sym.P256(sym.blen(b.t)) + sym.bval(b.t), "cons-val")
                sym.FACTS.add(sym.head(t) == I(x), "cons-head")
                return SByteList(t)
            if isinstance(a, tuple) and isinstance(b, tuple):
                return a + b
            raise Raise("TypeError") if self.definitely_typed(a, b) else Unsupported("add %r %r" % (a, b))
        if isinstance(op, ast.Sub):
            return mkint(I(a) - I(b))
        if isinstance(op, ast.Mult):
            if isintlike(a) and isintlike(b):
                return mkint(I(a) * I(b))
            raise Unsupported("mult %r %r" % (a, b))
        if isinstance(op, ast.Div):
            if isintlike(a) and isintlike(b):
                if not pure and ctx.branch(I(b) == 0, "div0"):
                    raise Raise("ZeroDivisionError")
                return SFrac(I(a), I(b))
            raise Unsupported("true division")
        if isinstance(op, (ast.FloorDiv, ast.Mod)):
            if isinstance(op, ast.Mod) and isstrlike(a):
                return self.str_format(a, b)
            if isinstance(op, ast.Mod) and isinstance(a, bytes):
                # bytes %-formatting with the same directives: b"%064x" % n == ("%064x" % n).encode("ascii")
                r = self.str_format(a.decode("ascii"), b)
                return SBytes(r.t) if isinstance(r, SStr) else r.encode("ascii")
            if isintlike(a) and isintlike(b):
                bt = I(b)
                if not pure:
                    if ctx.branch(bt == 0, "div0"):
                        raise Raise("ZeroDivisionError")
                    if ctx.check([bt < 0]) != z3.unsat:
                        raise Unsupported("possibly negative divisor in // or %")
                if isinstance(op, ast.FloorDiv):
                    return mkint(I(a) / bt)
                return mkint(I(a) % bt)
            raise Unsupported("floordiv/mod %r %r" % (a, b))
        if isinstance(op, ast.Pow):
            bc, ac = sym.as_const_int(I(b)), sym.as_const_int(I(a))
            if ac == 2:
                if not pure and ctx.check([I(b) < 0]) != z3.unsat:
                    raise Unsupported("2**negative")
                return mkint(sym.P2(I(b)))
            if bc is not None and 0 <= bc <= 4:
                r = IV(1)
                for _ in range(bc):
                    r = r * I(a)
                return mkint(r)
            raise Unsupported("pow with symbolic operands")
        if isinstance(op, ast.LShift):
            if not pure and ctx.branch(I(b) < 0, "shift-neg"):
                raise Raise("ValueError")
            return mkint(I(a) * sym.P2(I(b)))
        if isinstance(op, ast.RShift):
            if not pure and ctx.branch(I(b) < 0, "shift-neg"):
                raise Raise("ValueError")
            return mkint(I(a) / sym.P2(I(b)))
        if isinstance(op, ast.BitAnd):
            return self.bitand(a, b)
        raise Unsupported("binop %s" % type(op).__name__)

    def definitely_typed(self, a, b):
        return False

    def concrete_binop(self, op, a, b):
        import operator
        table = {ast.Add: operator.add, ast.Sub: operator.sub, ast.Mult: operator.mul, ast.Div: operator.truediv,
                 ast.FloorDiv: operator.floordiv, ast.Mod: operator.mod, ast.Pow: operator.pow,
                 ast.LShift: operator.lshift, ast.RShift: operator.rshift, ast.BitAnd: operator.and_,
                 ast.BitOr: operator.or_, ast.BitXor: operator.xor}
        f = table.get(type(op))
        if f is None:
            raise Unsupported("binop")
        if isinstance(op, ast.Pow) and isinstance(b, int) and (b < 0 or b > 100000):
            raise Unsupported("huge pow")
        if isinstance(op, ast.Div) and isinstance(a, int) and isinstance(b, int):
            if b == 0:
                raise ZeroDivisionError
            if abs(a) < 2 ** 52 and abs(b) < 2 ** 52:
                return a / b          # exact enough: CPython computes the correctly rounded quotient
            return SFrac(IV(a), IV(b))
        return f(a, b)

    def bitand(self, a, b):
        """a & b  (ints).  Supported: a mask of the form 2**j-1 or 2**j on one side."""
        for x, m in ((a, b), (b, a)):
            mc = sym.as_const_int(I(m)) if isintlike(m) else None
            if mc is not None and mc >= 0:
                if mc & (mc + 1) == 0:           # 2**j - 1
                    return mkint(I(x) % (mc + 1))
                if mc & (mc - 1) == 0:           # 2**j
                    return mkint(((I(x) / mc) % 2) * mc)
        # symbolic mask: uninterpreted band with the low-mask law for byte-sized masks
        at, bt = I(a), I(b)
        t = sym.band(at, bt)
        if sym.FACTS.reg("band", at, bt):
            for j in range(0, 9):
                sym.FACTS.add(z3.Implies(z3.And(at == 2 ** j - 1, bt >= 0), t == bt % (2 ** j)), "band-lowmask")
                sym.FACTS.add(z3.Implies(z3.And(bt == 2 ** j - 1, at >= 0), t == at % (2 ** j)), "band-lowmask")
            sym.FACTS.add(z3.Implies(z3.And(at >= 0, bt >= 0), z3.And(t >= 0, t <= at, t <= bt)), "band-range")
        return mkint(t)

    def str_format(self, fmt, arg):
        """ '<fmt>' % arg   for the formats %0<N>x / %x / %02x with an int argument."""
        if isinstance(arg, tuple) and len(arg) == 2 and fmt == "%0*x" and isintlike(arg[0]) and isintlike(arg[1]):
            # "%0*x" % (w, n): the width taken from the argument list; same text as ("%0" + str(w) + "x") % n for w >= 1
            w = arg[0]
            if isinstance(w, int):
                if w < 1:
                    raise Unsupported("format width may be < 1")
                return SStr(sym.HEXFMT(w, I(arg[1])))
            if self.ctx.check([I(w) < 1]) != z3.unsat:
                raise Unsupported("format width may be < 1")
            return SStr(sym.HEXFMT(I(w), I(arg[1])))
        if isinstance(arg, tuple):
            if len(arg) != 1:
                raise Unsupported("format with tuple")
            arg = arg[0]
        if not isintlike(arg):
            raise Unsupported("format of non-int")
        if isinstance(fmt, str):
            m = re.fullmatch(r"%0(\d+)x", fmt)
            if m:
                return SStr(sym.HEXFMT(int(m.group(1)), I(arg)))
            if fmt == "%x":
                return SStr(sym.HEXFMT(0, I(arg)))
            raise Unsupported("format string %r" % fmt)
        # symbolic: "%0" + str(w) + "x"
        leaves = self.flatten_cat(fmt.t)
        if len(leaves) == 3 and self.lit_of(leaves[0]) == b"%0" and self.lit_of(leaves[2]) == b"x" \
                and z3.is_app(leaves[1]) and leaves[1].decl().name() == "decstr":
            w = leaves[1].arg(0)
            if self.ctx.check([w < 1]) != z3.unsat:
                raise Unsupported("format width may be < 1")
            return SStr(sym.HEXFMT(w, I(arg)))
        raise Unsupported("symbolic format string")

    def flatten_cat(self, t):
        if z3.is_app(t) and t.decl().name() == "cat":
            return self.flatten_cat(t.arg(0)) + self.flatten_cat(t.arg(1))
        return [t]

    def lit_of(self, t):
        for (tt, b) in sym.FACTS.items("litval"):
            if tt.eq(t):
                return b
        return None

    # ---- comparisons ---------------------------------------------------------------------------
    def e_Compare(self, node, frame, pure):
        left = self.eval(node.left, frame, pure)
        result = None
        for op, rn in zip(node.ops, node.comparators):
            right = self.eval(rn, frame, pure)
            r = self.compare(op, left, right, frame, pure)
            if len(node.ops) == 1:
                return r
            if pure:
                result = r if result is None else self.and_(result, r)
            else:
                # python: short-circuit chain
                if not self.ctx.branch(self.truth(r), "cmpchain"):
                    return False
                result = True
            left = right
        return result

    def and_(self, a, b):
        if isinstance(a, bool):
            return b if a else False
        if isinstance(b, bool):
            return a if b else False
        return mkbool(z3.And(a.t, b.t))

    def not_(self, a):
        if isinstance(a, bool):
            return not a
        return mkbool(z3.Not(a.t))

    def compare(self, op, a, b, frame=None, pure=False):
        if isinstance(op, (ast.Is, ast.IsNot)):
            r = self.identical(a, b)
            return r if isinstance(op, ast.Is) else self.not_(r)
        if isinstance(op, (ast.In, ast.NotIn)):
            if isinstance(b, (tuple, list)):
                r = False
                for x in b:
                    e = self.equals(a, x, pure)
                    if isinstance(e, bool):
                        if e:
                            r = True
                            break
                        continue
                    r = e if r is False else mkbool(z3.Or(Bo(r), e.t))
                return r if isinstance(op, ast.In) else self.not_(r)
            if isinstance(b, dict):
                if isinstance(a, str):
                    r = a in b
                    return r if isinstance(op, ast.In) else not r
            raise Unsupported("in on %r" % (b,))
        if isinstance(op, ast.Eq):
            return self.equals(a, b, pure)
        if isinstance(op, ast.NotEq):
            return self.not_equals(a, b, pure)
        # ordering
        if isintlike(a) and isintlike(b):
            if isinstance(a, int) and isinstance(b, int):
                return {ast.Lt: a < b, ast.LtE: a <= b, ast.Gt: a > b, ast.GtE: a >= b}[type(op)]
            at, bt = I(a), I(b)
            return mkbool({ast.Lt: at < bt, ast.LtE: at <= bt, ast.Gt: at > bt, ast.GtE: at >= bt}[type(op)])
        if isinstance(a, SFrac) or isinstance(b, SFrac):
            raise Unsupported("ordering on fractions")
        if isbyteslike(a) and isbyteslike(b):
            if isinstance(a, bytes) and isinstance(b, bytes):
                return {ast.Lt: a < b, ast.LtE: a <= b, ast.Gt: a > b, ast.GtE: a >= b}[type(op)]
            at, bt = Bt(a), Bt(b)
            if isinstance(op, ast.Lt):
                return mkbool(sym.BLT(at, bt))
            if isinstance(op, ast.Gt):
                return mkbool(sym.BLT(bt, at))
            if isinstance(op, ast.LtE):
                return mkbool(z3.Not(sym.BLT(bt, at)))
            return mkbool(z3.Not(sym.BLT(at, bt)))
        raise Unsupported("ordering of %r and %r" % (a, b))

    def identical(self, a, b):
        if a is None or b is None:
            return a is None and b is None
        if isinstance(a, SObj) and isinstance(b, SObj):
            return a.oid == b.oid
        if isinstance(a, SObj) or isinstance(b, SObj):
            return False
        if isinstance(a, bool) and isinstance(b, bool):
            return a == b
        if isinstance(a, SClass) and isinstance(b, SClass):
            return a.cinfo.qual == b.cinfo.qual
        if isinstance(a, SEntropy) and isinstance(b, SEntropy):
            return a.stream == b.stream and a.forbidden == b.forbidden
        if isinstance(a, SFunc) and isinstance(b, SFunc):
            return a.finfo is b.finfo and a.self_val == b.self_val
        if isinstance(a, SBuiltin) and isinstance(b, SBuiltin):
            return a.name == b.name
        if isinstance(a, (SClass, SBuiltin)) or isinstance(b, (SClass, SBuiltin)):
            return False
        raise Unsupported("identity of %r and %r" % (a, b))

    def equals(self, a, b, pure=False):
        if isinstance(a, bool) or isinstance(b, bool) or isinstance(a, SBool) or isinstance(b, SBool):
            if isinstance(a, (bool, SBool)) and isinstance(b, (bool, SBool)):
                if isinstance(a, bool) and isinstance(b, bool):
                    return a == b
                return mkbool(Bo(a) == Bo(b))
            if isintlike(a) and isintlike(b):
                return mkbool(I(a) == I(b))
            return False
        if isintlike(a) and isintlike(b):
            if isinstance(a, int) and isinstance(b, int):
                return a == b
            return mkbool(I(a) == I(b))
        if isbyteslike(a) and isbyteslike(b):
            if isinstance(a, bytes) and isinstance(b, bytes):
                return a == b
            return mkbool(sym.beq(Bt(a), Bt(b)))
        if isstrlike(a) and isstrlike(b):
            if isinstance(a, str) and isinstance(b, str):
                return a == b
            return mkbool(sym.beq(St(a), St(b)))
        if isinstance(a, SPoint) and isinstance(b, SPoint):
            return mkbool(a.t == b.t)
        if isinstance(a, (tuple, list)) and isinstance(b, (tuple, list)):
            if type(a) is not type(b) or len(a) != len(b):
                return False
            r = True
            for x, y in zip(a, b):
                r = self.and_(r, self.equals(x, y, pure))
            return r
        if isinstance(a, dict) and isinstance(b, dict):
            if set(a) != set(b):
                return False
            r = True
            for k in a:
                r = self.and_(r, self.equals(a[k], b[k], pure))
            return r
        if a is None or b is None:
            return a is None and b is None
        if isinstance(a, SObj):
            ho = self.ctx.obj(a)
            eqm = self.find_method(ho, "__eq__")
            if eqm is not None:
                if pure:
                    raise Unsupported("__eq__ in pure context")
                return self.truth(self.call(SFunc(eqm, a), [b], {}))
            return isinstance(b, SObj) and a.oid == b.oid
        if isinstance(a, SByteList) and isinstance(b, SByteList):
            return mkbool(sym.beq(a.t, b.t))
        if isinstance(a, SFrac) or isinstance(b, SFrac):
            raise Unsupported("== on fraction")
        # different kinds
        kinds = lambda v: ("int" if isintlike(v) else "bytes" if isbyteslike(v) else "str" if isstrlike(v)
                           else type(v).__name__)
        if kinds(a) != kinds(b):
            return False
        raise Unsupported("== on %r and %r" % (a, b))

    def not_equals(self, a, b, pure=False):
        if isinstance(a, SObj):
            ho = self.ctx.obj(a)
            nem = self.find_method(ho, "__ne__")
            if nem is not None:
                if pure:
                    raise Unsupported("__ne__ in pure context")
                return self.truth(self.call(SFunc(nem, a), [b], {}))
        return self.not_(self.equals(a, b, pure))

    def find_method(self, ho, name):
        if isinstance(ho.cls, ClassInfo):
            return self.repo.lookup_method(ho.cls, name)
        return None

    # ---- subscripts ---------------------------------------------------------------------------
    def e_Subscript(self, node, frame, pure):
        v = self.eval(node.value, frame, pure)
        sl = node.slice
        if isinstance(sl, ast.Slice):
            lo = self.eval(sl.lower, frame, pure) if sl.lower is not None else None
            hi = self.eval(sl.upper, frame, pure) if sl.upper is not None else None
            st = self.eval(sl.step, frame, pure) if sl.step is not None else None
            return self.slice(v, lo, hi, st)
        idx = self.eval(sl, frame, pure)
        return self.index(v, idx, pure)

    def slice(self, v, lo, hi, st):
        if isinstance(v, (bytes, str, tuple, list)) and all(x is None or isinstance(x, int) for x in (lo, hi, st)):
            return v[lo:hi:st]
        if isinstance(v, (SBytes, bytes, SByteList)):
            wrap = SByteList if isinstance(v, SByteList) else SBytes
            t = v.t if isinstance(v, SByteList) else Bt(v)
            if st is not None:
                if st == -1 and lo is None and hi is None:
                    return wrap(sym.brev(t))
                raise Unsupported("slice step")
            for x in (lo, hi):
                if x is not None and self.ctx.check([I(x) < 0]) != z3.unsat:
                    raise Unsupported("possibly negative slice bound")
            if lo is None or (isinstance(lo, int) and lo == 0):
                if hi is None:
                    return wrap(t)
                return wrap(sym.btake(t, I(hi)))
            if hi is None:
                return wrap(sym.bdrop(t, I(lo)))
            d = sym.bdrop(t, I(lo))
            return wrap(sym.btake(d, z3.If(I(hi) >= I(lo), I(hi) - I(lo), IV(0))))
        raise Unsupported("slice of %r" % (v,))

    def index(self, v, idx, pure=False):
        if isinstance(v, (tuple, list)):
            if isinstance(idx, int):
                try:
                    return v[idx]
                except IndexError:
                    raise Raise("IndexError")
            raise Unsupported("symbolic index into tuple/list")
        if isinstance(v, dict):
            if isinstance(idx, str):
                if idx in v:
                    return v[idx]
                raise Raise("KeyError")
            raise Unsupported("symbolic dict key")
        if isinstance(v, bytes) and isinstance(idx, int):
            try:
                return v[idx]
            except IndexError:
                raise Raise("IndexError")
        if isinstance(v, (SBytes, SByteList)) and isinstance(idx, int) and idx == 0:
            if not pure and self.ctx.branch(sym.blen(v.t) == 0, "index-empty"):
                raise Raise("IndexError")
            return mkint(sym.HEAD(v.t))
        raise Unsupported("index %r[%r]" % (v, idx))

    # ---- attributes ----------------------------------------------------------------------------
    def e_Attribute(self, node, frame, pure):
        v = self.eval(node.value, frame, pure)
        return self.getattr(v, node.attr, pure)

    def getattr(self, v, name, pure=False):
        if isinstance(v, SObj):
            return self.obj_getattr(v, name, pure)
        if isinstance(v, SModule):
            return self.module_attr(v, name)
        if isinstance(v, SSuper):
            # the first class after `after` (in the MRO of `after`: single inheritance in this code base; for multiple inheritance the
            # MRO of type(obj) would be needed - rejected below) that defines `name`
            if len(self.repo.bases(v.after)) > 1:
                raise Unsupported("super() with multiple inheritance")
            for c in self.repo.mro(v.after)[1:]:
                if isinstance(c, ClassInfo) and name in c.methods:
                    f = c.methods[name]
                    if f.is_staticmethod:
                        return SFunc(f)
                    sf = SFunc(f, v.bound)
                    sf.static = True          # no dynamic dispatch: exactly this class's method
                    return sf
            raise Raise("AttributeError")
        if isinstance(v, SClass):
            f = self.repo.lookup_method(v.cinfo, name)
            if f is not None:
                if f.is_classmethod:
                    return SFunc(f, v)
                sf = SFunc(f)
                sf.static = True      # Class.method(obj, ...): no dynamic dispatch
                return sf
            ca = self.repo.lookup_class_attr(v.cinfo, name)
            if ca is not None:
                return self.class_attr_value(ca)
            raise Raise("AttributeError")
        if isintlike(v) and name in ("bit_length", "to_bytes"):
            return SBuiltin("int." + name, v)
        if isbyteslike(v) and name in ("decode", "hex", "join"):
            return SBuiltin("bytes." + name, v)
        if isstrlike(v) and name in ("encode", "join", "zfill"):
            return SBuiltin("str." + name, v)
        if isinstance(v, list) and name in ("append", "extend"):
            if any(v is g for g in self.ctx.global_objs.values()):
                raise Unsupported("mutation of a module-level list")
            return SBuiltin("list." + name, v)
        if isinstance(v, SOpaque):
            return SBuiltin(v.kind + "." + name, v)
        if isinstance(v, SBuiltin) and v.name == "int" and name == "from_bytes":
            return SBuiltin("int.from_bytes")
        if isinstance(v, SBuiltin) and v.name == "int" and name == "to_bytes":
            return SBuiltin("int.to_bytes_unbound")
        if isinstance(v, SBuiltin) and v.name == "bytes" and name == "fromhex":
            return SBuiltin("bytes.fromhex")
        raise Unsupported("attribute %s of %r" % (name, v))

    def class_attr_value(self, ca):
        cinfo, expr = ca
        fr = Frame(None, cinfo.module, {})
        return self.eval(expr, fr, True)

    def module_attr(self, m, name):
        if m.name.startswith("spake2."):
            mod = self.repo.modules.get(m.name[len("spake2."):])
            if mod is not None:
                return self.lookup_global(name, mod)
        full = m.name + "." + name
        if full in self.LIB_FUNCS or full in ("hkdf.HKDF", "hashes.SHA256"):
            return SBuiltin(full)
        if m.name == "binascii" and name == "Error":
            return SBuiltin("exc:binascii.Error")
        raise Unsupported("module attribute %s" % full)

    def materialise(self, ov, name):
        """lazily create the ENTRY-state value of a field of a symbolic input object from its declared shape"""
        ho = self.ctx.obj(ov)
        if not ho.lazy or name in ho.ghost:
            return
        snap = self.pre_snapshot.get(ov.oid) if self.pre_snapshot is not None else None
        written = any(o == ov.oid and f == name for o, f in self.ctx.writes)
        if snap is not None:
            if name in snap[0] or name in snap[2]:
                return
        elif name in ho.fields or name in ho.absent:
            return
        if snap is None and written:
            return
        t = self.ctx.verifier.field_type(ho, name)
        if t is None:
            return
        ts, owner = t
        optional = ts.endswith("?")
        if optional:
            ts = ts[:-1]
        label = "%s.%s" % (ho.label or "o%d" % ho.oid, name)
        val = self.ctx.verifier.mkval(self, (ts, owner), label)
        pres = z3.Bool("has." + label) if optional else None
        if not written and name not in ho.fields:
            ho.fields[name] = val
            if pres is not None:
                ho.present[name] = pres
        for sn in self.all_snaps:
            e = sn.get(ov.oid)
            if e is not None and name not in e[0] and name not in e[2]:
                e[0][name] = val
                if pres is not None:
                    e[1][name] = pres

    def obj_getattr(self, ov, name, pure=False):
        ho = self.ctx.obj(ov)
        ga = self.reg.ghost_attrs.get(name) if self.reg.ghost_attrs else None
        if ga is not None and isinstance(ho.cls, ClassInfo) and ho.cls.qual.startswith(ga[0]):
            return ga[1](self, ov)
        if self.reg.aliases:
            for cq in ([c.qual for c in self.repo.mro(ho.cls) if isinstance(c, ClassInfo)] if isinstance(ho.cls, ClassInfo) else [ho.cls]):
                if (cq, name) in self.reg.aliases:
                    name = self.reg.aliases[(cq, name)]
                    break
        self.materialise(ov, name)
        if self.use_old and self.pre_snapshot is not None and ov.oid in self.pre_snapshot:
            fields, present, absent = self.pre_snapshot[ov.oid]
        else:
            fields, present, absent = ho.fields, ho.present, ho.absent
        if name in fields:
            if name in present and not pure:
                if not self.ctx.branch(present[name], "hasattr-" + name):
                    raise Raise("AttributeError")
            return fields[name]
        if name in ho.ghost:
            return ho.ghost[name]
        # methods / class attributes
        if isinstance(ho.cls, ClassInfo):
            f = self.repo.lookup_method(ho.cls, name)
            if f is not None:
                if f.is_classmethod:
                    return SFunc(f, SClass(ho.cls))
                if f.is_staticmethod:
                    return SFunc(f)
                return SFunc(f, ov)
            ca = self.repo.lookup_class_attr(ho.cls, name)
            if ca is not None:
                return self.class_attr_value(ca)
        else:
            # abstract interface object: methods are abstract contracts
            q = "%s.%s" % (ho.cls, name)
            if self.reg.get(q) is not None:
                return SBuiltin("abstract:" + q, ov)
        if pure:
            raise Unsupported("spec reads missing attribute %s of %s" % (name, ho.clsname()))
        raise Raise("AttributeError")

    def obj_setattr(self, ov, name, val):
        ho = self.ctx.obj(ov)
        if getattr(ho, "is_global", False) or not isinstance(ov, SObj):
            pass
        ho.fields[name] = val
        ho.present.pop(name, None)
        ho.absent.discard(name)
        self.ctx.writes.append((ov.oid, name))

    # ---- calls --------------------------------------------------------------------------------
    def e_Call(self, node, frame, pure):
        if isinstance(node.func, ast.Name) and node.func.id == "super" and not pure and not node.keywords and "super" not in frame.env:
            # super() inside a method of class C with first parameter self/cls;  super(C, obj)
            if not node.args:
                fi = frame.finfo
                if fi is None or fi.cls is None or not fi.node.args.args:
                    raise Unsupported("super() outside a method")
                return SSuper(frame.env[fi.node.args.args[0].arg], fi.cls)
            if len(node.args) == 2:
                c0 = self.eval(node.args[0], frame, pure)
                if isinstance(c0, SClass):
                    return SSuper(self.eval(node.args[1], frame, pure), c0.cinfo)
            raise Unsupported("super(...) form")
        # contract-language specials
        if isinstance(node.func, ast.Name) and pure:
            nm = node.func.id
            if nm == "old":
                prev = self.use_old
                self.use_old = True
                try:
                    return self.eval(node.args[0], frame, pure)
                finally:
                    self.use_old = prev
            if nm == "implies":
                a = self.truth(self.eval(node.args[0], frame, pure))
                if isinstance(a, bool) and not a:
                    return True
                b = self.truth(self.eval(node.args[1], frame, pure))
                if isinstance(a, bool):
                    return b
                if isinstance(b, bool):
                    return True if b else self.not_(a)
                return mkbool(z3.Implies(a.t, b.t))
            if nm == "hasfield":
                o = self.eval(node.args[0], frame, pure)
                return self.hasfield(o, self.eval(node.args[1], frame, pure))
            if nm == "classof":
                o = self.eval(node.args[0], frame, pure)
                return self.ctx.obj(o).clsname().split(".")[-1]
        if isinstance(node.func, ast.Name) and frame.finfo is not None and getattr(frame.finfo, "ghost", False):
            nm = node.func.id
            if nm == "assume":
                self.ctx.assume(self.truth(self.eval(node.args[0], frame, True)))
                if self.ctx.check() == z3.unsat:
                    raise PathEnd("infeasible-assume")
                return None
            if nm == "lemma":
                from . import theory
                args = [self.eval(a, frame, True) for a in node.args]
                vals = [a.t if isinstance(a, (SInt, SPoint, SBytes, SBool)) else (sym.IV(a) if isinstance(a, int) and not isinstance(a, bool) else a) for a in args[1:]]
                inst = theory.instantiate(args[0], vals)
                sym.FACTS.add(inst, ("T1:" if theory.LEMMAS[args[0]].proved else "T2:") + args[0])
                return None
            if nm == "sha_injective":
                sym.sha_injective()
                return None
            if nm == "ground":
                # closed expression evaluated on the REAL module by the oracle (ground back end)
                src = self.eval(node.args[0], frame, True)
                v = self.ctx.verifier.ground_eval(frame.module.name, src)
                self.ctx.notes.append("ground: %s.%s" % (frame.module.name, src))
                return v
            if nm == "raw_globals":
                self.ctx.raw_globals = True
                return None
            if nm == "try_call":
                fv = self.eval(node.args[0], frame, False)
                args = [self.eval(a, frame, False) for a in node.args[1:]]
                kw = {k.arg: self.eval(k.value, frame, False) for k in node.keywords}
                try:
                    return ("return", self.call(fv, args, kw, node=node))
                except Raise as r:
                    return ("raise", r.exc.split(".")[-1])
        if isinstance(node.func, ast.Attribute) and isinstance(node.func.value, ast.Name) \
                and node.func.value.id == "spec" and "spec" not in frame.env:
            fn = getattr(self.spec, node.func.attr, None)
            if fn is None:
                raise Unsupported("no spec function %s" % node.func.attr)
            args = [self.eval(a, frame, pure) for a in node.args]
            return fn(self, *args)
        fv = self.eval(node.func, frame, pure)
        args = []
        for a in node.args:
            if isinstance(a, ast.Starred):
                seq = self.eval(a.value, frame, pure)
                if not isinstance(seq, (list, tuple)):
                    raise Unsupported("star args of a symbolic sequence")
                args.extend(seq)
                continue
            args.append(self.eval(a, frame, pure))
        kwargs = {}
        for k in node.keywords:
            if k.arg is None:
                d = self.eval(k.value, frame, pure)
                if isinstance(d, dict) and all(isinstance(x, str) for x in d):
                    for kk, vv in d.items():
                        if kk in kwargs:
                            raise Raise("TypeError")       # multiple values for keyword argument
                        kwargs[kk] = vv
                    continue
                raise Unsupported("**kwargs of %r" % (type(d).__name__,))
            if k.arg in kwargs:
                raise Raise("TypeError")
            kwargs[k.arg] = self.eval(k.value, frame, pure)
        return self.call(fv, args, kwargs, node=node, pure=pure)

    def hasfield(self, o, name):
        ho = self.ctx.obj(o)
        self.materialise(o, name)
        if self.use_old and self.pre_snapshot is not None and o.oid in self.pre_snapshot:
            fields, present, absent = self.pre_snapshot[o.oid]
        else:
            fields, present, absent = ho.fields, ho.present, ho.absent
        if name in fields:
            if name in present:
                return mkbool(present[name])
            return True
        return False

    def call(self, fv, args, kwargs, node=None, pure=False):
        from . import lib
        if isinstance(fv, SBuiltin):
            if fv.name.startswith("abstract:"):
                q = fv.name[len("abstract:"):]
                return self.ctx.verifier.apply_contract(self, self.reg.get(q), None, [fv.bound] + list(args), kwargs, node)
            return lib.call_builtin(self, fv, args, kwargs, pure)
        if pure:
            raise Unsupported("call of repository code in a specification")
        if isinstance(fv, SFunc):
            a = list(args)
            if fv.self_val is not None:
                a = [fv.self_val] + a
            return self.call_function(fv.finfo, a, kwargs, node, closure=fv.closure, static=getattr(fv, "static", False))
        if isinstance(fv, SClass):
            return self.instantiate(fv.cinfo, args, kwargs, node)
        if isinstance(fv, SEntropy):
            return self.call_entropy(fv, args)
        raise Unsupported("call of %r" % (fv,))

    def call_entropy(self, e, args):
        if len(args) != 1:
            raise Unsupported("entropy_f arity")
        if getattr(e, "pattern", None) is not None:      # concrete cross-check: deterministic byte pattern
            n = args[0]
            e.count = getattr(e, "count", 0) + 1
            return bytes((e.pattern * e.count + i * 7) % 256 for i in range(n))
        n = args[0]
        ctx = self.ctx
        if e.forbidden:
            raise Raise("NotImplementedError")
        k = ctx.entropy_pos.get(e.stream, IV(0))
        t = sym.ENT(IV(e.stream), k, n if isinstance(n, int) else I(n))
        ctx.entropy_pos[e.stream] = z3.simplify(k + 1)
        ctx.entropy_log.append((e.stream, n))
        return SBytes(t)

    def is_exception_class(self, cinfo):
        for c in self.repo.mro(cinfo):
            if isinstance(c, str) and c in BUILTIN_EXC:
                return True
        return False

    def instantiate(self, cinfo, args, kwargs, node):
        if self.is_exception_class(cinfo):
            return SOpaque("excinst", cinfo.qual)
        o = self.ctx.alloc(cinfo, fresh=True)
        init = self.repo.lookup_method(cinfo, "__init__")
        if init is not None:
            self.call_function(init, [o] + list(args), kwargs, node)
        return o

    def bind_args(self, finfo, args, kwargs, frame_module):
        a = finfo.node.args
        names = [x.arg for x in a.posonlyargs + a.args]
        if a.kwarg or a.kwonlyargs:
            raise Unsupported("**kwargs / keyword-only parameters in %s" % finfo.qual)
        env = {}
        if a.vararg:
            env[a.vararg.arg] = tuple(args[len(names):])
            args = args[:len(names)]
        if len(args) > len(names):
            raise Raise("TypeError")
        for n, v in zip(names, args):
            env[n] = v
        for k, v in kwargs.items():
            if k not in names or k in env:
                raise Raise("TypeError")
            env[k] = v
        defaults = finfo.defaults()
        for n in names:
            if n not in env:
                if n in defaults:
                    fr = Frame(None, finfo.module, {})
                    env[n] = self.eval(defaults[n], fr, False)
                else:
                    raise Raise("TypeError")
        return env

    def call_function(self, finfo, args, kwargs, node=None, closure=None, static=False):
        c = self.reg.get(finfo.qual)
        if finfo.cls is not None and args and not static:
            recv = args[0]
            rc = None
            if isinstance(recv, SObj) and isinstance(self.ctx.obj(recv).cls, ClassInfo):
                rc = self.ctx.obj(recv).cls
            elif isinstance(recv, SClass):
                rc = recv.cinfo
            if rc is not None:
                c2 = self.reg.get(rc.qual + "." + finfo.name)
                if c2 is not None:
                    c = c2
        if finfo.name == "__init__" or getattr(self.ctx.verifier, "concrete_mode", False):
            c = None      # constructors are always executed inline at call sites; concrete cross-check inlines everything
        top = self.ctx.verifier.cur_contract
        if c is not None and top is not None and c.qual in getattr(top, "inline_callees", ()):
            return self.exec_function(finfo, args, kwargs, closure=closure)
        if finfo.other_decorators:
            raise Unsupported("decorated function %s" % finfo.qual)
        if c is not None and not c.inline_flag:
            return self.ctx.verifier.apply_contract(self, c, finfo, args, kwargs, node)
        if c is None and not self.ctx.verifier.may_inline(finfo):
            raise Unsupported("call of %s: no contract and not marked inline" % finfo.qual)
        return self.exec_function(finfo, args, kwargs, closure=closure)

    def exec_function(self, finfo, args, kwargs, closure=None, contract=None, env=None):
        if self.depth > (600 if getattr(self.ctx.verifier, "concrete_mode", False) else 12):
            raise Unsupported("inline depth")
        if env is None:
            env = self.bind_args(finfo, args, kwargs, finfo.module)
        frame = Frame(finfo, finfo.module, env, contract=contract, closure=closure)
        # hint / lemma anchors ("after:<name>") of the function under verification also fire in helpers of the same module that
        # are executed inline (a loop body extracted into a helper keeps its proof hints); loop contracts are NOT inherited
        inherited = self._anchor[-1] if self._anchor else None
        if contract is not None:
            eff = contract
        elif inherited is not None and inherited[1] is finfo.module:
            eff = inherited[0]
        else:
            eff = None
        frame.anchor_contract = eff
        self._anchor.append((eff, finfo.module) if eff is not None else None)
        self.depth += 1
        self.call_log.append(finfo.qual)
        try:
            try:
                self.exec_block(finfo.node.body, frame)
            except _Return as r:
                return r.value
            return None
        finally:
            self.depth -= 1
            self._anchor.pop()

    # =========================================================================================
    # statements
    # =========================================================================================
    def exec_block(self, stmts, frame):
        for st in stmts:
            self.exec_stmt(st, frame)

    def exec_stmt(self, st, frame):
        m = getattr(self, "s_" + type(st).__name__, None)
        if m is None:
            raise Unsupported("statement %s" % type(st).__name__)
        m(st, frame)
        if frame.contract is not None or getattr(frame, "anchor_contract", None) is not None:
            self.ctx.verifier.after_stmt(self, st, frame)

    def s_Pass(self, st, frame):
        pass

    def s_Expr(self, st, frame):
        if isinstance(st.value, ast.Constant):
            return   # docstring (dropped)
        self.eval(st.value, frame)

    def s_Return(self, st, frame):
        v = self.eval(st.value, frame) if st.value is not None else None
        raise _Return(v)

    def s_Assign(self, st, frame):
        v = self.eval(st.value, frame)
        for t in st.targets:
            self.assign(t, v, frame)

    def s_AugAssign(self, st, frame):
        cur = self.eval(ast.copy_location(self.as_load(st.target), st.target), frame)
        v = self.eval(st.value, frame)
        self.assign(st.target, self.binop(st.op, cur, v), frame)

    def as_load(self, t):
        if isinstance(t, ast.Name):
            return ast.Name(id=t.id, ctx=ast.Load())
        if isinstance(t, ast.Attribute):
            return ast.Attribute(value=t.value, attr=t.attr, ctx=ast.Load())
        raise Unsupported("augassign target")

    def assign(self, target, v, frame):
        if isinstance(target, ast.Name):
            if frame.finfo is None:
                raise Unsupported("assignment outside function")
            frame.env[target.id] = v
        elif isinstance(target, ast.Attribute):
            o = self.eval(target.value, frame)
            if not isinstance(o, SObj):
                raise Unsupported("attribute store on %r" % (o,))
            self.obj_setattr(o, target.attr, v)
        elif isinstance(target, (ast.Tuple, ast.List)):
            if isinstance(v, (tuple, list)):
                if len(v) != len(target.elts):
                    raise Raise("ValueError")
                for t, x in zip(target.elts, v):
                    self.assign(t, x, frame)
            else:
                raise Unsupported("unpack of %r" % (v,))
        elif isinstance(target, ast.Subscript) and isinstance(target.value, ast.Name) and target.value.id in frame.env \
                and isinstance(frame.env[target.value.id], dict) and id(frame.env[target.value.id]) in self.fresh_dicts:
            # d[k] = v  on a dict built by a dict display in this very path (a local container), literal str key
            k = self.eval(target.slice, frame)
            if not isinstance(k, str):
                raise Unsupported("dict key not a concrete str")
            frame.env[target.value.id][k] = v
        elif isinstance(target, ast.Subscript) and isinstance(target.value, ast.Name) and isinstance(frame.env.get(target.value.id), SByteList) \
                and isinstance(target.slice, ast.Constant) and target.slice.value == 0 and self.owned_list(frame, target.value.id):
            # lst[0] = v on a symbolic byte list that this function obtained from a call and never aliased: the same value as
            # [v] + lst[1:] bound to the same name (IndexError on an empty list)
            old = frame.env[target.value.id]
            if self.ctx.branch(sym.blen(old.t) == 0, "setitem-empty"):
                raise Raise("IndexError")
            frame.env[target.value.id] = self.binop(ast.Add(), [v], SByteList(sym.bdrop(old.t, IV(1))))
        else:
            raise Unsupported("assignment target %s" % type(target).__name__)

    def owned_list(self, frame, name):
        """syntactic ownership check for in-place mutation of a list held in local `name`: in this function the name is bound only by
        `name = <call>(args)` whose arguments are not lists, is never the right-hand side of another binding, never stored into an
        object/container, never returned inside a container, and is not a parameter.  (Callees with contracts are pure; inlined callees are
        executed, so a retained reference would show up as a heap write.)"""
        fi = frame.finfo
        if fi is None or name in {a.arg for a in fi.node.args.args}:
            return False
        for n in ast.walk(fi.node):
            if isinstance(n, (ast.Assign, ast.AnnAssign, ast.AugAssign)):
                targets = n.targets if isinstance(n, ast.Assign) else [n.target]
                binds_name = any(isinstance(t, ast.Name) and t.id == name for t in targets)
                val = n.value
                if binds_name:
                    if not isinstance(n, ast.Assign) or not isinstance(val, ast.Call):
                        return False
                elif val is not None and any(isinstance(x, ast.Name) and x.id == name for x in ([val] if isinstance(val, ast.Name) else
                                                                                                   (val.elts if isinstance(val, (ast.Tuple, ast.List, ast.Set)) else
                                                                                                    (val.values if isinstance(val, ast.Dict) else [])))):
                    return False          # aliased: another name / container element now refers to the same list
            if isinstance(n, (ast.Global, ast.Nonlocal, ast.Lambda)) or (isinstance(n, ast.FunctionDef) and n is not fi.node):
                return False
        return True

    def s_If(self, st, frame):
        c = self.truth(self.eval(st.test, frame))
        if self.ctx.branch(c, "if@%d" % st.lineno):
            self.exec_block(st.body, frame)
        else:
            self.exec_block(st.orelse, frame)

    def s_Assert(self, st, frame):
        if frame.finfo is not None and getattr(frame.finfo, "ghost", False):
            g = self.truth(self.eval(st.test, frame))
            from .contracts import Clause
            nm = ast.unparse(st.msg).strip("'\"") if st.msg is not None else "assert@%d" % st.lineno
            cl = Clause("ensures", nm, "True", tags=" ".join(sorted(getattr(frame.contract, "lemma_tags", []))))
            self.ctx.verifier.oblige(self, nm, "ensures", cl, g)
            self.ctx.assume(g)
            return
        c = self.truth(self.eval(st.test, frame))
        if not self.ctx.branch(c, "assert@%d" % st.lineno):
            raise Raise("AssertionError", where=st.lineno)   # message expression dropped

    def s_Raise(self, st, frame):
        if st.exc is None:
            raise Unsupported("bare raise")
        e = st.exc
        if isinstance(e, ast.Call):
            cls = self.eval(e.func, frame)   # constructor arguments (message strings) dropped
        else:
            cls = self.eval(e, frame)
        if isinstance(cls, SOpaque) and cls.kind == "excinst":
            raise Raise(cls.data, where=st.lineno)
        raise Raise(exc_name(cls), where=st.lineno)

    def s_FunctionDef(self, st, frame):
        fi = FunctionInfo(frame.module, (frame.finfo.qual if frame.finfo else "?") + ".<locals>." + st.name, st)
        frame.env[st.name] = SFunc(fi, None, closure=frame)

    def s_Break(self, st, frame):
        raise _Break()

    def s_Continue(self, st, frame):
        raise _Continue()

    def s_Global(self, st, frame):
        raise Unsupported("global statement")

    def s_Nonlocal(self, st, frame):
        raise Unsupported("nonlocal statement")

    def s_Import(self, st, frame):
        raise Unsupported("import inside function")

    s_ImportFrom = s_Import

    def s_While(self, st, frame):
        frame.loop_ordinal += 1
        ordinal = frame.loop_ordinal
        spec = frame.contract.loops.get(ordinal) if frame.contract else None
        if spec is None:
            # no invariant: only loops with concretely decidable guards may be unrolled
            n = 0
            while True:
                c = self.truth(self.eval(st.test, frame))
                if not isinstance(c, bool):
                    raise Unsupported("loop without invariant and symbolic guard (line %d)" % st.lineno)
                if not c:
                    break
                n += 1
                if n > 5000:
                    raise Unsupported("unrolling bound")
                try:
                    self.exec_block(st.body, frame)
                except _Break:
                    return
                except _Continue:
                    continue
            self.exec_block(st.orelse, frame)
            return
        self.ctx.verifier.loop_cut(self, st, frame, spec, kind="while")

    def s_For(self, st, frame):
        frame.loop_ordinal += 1
        ordinal = frame.loop_ordinal
        spec = frame.contract.loops.get(ordinal) if frame.contract else None
        it = self.eval(st.iter, frame)
        if isinstance(it, (list, tuple, bytes)) and (spec is None or len(it) <= 64):
            # a concrete iterable is unrolled (a loop contract written for an unbounded loop does not apply any more)
            for x in it:
                self.assign(st.target, x, frame)
                try:
                    self.exec_block(st.body, frame)
                except _Break:
                    return
                except _Continue:
                    continue
            self.exec_block(st.orelse, frame)
            return
        if isinstance(it, SOpaque) and it.kind == "count" and spec is not None:
            self.ctx.verifier.loop_cut(self, st, frame, spec, kind="count", start=it.data)
            return
        if isinstance(it, SOpaque) and it.kind == "count" and isinstance(it.data, int) and getattr(self.ctx.verifier, "concrete_mode", False):
            k = it.data
            while k < it.data + 100000:
                self.assign(st.target, k, frame)
                k += 1
                try:
                    self.exec_block(st.body, frame)
                except _Break:
                    return
                except _Continue:
                    continue
            raise Unsupported("concrete count() loop did not end")
        raise Unsupported("for loop over %r (line %d)" % (it, st.lineno))

    def e_GeneratorExp(self, node, frame, pure):
        # only consumed by join()/list()/tuple()/sum-free contexts in this code base: evaluated eagerly like a list
        return self.e_ListComp(node, frame, pure)

    def e_ListComp(self, node, frame, pure):
        if len(node.generators) != 1 or node.generators[0].ifs or node.generators[0].is_async:
            raise Unsupported("comprehension shape")
        g = node.generators[0]
        it = self.eval(g.iter, frame, pure)
        if not isinstance(g.target, ast.Name):
            raise Unsupported("comprehension target")
        sub = Frame(frame.finfo, frame.module, dict(frame.env), closure=frame.closure)
        if isinstance(it, (list, tuple, bytes)):
            out = []
            for x in it:
                sub.env[g.target.id] = x
                out.append(self.eval(node.elt, sub, pure))
            return out
        if isinstance(it, SBytes):
            # iterating a byte string yields its ints: same as list(iter(b))
            if isinstance(node.elt, ast.Name) and node.elt.id == g.target.id:
                return SByteList(it.t)
            it = SByteList(it.t)
        if isinstance(it, SByteList):
            # generic element: the element expression is executed once on an arbitrary byte value
            var = sym.fresh("elem")
            sub.env[g.target.id] = SInt(var)
            self.ctx.pc.append(z3.And(var >= 0, var <= 255))
            elem = self.eval(node.elt, sub, pure)
            return SMapList(it, var, elem)
        raise Unsupported("comprehension over %r" % (it,))

    def require(self, cond, what):
        """internal side condition of the model: must be provable, else outside subset"""
        if self.ctx.check([z3.Not(cond)]) != z3.unsat:
            raise Unsupported("side condition not provable: %s" % what)


class _Return(Exception):
    def __init__(self, value):
        Exception.__init__(self)
        self.value = value


class _Break(Exception):
    pass


class _Continue(Exception):
    pass
