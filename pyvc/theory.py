"""T1/T2 lemma schemas: one declaration each; SMT instance generator here, Lean statement in lean/."""
import z3
from . import sym


class Lemma:
    def __init__(self, name, arity, inst, proved, doc):
        self.name, self.arity, self.inst, self.proved, self.doc = name, arity, inst, proved, doc


LEMMAS = {}


def lemma(name, arity, proved, doc):
    def deco(f):
        LEMMAS[name] = Lemma(name, arity, f, proved, doc)
        return f
    return deco


def instantiate(name, args):
    l = LEMMAS[name]
    if len(args) != l.arity:
        raise ValueError("lemma %s arity" % name)
    return l.inst(*args)
