"""T1/T2 lemma schemas: one declaration each; SMT instance generator here, Lean statement in lean/."""
import z3
from . import sym


class Lemma:
    def __init__(self, name, arity, inst, proved, doc):
        self.name, self.arity, self.inst, self.proved, self.doc = name, arity, inst, proved, doc


LEMMAS = {}


def lemma(name, arity, proved, doc):
    def deco(f):
        LEMMAS[name] = Lemma(name, arity, f, proved, doc)
        return f
    return deco


def instantiate(name, args):
    l = LEMMAS[name]
    if len(args) != l.arity:
        raise ValueError("lemma %s arity" % name)
    return l.inst(*args)


# ---- protocol algebra in the abstract group (Lean: lean/SpakeTheory/Module.lean) ----------------------------
def _grp():
    from . import spec_sym as S
    return S


@lemma("spake2_agree", 7, True,
       "x*((y*G + w*N) + (-w)*N) = y*((x*G + w*M) + (-w)*M)  in any abelian group (Z-module)")
def _agree(gid, x, y, w, G, M, N):
    S = _grp()
    add = lambda a, b: S.f_gadd(gid, a, b)
    mul = lambda n, a: S.f_gmul(gid, n, a)
    lhs = mul(x, add(add(mul(y, G), mul(w, N)), mul(-w, N)))
    rhs = mul(y, add(add(mul(x, G), mul(w, M)), mul(-w, M)))
    ins = z3.And(S.f_insub(gid, G), S.f_insub(gid, M), S.f_insub(gid, N))
    return z3.Implies(ins, lhs == rhs)


# ---- modular exponentiation (Lean: lean/SpakeTheory/PowMod.lean) ------------------------------------------------
isprime = z3.Function("isprime", z3.IntSort(), z3.BoolSort())
PM = sym.powmod


@lemma("powmod_mul", 4, True, "(a*b)^e = a^e * b^e  (mod m)")
def _powmod_mul(a, b, e, m):
    return z3.Implies(z3.And(m > 0, e >= 0), PM((a * b) % m, e, m) == (PM(a, e, m) * PM(b, e, m)) % m)


@lemma("powmod_pow", 4, True, "(a^k)^e = (a^e)^k  (mod m)")
def _powmod_pow(a, k, e, m):
    return z3.Implies(z3.And(m > 0, e >= 0, k >= 0), PM(PM(a, k, m), e, m) == PM(PM(a, e, m), k, m))


@lemma("powmod_exp_mul", 4, True, "(a^r)^q = a^(r*q)  (mod m)")
def _powmod_exp_mul(a, r, q, m):
    return z3.Implies(z3.And(m > 0, r >= 0, q >= 0), PM(PM(a, r, m), q, m) == PM(a, r * q, m))


@lemma("powmod_base_one", 2, True, "1^k = 1 (mod m)")
def _powmod_one(k, m):
    return z3.Implies(z3.And(m > 0, k >= 0), PM(sym.IV(1), k, m) == 1 % m)


@lemma("powmod_zero", 3, True, "m | x, e >= 1  =>  x^e = 0 (mod m)")
def _powmod_zero(x, e, m):
    return z3.Implies(z3.And(m > 0, e >= 1, x % m == 0), PM(x, e, m) == 0)


@lemma("fermat", 2, True, "p prime, p does not divide h  =>  h^(p-1) = 1 (mod p)")
def _fermat(h, p):
    return z3.Implies(z3.And(isprime(p), h % p != 0), PM(h, p - 1, p) == 1)


@lemma("prime_ge_two", 1, True, "a prime is >= 2")
def _prime_ge(p):
    return z3.Implies(isprime(p), p >= 2)


@lemma("prime_mul_nonzero", 3, True, "p prime, p divides neither a nor b => p does not divide a*b (Euclid)")
def _euclid(a, b, p):
    return z3.Implies(z3.And(isprime(p), a % p != 0, b % p != 0), (a * b) % p != 0)
