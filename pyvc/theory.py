"""T1/T2 lemma schemas: one declaration each; SMT instance generator here, Lean statement in lean/."""
import z3
from . import sym


class Lemma:
    def __init__(self, name, arity, inst, proved, doc):
        self.name, self.arity, self.inst, self.proved, self.doc = name, arity, inst, proved, doc


LEMMAS = {}


def lemma(name, arity, proved, doc):
    def deco(f):
        LEMMAS[name] = Lemma(name, arity, f, proved, doc)
        return f
    return deco


def instantiate(name, args):
    l = LEMMAS[name]
    if len(args) != l.arity:
        raise ValueError("lemma %s arity" % name)
    return l.inst(*args)


# ---- protocol algebra in the abstract group (Lean: lean/SpakeTheory/Module.lean) ----------------------------
def _grp():
    from . import spec_sym as S
    return S


@lemma("spake2_agree", 7, True,
       "x*((y*G + w*N) + (-w)*N) = y*((x*G + w*M) + (-w)*M)  in any abelian group (Z-module)")
def _agree(gid, x, y, w, G, M, N):
    S = _grp()
    add = lambda a, b: S.f_gadd(gid, a, b)
    mul = lambda n, a: S.f_gmul(gid, n, a)
    lhs = mul(x, add(add(mul(y, G), mul(w, N)), mul(-w, N)))
    rhs = mul(y, add(add(mul(x, G), mul(w, M)), mul(-w, M)))
    ins = z3.And(S.f_insub(gid, G), S.f_insub(gid, M), S.f_insub(gid, N))
    return z3.Implies(ins, lhs == rhs)
