"""T1/T2 lemma schemas: one declaration each; SMT instance generator here, Lean statement in lean/."""
import z3
from . import sym


class Lemma:
    def __init__(self, name, arity, inst, proved, doc):
        self.name, self.arity, self.inst, self.proved, self.doc = name, arity, inst, proved, doc


LEMMAS = {}


def lemma(name, arity, proved, doc):
    def deco(f):
        LEMMAS[name] = Lemma(name, arity, f, proved, doc)
        return f
    return deco


def instantiate(name, args):
    l = LEMMAS[name]
    if len(args) != l.arity:
        raise ValueError("lemma %s arity" % name)
    return l.inst(*args)


# ---- protocol algebra in the abstract group (Lean: lean/SpakeTheory/Module.lean) ----------------------------
def _grp():
    from . import spec_sym as S
    return S


@lemma("spake2_agree", 7, True,
       "x*((y*G + w*N) + (-w)*N) = y*((x*G + w*M) + (-w)*M)  in any abelian group (Z-module)")
def _agree(gid, x, y, w, G, M, N):
    S = _grp()
    add = lambda a, b: S.f_gadd(gid, a, b)
    mul = lambda n, a: S.f_gmul(gid, n, a)
    lhs = mul(x, add(add(mul(y, G), mul(w, N)), mul(-w, N)))
    rhs = mul(y, add(add(mul(x, G), mul(w, M)), mul(-w, M)))
    ins = z3.And(S.f_insub(gid, G), S.f_insub(gid, M), S.f_insub(gid, N))
    return z3.Implies(ins, lhs == rhs)


# ---- modular exponentiation (Lean: lean/SpakeTheory/PowMod.lean) ------------------------------------------------
isprime = z3.Function("isprime", z3.IntSort(), z3.BoolSort())
PM = sym.powmod


@lemma("powmod_mul", 4, True, "(a*b)^e = a^e * b^e  (mod m)")
def _powmod_mul(a, b, e, m):
    return z3.Implies(z3.And(m > 0, e >= 0), PM((a * b) % m, e, m) == (PM(a, e, m) * PM(b, e, m)) % m)


@lemma("powmod_pow", 4, True, "(a^k)^e = (a^e)^k  (mod m)")
def _powmod_pow(a, k, e, m):
    return z3.Implies(z3.And(m > 0, e >= 0, k >= 0), PM(PM(a, k, m), e, m) == PM(PM(a, e, m), k, m))


@lemma("powmod_exp_mul", 4, True, "(a^r)^q = a^(r*q)  (mod m)")
def _powmod_exp_mul(a, r, q, m):
    return z3.Implies(z3.And(m > 0, r >= 0, q >= 0), PM(PM(a, r, m), q, m) == PM(a, r * q, m))


@lemma("powmod_base_one", 2, True, "1^k = 1 (mod m)")
def _powmod_one(k, m):
    return z3.Implies(z3.And(m > 0, k >= 0), PM(sym.IV(1), k, m) == 1 % m)


@lemma("powmod_zero", 3, True, "m | x, e >= 1  =>  x^e = 0 (mod m)")
def _powmod_zero(x, e, m):
    return z3.Implies(z3.And(m > 0, e >= 1, x % m == 0), PM(x, e, m) == 0)


@lemma("fermat", 2, True, "p prime, p does not divide h  =>  h^(p-1) = 1 (mod p)")
def _fermat(h, p):
    return z3.Implies(z3.And(isprime(p), h % p != 0), PM(h, p - 1, p) == 1)


@lemma("prime_ge_two", 1, True, "a prime is >= 2")
def _prime_ge(p):
    return z3.Implies(isprime(p), p >= 2)


@lemma("prime_mul_nonzero", 3, True, "p prime, p divides neither a nor b => p does not divide a*b (Euclid)")
def _euclid(a, b, p):
    return z3.Implies(z3.And(isprime(p), a % p != 0, b % p != 0), (a * b) % p != 0)


# ---- the curve group as an abstract abelian group with a subgroup of prime order L --------------------------------
# (Lean: lean/SpakeTheory/EdGroup.lean proves E1..E8 for any AddCommGroup and prime L; that (E(F_Q), +) IS such a
#  group - associativity of the Edwards law and #E = 8L - is the cited assumption M-edgroup, T2)
def _ed():
    from . import spec_ed as E
    return E


@lemma("ed_mul_zero", 1, True, "0*P = O")
def _e1(P):
    E = _ed()
    return E.f_mul(sym.IV(0), P) == E.c_O


@lemma("ed_mul_step", 2, True, "n>=1: n*P = 2*((n div 2)*P) [+ P if n odd]")
def _e2(n, P):
    E = _ed()
    h = E.f_mul(n / 2, P)
    dbl = E.f_add(h, h)
    return z3.Implies(n >= 1, E.f_mul(n, P) == z3.If(n % 2 == 1, E.f_add(dbl, P), dbl))


@lemma("ed_mul_mod", 2, True, "L*P = O  =>  (n mod L)*P = n*P")
def _e3(n, P):
    E = _ed()
    return z3.Implies(E.f_insub(P), E.f_mul(n % E.L, P) == E.f_mul(n, P))


@lemma("ed_insub_def", 1, True, "insub(P) <=> L*P = O")
def _e4(P):
    E = _ed()
    return E.f_insub(P) == (E.f_mul(sym.IV(E.L), P) == E.c_O)


@lemma("ed_insub_add", 2, True, "the L-torsion is closed under addition")
def _e4b(P, R):
    E = _ed()
    return z3.Implies(z3.And(E.f_insub(P), E.f_insub(R)), E.f_insub(E.f_add(P, R)))


@lemma("ed_insub_mul", 2, True, "the L-torsion is closed under scalar multiplication")
def _e4c(n, P):
    E = _ed()
    return z3.Implies(E.f_insub(P), E.f_insub(E.f_mul(n, P)))


@lemma("ed_insub_O", 0, True, "L*O = O")
def _e4d():
    E = _ed()
    return E.f_insub(E.c_O)


@lemma("ed_prime_order", 2, True, "L prime, L*P = O, P != O, L does not divide n  =>  n*P != O")
def _e5(n, P):
    E = _ed()
    return z3.Implies(z3.And(E.f_insub(P), P != E.c_O, n % E.L != 0), E.f_mul(n, P) != E.c_O)


@lemma("ed_ladder_diff", 2, True, "P of order L, 0 <= 2k+1 < L  =>  (2k*P) - P has no zero coordinate (Lean: zero_coord_order_four + ladder_diff_abstract)")
def _e6(k, P):
    E = _ed()
    h = E.f_mul(k, P)
    return z3.Implies(z3.And(E.f_insub(P), P != E.c_O, k >= 0, 2 * k + 1 < E.L), E.f_diffok(E.f_add(h, h), P))


@lemma("ed_add_zero", 1, True, "O + P = P + O = P")
def _e7(P):
    E = _ed()
    return z3.And(E.f_add(E.c_O, P) == P, E.f_add(P, E.c_O) == P)


@lemma("ed_add_comm", 2, True, "P + R = R + P")
def _e7b(P, R):
    E = _ed()
    return E.f_add(P, R) == E.f_add(R, P)


@lemma("ed_neg_mul", 1, True, "L*P = O  =>  (L-1)*P = -P")
def _e8(P):
    E = _ed()
    return z3.Implies(E.f_insub(P), E.f_mul(sym.IV(E.L - 1), P) == E.f_neg(P))


@lemma("ed_neg_def", 1, True, "P + (-P) = O, (-1)*P = -P")
def _e8b(P):
    E = _ed()
    return z3.And(E.f_add(P, E.f_neg(P)) == E.c_O, E.f_mul(sym.IV(-1), P) == E.f_neg(P))


@lemma("ed_mul_one", 1, True, "1*P = P")
def _e9(P):
    E = _ed()
    return E.f_mul(sym.IV(1), P) == P


@lemma("ed_mul_mul", 3, True, "m*(n*P) = (m*n)*P")
def _e10(m, n, P):
    E = _ed()
    return E.f_mul(m, E.f_mul(n, P)) == E.f_mul(m * n, P)


@lemma("ed_mul_O", 1, True, "n*O = O")
def _e11(n):
    E = _ed()
    return E.f_mul(n, E.c_O) == E.c_O


@lemma("ed_neg_O", 0, True, "-O = O")
def _e12():
    E = _ed()
    return E.f_neg(E.c_O) == E.c_O


@lemma("ed_insub_neg", 1, True, "the L-torsion is closed under negation")
def _e13(P):
    E = _ed()
    return z3.Implies(E.f_insub(P), z3.And(E.f_insub(E.f_neg(P)), (E.f_neg(P) == E.c_O) == (P == E.c_O)))


@lemma("ed_cofactor", 1, False, "T2 (cited, RFC 8032 / Bernstein et al.): #E(F_Q) = 8L, hence L*(8*P) = O for every curve point P (only used to show that the L-torsion assert in arbitrary_element never fires)")
def _e14(P):
    E = _ed()
    return E.f_mul(sym.IV(E.L), E.f_mul(sym.IV(8), P)) == E.c_O


@lemma("ed_same_y", 2, True, "curve points with the same y have x' = x or x' = -x (mod Q)   [Lean: enc_injective_core]")
def _e15(P, R):
    E = _ed()
    return z3.Implies(E.f_y(P) == E.f_y(R), z3.Or(E.f_x(P) == E.f_x(R), E.f_x(P) == (E.Q - E.f_x(R)) % E.Q))


@lemma("ed_enc_injective", 2, True,
       "the RFC 8032 encoding value y + 2^255*(x mod 2) determines the curve point  [Lean: from enc_injective_core, Q odd]")
def _e15b(P, R):
    E = _ed()
    v = lambda A: E.f_y(A) + (2 ** 255) * (E.f_x(A) % 2)
    return z3.Implies(v(P) == v(R), P == R)


@lemma("ed_decode_complete", 3, False,
       "M-xrecover (T2): decoding is complete - if b is the canonical encoding of a non-identity L-torsion point P then the "
       "x-recovery of RFC 8032 5.1.3 finds P: the decoded (x,y) is on the curve and is P  (sqrt for Q = 5 mod 8; Lean-provable, not done here; "
       "bounded cross-check: differential scenarios s_elements/s_sessions decode thousands of honest encodings)")
def _e16(b, x, y):
    from . import spec_sym as S
    E = _ed()
    return z3.Implies(S.f_ed_decodable(b), z3.And(E.f_oncurve(x, y), E.f_aff(x, y) == S.f_ed_dec(b)))


@lemma("ed_xrecover_complete", 2, True,
       "x-recovery is complete: if a curve point P has y-coordinate y then (xrecover(y), y) is on the curve and xrecover(y) = +-x(P)  "
       "[Lean: xrecover_complete, xrecover_sq on the generated mirror of the real xrecover]")
def _e17(y, P):
    E = _ed()
    xr = E.f_xrec(y)
    return z3.Implies(z3.And(E.f_y(P) == y), z3.And(E.f_oncurve(xr, y), z3.Or(xr == E.f_x(P), xr == (E.Q - E.f_x(P)) % E.Q)))


# ---- vocabulary facts of the Ed25519 spec layer (pyvc/spec_ed.py asserts exactly these instances) ---------------------------
# EPt = affine points of the curve with coordinates represented in [0,Q); ed_valid / ed_pt / ed_aff relate coordinate
# tuples to them.  In Lean: Curve, Valid, edPt, edAff (BridgeVocab.lean); each schema below is proved there (bridge).
@lemma("voc_O_coords", 0, True, "the identity is (0,1)")
def _v1():
    E = _ed()
    return z3.And(E.f_x(E.c_O) == 0, E.f_y(E.c_O) == 1)


@lemma("voc_coords_range", 1, True, "coordinates are represented in [0,Q)")
def _v2(P):
    E = _ed()
    return z3.And(E.f_x(P) >= 0, E.f_x(P) < E.Q, E.f_y(P) >= 0, E.f_y(P) < E.Q)


@lemma("voc_valid_reduced", 4, True, "a valid extended representation has reduced coordinates, Z != 0, and a valid T-free part")
def _v3(X, Y, Z, T):
    E = _ed()
    return z3.Implies(E.f_valid(X, Y, Z, T), z3.And(X >= 0, X < E.Q, Y >= 0, Y < E.Q, Z > 0, Z < E.Q, T >= 0, T < E.Q, E.f_valid3(X, Y, Z)))


@lemma("voc_B_def", 0, True, "B is the RFC 8032 base point")
def _v4():
    E = _ed()
    return E.c_B == E.f_aff(sym.IV(E.B_X), sym.IV(E.B_Y))


@lemma("voc_point_on_curve", 1, True, "every point satisfies the curve equation")
def _v5(P):
    E = _ed()
    return E.f_oncurve(E.f_x(P), E.f_y(P))


@lemma("voc_point_aff", 1, True, "a point is the affine point of its coordinates")
def _v6(P):
    E = _ed()
    return E.f_aff(E.f_x(P), E.f_y(P)) == P


@lemma("voc_point_ext", 2, True, "equal coordinates, equal points")
def _v7(P, R):
    E = _ed()
    return z3.Implies(z3.And(E.f_x(P) == E.f_x(R), E.f_y(P) == E.f_y(R)), P == R)


@lemma("voc_aff_O", 0, True, "aff(0,1) is the identity")
def _v8():
    E = _ed()
    return E.f_aff(sym.IV(0), sym.IV(1)) == E.c_O


def _curve_res(E, X, Y, Z):
    d = E.D[0]
    return ((-X * X + Y * Y) * Z * Z - Z * Z * Z * Z - d * X * X * Y * Y) % E.Q


@lemma("voc_valid_def", 4, True, "definition of a valid extended representation (X:Y:Z:T): reduced coordinates, Z != 0, T*Z = X*Y, projective curve equation (mod Q)")
def _v9(X, Y, Z, T):
    E = _ed()
    return E.f_valid(X, Y, Z, T) == z3.And(X >= 0, X < E.Q, Y >= 0, Y < E.Q, Z >= 0, Z < E.Q, T >= 0, T < E.Q,
                                            Z % E.Q != 0, (T * Z - X * Y) % E.Q == 0, _curve_res(E, X, Y, Z) == 0)


@lemma("voc_valid3_def", 3, True, "definition of the T-free part of validity")
def _v10(X, Y, Z):
    E = _ed()
    return E.f_valid3(X, Y, Z) == z3.And(X >= 0, X < E.Q, Y >= 0, Y < E.Q, Z >= 0, Z < E.Q, Z % E.Q != 0, _curve_res(E, X, Y, Z) == 0)


@lemma("voc_pt_affine", 3, True, "the point of (X:Y:Z) is the affine point (X/Z, Y/Z), with 1/Z = Z^(Q-2) mod Q")
def _v11(X, Y, Z):
    E = _ed()
    zi = sym.POWMOD(Z, sym.IV(E.Q - 2), sym.IV(E.Q))
    return z3.Implies(E.f_valid3(X, Y, Z), E.f_pt(X, Y, Z) == E.f_aff((X * zi) % E.Q, (Y * zi) % E.Q))
