"""VC generation: contracts x real code -> proof obligations -> z3 (DESIGN.md 2.4-2.6, 4)."""
import ast, time, json, os, re
import z3
from . import sym
from .sym import IV
from .values import *
from .interp import Interp, Ctx, Obligation, Frame, HeapObj, _Return, _Break, _Continue, BUILTIN_EXC
from .repo import ClassInfo, FunctionInfo, oracle, PYMOD
from .contracts import Clause

TIMEOUT_MS = int(os.environ.get("PYVC_TIMEOUT_MS", "60000"))
QUICK_MS = int(os.environ.get("PYVC_QUICK_MS", "4000"))
UNGUARDED_MS = int(os.environ.get("PYVC_UNGUARDED_MS", "15000"))


class ContractError(Exception):
    pass


class FunctionReport:
    def __init__(self, qual):
        self.qual = qual
        self.obligations = []
        self.paths = 0
        self.path_outcomes = []
        self.unsupported = []
        self.errors = []
        self.time = 0.0
        self.solver_time = 0.0
        self.nsolve = 0
        self.notes = set()
        self.axioms = set()
        self.deps = {}          # clause name -> set((callee, clause))
        self.callees = set()
        self.inlined = set()
        self.global_reads = set()
        self.writes_seen = set()
        self.entropy = []

    def canary_status(self):
        """a canary (deliberately false clause) must be refuted on at least one path"""
        st = {}
        for o in self.obligations:
            if o.kind == "canary":
                st[o.clause.name] = st.get(o.clause.name, False) or o.status == "refuted"
        return st

    def ok(self):
        return not self.unsupported and not self.errors and len(self.obligations) > 0 \
            and any(po[2] == "return" for po in self.path_outcomes) \
            and all(o.status == "discharged" for o in self.obligations if o.kind != "canary") \
            and all(self.canary_status().values())


def _qualify_exc(repo, name):
    if name in BUILTIN_EXC:
        return name
    if "." in name and repo.find_class(name) is not None:
        return name
    short = name.split(".")[-1]
    for m in repo.modules.values():
        if short in m.classes:
            return m.classes[short].qual
    return name


def exc_matches(repo, raised, declared):
    """is exception class `raised` a subclass of `declared` (names; repo classes may be given unqualified)"""
    raised, declared = _qualify_exc(repo, raised), _qualify_exc(repo, declared)
    if raised == declared:
        return True
    rb, db = BUILTIN_EXC.get(raised), BUILTIN_EXC.get(declared)
    if rb is not None and db is not None:
        return issubclass(rb, db)
    rc = repo.find_class(raised) if "." in raised else None
    if rc is not None:
        for c in repo.mro(rc):
            nm = c.qual if isinstance(c, ClassInfo) else c
            if nm == declared:
                return True
            if isinstance(c, str) and db is not None and c in BUILTIN_EXC and issubclass(BUILTIN_EXC[c], db):
                return True
    return False


class Verifier:
    def __init__(self, repo, reg, spec, quick=True):
        self.repo, self.reg, self.spec, self.quick = repo, reg, spec, quick
        self._gdesc = {}
        self._gident = {}
        self.reports = {}
        self.ground_cache = {}

    # ---- globals (real values from the real module, via the oracle) -------------------------------
    def global_desc(self, module, name):
        key = (module, name)
        if key not in self._gdesc:
            r = oracle().req(op="global", module=PYMOD[module], name=name)
            if not r.get("ok"):
                raise Unsupported("oracle cannot read global %s.%s: %s" % (module, name, r.get("error")))
            self._gdesc[key] = r["value"]
        return self._gdesc[key]

    def ground_eval(self, module, src):
        key = ("ground", module, src)
        if key not in self.ground_cache:
            r = oracle().req(op="eval", expr="(lambda m: eval(%r, dict(vars(m))))(importlib.import_module(%r))" % (src, PYMOD[module]))
            if not r.get("ok"):
                raise Unsupported("ground evaluation failed: %s: %s" % (src, r.get("error")))
            self.ground_cache[key] = Oracle_dec(r["value"])
        v = self.ground_cache[key]
        if isinstance(v, list):
            v = list(v)
        return v

    def global_identity(self, d, label):
        # objects are identified by (class, a canonical label): the first label under which we met them
        # the oracle numbers objects per request, so identity across requests is by canonical global name
        canon = CANON_GLOBALS.get(label, label)
        return ("gobj", canon)

    def may_inline(self, finfo):
        # a repository function without a contract is executed inline (sound: it is the real body); the evidence
        # lists every function that was inlined into a caller
        return True

    # ---- value construction ---------------------------------------------------------------------
    def field_type(self, ho, name):
        sh = self.reg.shapes.get(ho.clsname())
        if sh is None and isinstance(ho.cls, ClassInfo):
            for c in self.repo.mro(ho.cls):
                if isinstance(c, ClassInfo) and c.qual in self.reg.shapes and name in self.reg.shapes[c.qual]:
                    sh = self.reg.shapes[c.qual]
                    break
        if sh is None:
            return None
        t = sh.get(name)
        if t is None and isinstance(ho.cls, ClassInfo):
            for c in self.repo.mro(ho.cls):
                if isinstance(c, ClassInfo) and c.qual in self.reg.shapes and name in self.reg.shapes[c.qual]:
                    t = self.reg.shapes[c.qual][name]
                    break
        if t is None:
            return None
        return (t, ho)

    def mkval(self, ip, t, label, owner=None):
        if isinstance(t, tuple):
            t, ownerobj = t
            owner = SObj(ownerobj.oid)
        ctx = ip.ctx
        t = t.strip()
        binds = []
        if ";" in t:
            t, rest = t.split(";", 1)
            for b in rest.split(";"):
                k, v = b.split("=")
                binds.append((k.strip(), v.strip()))
        nm = label.replace(" ", "_")
        if t == "int":
            return SInt(z3.Int(nm))
        if t == "nat":
            v = z3.Int(nm)
            ctx.pc.append(v >= 0)
            return SInt(v)
        if t == "byte":
            v = z3.Int(nm)
            ctx.pc.append(z3.And(v >= 0, v <= 255))
            return SInt(v)
        if t == "bool":
            return SBool(z3.Bool(nm))
        if t == "bytes":
            return SBytes(z3.Const(nm, sym.B))
        if t.startswith("bytes:"):
            n = int(t[6:])
            v = z3.Const(nm, sym.B)
            ctx.pc.append(sym.blen(v) == n)
            sym.set_known_len(v, n)
            return SBytes(v)
        if t == "str":
            v = z3.Const(nm, sym.B)
            sym.FACTS.reg("ascii", v)
            return SStr(v)
        if t == "hexstr":       # a str that is hexlify(b).decode() for some bytes b
            b = z3.Const(nm + ".unhex", sym.B)
            return SStr(sym.HEXL(b))
        if t == "none":
            return None
        if t == "entropy":
            ctx._nstreams = getattr(ctx, "_nstreams", 0) + 1
            return SEntropy(ctx._nstreams)
        if t == "entropy_forbidden":
            return SEntropy(0, forbidden=True)
        if t == "bytelist":
            return SByteList(z3.Const(nm, sym.B))
        if t.startswith("tuple:") or t.startswith("seq:"):
            parts = t.split(":", 1)[1].split(",")
            return tuple(self.mkval(ip, p, "%s.%d" % (label, i)) for i, p in enumerate(parts))
        if t.startswith("list:"):
            parts = t[5:].split(",")
            return [self.mkval(ip, p, "%s.%d" % (label, i)) for i, p in enumerate(parts)]
        if t.startswith("dict:"):
            out = {}
            for kv in t[5:].split(","):
                k, _, vt = kv.partition("=")
                out[k] = self.mkval(ip, vt or "str", "%s[%s]" % (label, k))
            return out
        if t.startswith("jsonbytes:"):
            d = self.mkval(ip, "dict:" + t[len("jsonbytes:"):], label)
            return SOpaque("jsonbytes", d)
        if t.startswith("global:"):
            modname, _, gname = t[len("global:"):].rpartition(".")
            return ip.lookup_global(gname, self.repo.modules[modname])
        if t.startswith("class:"):
            return SClass(self.repo.find_class(t[6:]))
        if t.startswith("alt:"):
            alts = t[4:].split("|")
            k = ctx.choose(len(alts), "alt-of-" + label)
            return self.mkval(ip, alts[k], label, owner)
        if t.startswith("rawobj:"):      # object without its class invariant (not yet validated)
            prev = getattr(self, "_skip_inv", False)
            self._skip_inv = True
            try:
                return self.mkobj(ip, t[7:], label, owner, binds)
            finally:
                self._skip_inv = prev
        if t.startswith("obj:"):
            names = t[4:].split("|")
            k = ctx.choose(len(names), "class-of-" + label)
            return self.mkobj(ip, names[k], label, owner, binds)
        if t.startswith("spec:"):
            return getattr(self.spec, "mk_" + t[5:])(ip, label)
        raise ContractError("unknown type %r" % t)

    def mkobj(self, ip, clsname, label, owner=None, binds=()):
        ctx = ip.ctx
        single = SINGLETONS.get(clsname)
        if single is not None:
            modname, gname = single
            return ip.lookup_global(gname, self.repo.modules[modname])
        cls = self.repo.find_class(clsname) or clsname
        o = ctx.alloc(cls, lazy=True, fresh=False, label=label)
        ho = ctx.obj(o)
        for k, v in binds:
            if v.startswith("$"):
                root = v.split(".")[0][1:]
                x = owner if root == "owner" else self._cur_env[root]
                for part in v.split(".")[1:]:
                    x = ip.getattr(x, part, True)
                ho.fields[k] = x
            else:
                raise ContractError("bind %s" % v)
        # optional fields
        if not getattr(self, "_skip_inv", False):
            self.assume_invariants(ip, o, label)
        return o

    def invariant_terms(self, ip, o):
        ho = ip.ctx.obj(o)
        clss = [ho.clsname()]
        if isinstance(ho.cls, ClassInfo):
            clss = [c.qual for c in self.repo.mro(ho.cls) if isinstance(c, ClassInfo)]
        out = []
        for cq in clss:
            for cl in self.reg.invariants.get(cq, []):
                fr = Frame(None, ho.cls.module if isinstance(ho.cls, ClassInfo) else None, {"self": o})
                out.append((cl, ip.truth(ip.eval(cl.expr_ast, fr, True))))
        return out

    def assume_invariants(self, ip, o, label):
        for cl, v in self.invariant_terms(ip, o):
            ip.ctx.assume(v)
        # the proof now rests on every producer of such an object establishing / preserving the invariant: recorded so that
        # the property closure (props.py) pulls those obligations in
        ho = ip.ctx.obj(o)
        clss = [ho.clsname()]
        if isinstance(ho.cls, ClassInfo):
            clss = [c.qual for c in self.repo.mro(ho.cls) if isinstance(c, ClassInfo)]
        for cq in clss:
            if self.reg.invariants.get(cq):
                note = "assumes-inv %s" % cq
                if note not in ip.ctx.notes:
                    ip.ctx.notes.append(note)

    # ---- contract application at call sites (modular step) -------------------------------------------
    def callee_env(self, ip, c, finfo, args, kwargs):
        ghost = {k[len("_ghost_"):]: v for k, v in kwargs.items() if k.startswith("_ghost_")}
        kwargs = {k: v for k, v in kwargs.items() if not k.startswith("_ghost_")}
        env = self.callee_env0(ip, c, finfo, args, kwargs)
        for gname in c.ghost_params:
            if gname not in ghost:
                raise ContractError("call of %s needs ghost argument _ghost_%s" % (c.qual, gname))
            env[gname] = ghost[gname]
        for target, expr in c.binds:
            tnode = ast.parse(target, mode="eval").body
            if isinstance(tnode, ast.Name):
                fr = Frame(None, finfo.module if finfo is not None else None, dict(env))
                env[tnode.id] = ip.eval(ast.parse(expr, mode="eval").body, fr, True)
        return env

    def callee_env0(self, ip, c, finfo, args, kwargs):
        if finfo is not None:
            return ip.bind_args(finfo, args, kwargs, finfo.module)
        names = list(c.param_types.keys())
        env = {}
        for n, v in zip(names, args):
            env[n] = v
        for k, v in kwargs.items():
            env[k] = v
        if len(env) != len(names):
            raise Raise("TypeError")
        return env

    def apply_contract(self, ip, c, finfo, args, kwargs, node):
        ctx = ip.ctx
        env = self.callee_env(ip, c, finfo, args, kwargs)
        line = getattr(node, "lineno", 0)
        module = finfo.module if finfo is not None else None
        fr = Frame(None, module, dict(env))
        site = "call:%s:L%d" % (c.qual, line)
        ip.call_log.append("contract:" + c.qual)
        # type side conditions of parameters
        for n, t in c.param_types.items():
            if n in env and not self.type_ok(ip, env[n], t):
                self.oblige(ip, "%s/ptype:%s" % (site, n), "callpre", None, False)
                raise PathEnd("callee-type")
        saved_snap, saved_old = ip.pre_snapshot, ip.use_old
        ip.pre_snapshot, ip.use_old = None, False
        pushed = False
        try:
            for cl in c.pre:
                if cl.name.startswith("definition"):
                    continue     # definitional unfolding of a spec function: only used inside the callee's own proof
                g = ip.truth(ip.eval(cl.expr_ast, fr, True))
                self.oblige(ip, "%s/pre:%s" % (site, cl.name), "callpre", cl, g)
                ctx.assume(g)
            for n, t in c.param_types.items():
                if t.startswith("obj:") and isinstance(env.get(n), SObj) and not c.abstract_flag:
                    for (cl, g) in self.invariant_terms(ip, env[n]):
                        self.oblige(ip, "%s/pre-inv:%s:%s" % (site, n, cl.name), "callpre", cl, g)
                        ctx.assume(g)
            if c.measure is not None and self.cur_contract is not None and c.qual == self.cur_contract.qual \
                    and self.cur_measure is not None:
                m = I(ip.eval(ast.parse(c.measure, mode="eval").body, fr, True))
                self.oblige(ip, "%s/measure-decreases" % site, "measure", None, mkbool(z3.And(m >= 0, m < self.cur_measure)))
            snap = ctx.snapshot()
            ip.pre_snapshot = snap
            ip.all_snaps.append(snap)
            pushed = True
            # exceptional outcomes
            for cl in c.exc:
                ip.use_old = True
                w = ip.truth(ip.eval(cl.expr_ast, fr, True))
                ip.use_old = False
                took = ctx.branch(w, "callee-raises-" + cl.name)
                # both outcomes of the split rest on the callee's "raises exactly when" clause
                if (c.qual, cl.name) not in ctx.always_deps:
                    ctx.always_deps.append((c.qual, cl.name))
                if took:
                    self.havoc_writes(ip, c, env)
                    raise Raise(cl.exc)
            for e in c.may_raise_list:
                if ctx.choose(2, "callee-may-raise-" + e) == 1:
                    self.havoc_writes(ip, c, env)
                    raise Raise(e)
            # normal outcome
            self.havoc_writes(ip, c, env)
            self.callee_entropy(ip, c, env, fr)
            res = self.mkresult(ip, c, fr, env, site)
            fr.env["result"] = res
            for cl in c.post:
                if getattr(cl, "on", "return") == "raise" or not getattr(cl, "export", True):
                    continue
                if cl.when_ast is not None:
                    ip.use_old = True
                    w = ip.truth(ip.eval(cl.when_ast, fr, True))
                    ip.use_old = False
                    if isinstance(w, bool) and not w:
                        continue
                else:
                    w = True
                if self.definitional(ip, cl, fr):
                    ctx.always_deps.append((c.qual, cl.name))
                    continue
                if "spec.entropy_calls" in cl.expr or "spec.entropy_only_via" in cl.expr:
                    continue      # statements about the execution log of the callee itself, not about state
                g = ip.truth(ip.eval(cl.expr_ast, fr, True))
                if not isinstance(w, bool):
                    g = mkbool(z3.Implies(w.t, Bo(g)))
                ctx.assume(g, label=(c.qual, cl.name))
            if isinstance(res, SObj):
                self.assume_invariants(ip, res, "res")
            if ctx.check() == z3.unsat:
                raise PathEnd("infeasible-after-" + site)
            return res
        finally:
            if pushed:
                ip.all_snaps.pop()
            ip.pre_snapshot, ip.use_old = saved_snap, saved_old

    def type_ok(self, ip, v, t):
        t = t.split(";")[0]
        if t in ("int", "nat", "byte"):
            return isintlike(v) and not isinstance(v, (bool, SBool))
        if t == "bool":
            return isinstance(v, (bool, SBool))
        if t == "bytes" or t.startswith("bytes:"):
            return isbyteslike(v)
        if t in ("str", "hexstr"):
            return isstrlike(v)
        if t.startswith("rawobj:"):
            t = t[3:]
        if t.startswith("obj:"):
            if not isinstance(v, SObj):
                return False
            ho = ip.ctx.obj(v)
            for n in t[4:].split("|"):
                ci = self.repo.find_class(n)
                if ci is not None and isinstance(ho.cls, ClassInfo) and self.repo.is_subclass(ho.cls, ci):
                    return True
                if ci is None and ho.clsname() == n:
                    return True
            return False
        if t.startswith("tuple:"):
            parts = t[6:].split(",")
            return isinstance(v, tuple) and len(v) == len(parts) and all(self.type_ok(ip, x, p) for x, p in zip(v, parts))
        if t.startswith("seq:"):
            parts = t[4:].split(",")
            return isinstance(v, (tuple, list)) and len(v) == len(parts) and all(self.type_ok(ip, x, p) for x, p in zip(v, parts))
        if t.startswith("list:"):
            parts = t[5:].split(",")
            return isinstance(v, list) and len(v) == len(parts) and all(self.type_ok(ip, x, p) for x, p in zip(v, parts))
        if t.startswith("alt:"):
            return any(self.type_ok(ip, v, a) for a in t[4:].split("|"))
        if t in ("entropy", "entropy_forbidden", "callable"):
            return isinstance(v, (SEntropy, SFunc))
        if t == "bytelist":
            return isinstance(v, SByteList)
        if t.startswith("jsonbytes:"):
            return isinstance(v, SOpaque) and v.kind == "jsonbytes"
        if t.startswith("dict:") or t == "any" or t.startswith("class:") or t.startswith("spec:"):
            return True
        if t == "none":
            return v is None
        return True

    def havoc_writes(self, ip, c, env):
        if not c.writes_list:
            return
        for w in c.writes_list:
            objpath, _, field = w.rpartition(".")
            fr = Frame(None, None, dict(env))
            o = ip.eval(ast.parse(objpath, mode="eval").body, fr, True)
            ho = ip.ctx.obj(o)
            t = self.field_type(ho, field)
            if t is None:
                raise ContractError("writes %s: no shape for field" % w)
            ho.fields.pop(field, None)
            ho.present.pop(field, None)
            ts, owner = t
            optional = ts.endswith("?")
            if optional:
                ts = ts[:-1]
            lab = "havoc.%s.%d" % (field, len(ip.ctx.writes))
            self._skip_inv = True
            try:
                ho.fields[field] = self.mkval(ip, (ts, owner), lab)
            finally:
                self._skip_inv = False
            if optional:
                ho.present[field] = z3.Bool("has." + lab)
            ho.absent.discard(field)
            ip.ctx.writes.append((o.oid, field))

    def callee_entropy(self, ip, c, env, fr):
        if c.entropy_clause is None:
            return
        # callee consumes entropy from a stream: advance the ghost position by an unknown positive amount
        e = ip.eval(ast.parse(c.entropy_clause, mode="eval").body, fr, True)
        if isinstance(e, SEntropy):
            if e.forbidden:
                raise Raise("NotImplementedError")
            k = ip.ctx.entropy_pos.get(e.stream, IV(0))
            fr.env["entropy_pos"] = mkint(k)
            adv = sym.fresh("adv")
            ip.ctx.pc.append(adv >= 1)
            ip.ctx.entropy_pos[e.stream] = z3.simplify(k + adv)
            ip.ctx.entropy_log.append((e.stream, "callee:" + c.qual))
        elif isinstance(e, SFunc):
            # a repository closure used as entropy function: it is called (at least once) by the callee
            r = ip.call(e, [sym_int_fresh("n")], {})

    def mkresult(self, ip, c, fr, env, site):
        t = c.ret_type
        if t is None:
            raise ContractError("%s: no return type" % c.qual)
        self._skip_inv = True
        try:
            return self.mkval(ip, t, "res.%s.%d" % (c.qual.split(".")[-1], ip.ctx.nsolve))
        finally:
            self._skip_inv = False

    def definitional(self, ip, cl, fr):
        """ensures clauses of the form `result.f is X` / `result is X` are bindings, not formulas"""
        e = cl.expr_ast
        if isinstance(e, ast.Compare) and len(e.ops) == 1 and isinstance(e.ops[0], ast.Is):
            lhs, rhs = e.left, e.comparators[0]
            if isinstance(lhs, ast.Attribute):
                o = ip.eval(lhs.value, fr, True)
                x = ip.eval(rhs, fr, True)
                if isinstance(o, SObj) and isinstance(x, SObj):
                    ho = ip.ctx.obj(o)
                    cur = ho.fields.get(lhs.attr)
                    if cur is None or (isinstance(cur, SObj) and ip.ctx.obj(cur).lazy and not ip.ctx.obj(cur).fields):
                        ho.fields[lhs.attr] = x
                        return True
        return False

    # ---- obligations ----------------------------------------------------------------------------------
    def oblige(self, ip, name, kind, clause, goal, extra=None):
        ctx = ip.ctx
        t0 = time.time()
        pathid = "".join(str(x) for x in ctx.trace[:ctx.pos]) or "-"
        full = "%s/%s#%s" % (self.cur_qual, name, pathid)
        if isinstance(goal, bool):
            g = z3.BoolVal(goal)
        else:
            g = goal.t if isinstance(goal, SBool) else goal
        labs = [l for l, _ in ctx.labels]
        status, model, core = "undecided", None, []
        if getattr(ctx, "after_loop_cut", False):
            extra = dict(extra or {}, after_loop_cut=True)

        def attempt(transform, timeout_ms, seed=0, guarded=True):
            s = z3.Solver()
            s.set("timeout", timeout_ms)
            if seed:
                s.set("random_seed", seed)
            s.add([transform(f) for f in sym.FACTS.facts])
            if guarded:
                s.add([transform(f) for f in ctx.pc])
            else:
                # callee clauses asserted outright instead of under their tracking literals: the solver can then eliminate
                # `result == <spec term>` equalities by substitution, which makes congruence-style goals immediate
                sub = [(l, z3.BoolVal(True)) for l in labs]
                s.add([transform(z3.simplify(z3.substitute(f, *sub))) if sub else transform(f) for f in ctx.pc])
            s.add(transform(z3.Not(g)))
            if transform is sym.abstract_nl:
                s.add(sym._ABS_SIDE)
            return s, (s.check(*labs) if guarded else s.check())
        overapprox_core = False
        # (1) nonlinear abstraction first: linear + EUF, fast and stable; only `unsat` is trusted.  Two forms of the same query are
        # alternated with escalating budgets: callee clauses guarded by their tracking literals (gives the exact dependency core), and
        # asserted outright (the solver can then substitute `result == <spec term>` equalities).  Measured: for congruence-style goals
        # (xrecover/val) the unguarded form takes 0.0 s where the guarded one takes 0.5-60 s depending on load; for
        # bytes_to_element/undecodable it is the other way round (2 s vs > 60 s).  When only the unguarded form proves the goal the
        # dependencies are over-approximated by ALL callee clauses assumed on the path (a larger cone: sound for the closure).
        r = z3.unknown
        for ms in (QUICK_MS // 4, QUICK_MS, 4 * QUICK_MS, TIMEOUT_MS):
            s, r = attempt(sym.abstract_nl, ms)
            if r != z3.unknown or not labs:
                if r != z3.unknown:
                    break
                continue
            s0, r0 = attempt(sym.abstract_nl, ms, guarded=False)
            if r0 == z3.unsat:
                s, r, overapprox_core = s0, r0, True
                break
        if r != z3.unsat and not os.environ.get("PYVC_NO_EXACT"):
            # (2) exact query
            s, r = attempt(lambda f: f, TIMEOUT_MS)
        if r == z3.unknown:
            # (3) solver gave up (time): the verdict must not depend on machine load - retry with other seeds, more time
            for sd in (7, 23):
                s, r = attempt(sym.abstract_nl, 2 * TIMEOUT_MS, seed=sd)
                if r == z3.unsat:
                    break
                s2, r2 = attempt(lambda f: f, 2 * TIMEOUT_MS, seed=sd)
                if r2 != z3.unknown:
                    s, r = s2, r2
                    break
        cross = None
        if r == z3.unsat and os.environ.get("VERIF_TIER") == "thorough" and kind != "canary":
            cross = cvc5_crosscheck(s, labs)
        if r == z3.unsat:
            status = "discharged"
            if overapprox_core:
                core = [info for l, info in ctx.labels] + list(ctx.always_deps)
                extra = dict(extra or {}, core="over-approximated: all callee clauses of the path")
            else:
                uc = s.unsat_core()
                ids = {u.get_id() for u in uc}
                core = [info for l, info in ctx.labels if l.get_id() in ids] + list(ctx.always_deps)
        elif r == z3.sat:
            status = "refuted"
            model = self.extract_model(ip, s.model())
        else:
            status = "undecided"
            extra = dict(extra or {}, reason=s.reason_unknown())
        if cross is not None:
            extra = dict(extra or {}, cvc5=cross)
        ob = Obligation(full, kind, clause, g, status, model, core, time.time() - t0, pathid, extra)
        ob.line = None
        ob.smt_size = len(sym.FACTS.facts) + len(ctx.pc)
        ctx.obligations.append(ob)
        ctx.solve_time += ob.time
        ctx.nsolve += 1
        return ob

    def extract_model(self, ip, m):
        out = {}
        for name, v in ip.ctx.input_syms.items():
            try:
                out[name] = self.model_value(ip, m, v, 0)
            except Exception as e:
                out[name] = {"?": str(e)}
        return out

    def model_value(self, ip, m, v, depth):
        if v is None or isinstance(v, (bool, int, str)):
            return v
        if isinstance(v, bytes):
            return {"bytes": v.hex()}
        if isinstance(v, SInt):
            return int(str(m.eval(v.t, model_completion=True)))
        if isinstance(v, SBool):
            return z3.is_true(m.eval(v.t, model_completion=True))
        if isinstance(v, (SBytes, SStr, SByteList)):
            l = int(str(m.eval(sym.blen(v.t), model_completion=True)))
            x = int(str(m.eval(sym.bval(v.t), model_completion=True)))
            d = {"len": l, "val": x}
            if 0 <= l <= 4096 and 0 <= x < 256 ** l:
                d = {"bytes": x.to_bytes(l, "big").hex()}
                if isinstance(v, SStr):
                    d["str"] = True
            return d
        if isinstance(v, (tuple, list)):
            return [self.model_value(ip, m, x, depth + 1) for x in v]
        if isinstance(v, dict):
            return {k: self.model_value(ip, m, x, depth + 1) for k, x in v.items()}
        if isinstance(v, SObj):
            ho = ip.ctx.obj(v)
            d = {"class": ho.clsname(), "oid": v.oid}
            if depth < 3:
                src = ip.pre_snapshot.get(v.oid, (ho.fields,))[0] if ip.pre_snapshot else ho.fields
                d["fields"] = {k: self.model_value(ip, m, x, depth + 1) for k, x in src.items()}
                pres = ho.present
                if pres:
                    d["present"] = {k: z3.is_true(m.eval(p, model_completion=True)) for k, p in pres.items()}
            return d
        if isinstance(v, SEntropy):
            # the blocks the model assigns to the stream: ent(stream, k, n) terms created on this path
            calls = {}
            for item in sym.FACTS.items("ent"):
                try:
                    t = item[0]
                    st, k, n = [m.eval(c, model_completion=True) for c in t.children()]
                    if int(str(st)) != v.stream:
                        continue
                    l = int(str(m.eval(sym.blen(t), model_completion=True)))
                    x = int(str(m.eval(sym.bval(t), model_completion=True)))
                    if 0 <= l <= 4096 and 0 <= x < 256 ** l:
                        calls[int(str(k))] = x.to_bytes(l, "big").hex()
                except Exception:
                    pass
            return {"entropy": v.stream, "calls": calls}
        if isinstance(v, SOpaque):
            return {"opaque": v.kind, "data": self.model_value(ip, m, v.data, depth + 1) if isinstance(v.data, (dict, list, tuple)) else None}
        if isinstance(v, SPoint):
            return {"point": str(m.eval(v.t, model_completion=True))}
        return {"?": repr(v)}

    # ---- hints, lemmas, loops --------------------------------------------------------------------------
    def after_stmt(self, ip, st, frame):
        c = frame.contract or getattr(frame, "anchor_contract", None)
        if c is None or (not c.hints and not c.lemmas):
            return
        assigned = []
        if isinstance(st, ast.Assign):
            for t in st.targets:
                if isinstance(t, ast.Name):
                    assigned.append(t.id)
                elif isinstance(t, (ast.Tuple, ast.List)):
                    assigned += [e.id for e in t.elts if isinstance(e, ast.Name)]
        for a in assigned:
            self.run_anchor(ip, frame, "after:" + a)

    def run_anchor(self, ip, frame, anchor):
        c = frame.contract or getattr(frame, "anchor_contract", None)
        fr = Frame(None, frame.module, dict(frame.env))
        for at, lem, args in c.lemmas:
            if at == anchor:
                self.use_lemma(ip, fr, lem, args)
        for at, cl in c.hints:
            if at == anchor:
                g = ip.truth(ip.eval(cl.expr_ast, fr, True))
                self.oblige(ip, "hint:%s" % cl.name, "hint", cl, g)
                ip.ctx.assume(g)

    def use_lemma(self, ip, fr, lem, args):
        from . import theory
        vals = [ip.eval(ast.parse(a, mode="eval").body, fr, True) for a in args]
        inst = theory.instantiate(lem, [I(v) if isintlike(v) else (v.t if hasattr(v, "t") else v) for v in vals])
        sym.FACTS.add(inst, "T1:" + lem if theory.LEMMAS[lem].proved else "T2:" + lem)

    def loop_cut(self, ip, st, frame, spec, kind, start=None):
        """Cut the loop at its invariant (DESIGN 2.4)."""
        ctx = ip.ctx
        ctx.after_loop_cut = True     # every later obligation of this path is relative to the invariant (a proof device)
        fr_env = lambda: Frame(None, frame.module, dict(frame.env))
        target = None
        if kind == "count":
            if not isinstance(st.target, ast.Name):
                raise Unsupported("for target")
            target = st.target.id
        # ghost variables: initialise
        for (gname, init, _upd) in spec.ghost:
            frame.env[gname] = ip.eval(ast.parse(init, mode="eval").body, fr_env(), True)
        if kind == "count":
            frame.env[target] = start
        # (1) invariant holds on entry
        if kind == "count":
            # the loop head is reached with target = start (first iteration)
            pass
        for cl in spec.invariants:
            g = ip.truth(ip.eval(cl.expr_ast, fr_env(), True))
            self.oblige(ip, "loop%d/%s:entry" % (spec.ordinal, cl.name), "invariant", cl, g)
        # (2) havoc everything assigned in the loop body
        assigned = set()
        for n in ast.walk(st):
            if isinstance(n, ast.Name) and isinstance(n.ctx, ast.Store):
                assigned.add(n.id)
            if isinstance(n, ast.Attribute) and isinstance(n.ctx, ast.Store):
                raise Unsupported("heap write inside a loop cut by an invariant")
        if target:
            assigned.add(target)
        for (gname, _i, _u) in spec.ghost:
            assigned.add(gname)
        types = getattr(spec, "var_types", {})
        for a in sorted(assigned):
            cur = frame.env.get(a)
            if a == target or isintlike(cur) or (a in [g[0] for g in spec.ghost] and isintlike(cur)):
                frame.env[a] = SInt(sym.fresh("loop." + a))
            elif cur is None and a not in frame.env:
                continue      # first assigned inside the body before any read
            elif isbyteslike(cur):
                frame.env[a] = SBytes(sym.fresh("loop." + a, sym.B))
            else:
                frame.env.pop(a, None)
        # entropy position is modified by the body as well
        for sid in list(ctx.entropy_pos):
            ctx.entropy_pos[sid] = sym.fresh("loop.entpos")
            ctx.pc.append(ctx.entropy_pos[sid] >= 0)
        if kind == "count":
            ctx.pc.append(I(frame.env[target]) >= I(start))
        for cl in spec.invariants:
            g = ip.truth(ip.eval(cl.expr_ast, fr_env(), True))
            ctx.assume(g)
        # (3) one arbitrary iteration
        if kind == "while":
            c = ip.truth(ip.eval(st.test, frame))
            if not ctx.branch(c, "while-guard"):
                ip.exec_block(st.orelse, frame)
                return
        def back_edge():
            for (gname, _i, upd) in spec.ghost:
                frame.env[gname] = ip.eval(ast.parse(upd, mode="eval").body, fr_env(), True)
            if kind == "count":
                frame.env[target] = mkint(I(frame.env[target]) + 1)
            for cl in spec.invariants:
                g = ip.truth(ip.eval(cl.expr_ast, fr_env(), True))
                self.oblige(ip, "loop%d/%s:preserved" % (spec.ordinal, cl.name), "invariant", cl, g)
            raise PathEnd("loop-back-edge")
        try:
            ip.exec_block(st.body, frame)
        except _Continue:
            back_edge()
        except _Break:
            return
        back_edge()

    # ---- top level: verify one function against its contract ---------------------------------------------
    def verify(self, qual, canaries=True):
        t0 = time.time()
        rep = FunctionReport(qual)
        c = self.reg.get(qual)
        if c is None:
            rep.errors.append("no contract")
            return rep
        finfo = self.repo.find_function(qual)
        if qual in self.reg.ghosts:
            modname, src = self.reg.ghosts[qual]
            node = ast.parse(src).body[0]
            finfo = FunctionInfo(self.repo.modules[modname], qual, node)
            finfo.ghost = True
        if finfo is None:
            rep.errors.append("function %s not found in the repository source" % qual)
            return rep
        self.cur_qual, self.cur_contract = qual, c
        if c.lean_theorem:
            from . import leanback
            leanback.report_for(self, rep, c, finfo)
            rep.time = time.time() - t0
            self.reports[qual] = rep
            return rep
        # loop-invariant variants of the contract: the default set first; an alternative set is tried only when the default one
        # does not carry the proof, and is adopted only if EVERY obligation of the function is then discharged
        variants = [(0, c.loops)] + sorted(getattr(c, "loop_variants", {}).items())
        if os.environ.get("PYVC_LOOP_VARIANT"):          # developer switch: look at one variant only
            variants = [v for v in variants if str(v[0]) == os.environ["PYVC_LOOP_VARIANT"]] or variants
        first = None
        default_loops = c.loops
        try:
            for vi, loops in variants:
                c.loops = loops
                rep = FunctionReport(qual)
                tv = time.time()
                for ci, case in enumerate(c.case_list):
                    pending = [[]]
                    npaths = 0
                    while pending:
                        trace = pending.pop()
                        npaths += 1
                        if npaths > 250:
                            rep.errors.append("path explosion (more than 250 paths)")
                            break
                        if time.time() - tv > float(os.environ.get("PYVC_FN_BUDGET_S", "400")):
                            rep.errors.append("time budget for one function exceeded after %d paths" % npaths)
                            break
                        self.run_path(rep, c, finfo, case, ci, trace, pending, canaries)
                if vi == 0:
                    first = rep
                    if len(variants) == 1:
                        break
                if rep.ok() and any(po[2] == "return" for po in rep.path_outcomes):
                    if vi > 0:
                        rep.notes.add("loop invariants: variant %d of the contract carries the proof (the default set does not fit this loop)" % vi)
                    break
            else:
                rep = first if first is not None else rep
        finally:
            c.loops = default_loops
        rep.time = time.time() - t0
        self.reports[qual] = rep
        return rep

    def run_path(self, rep, c, finfo, case, ci, trace, pending, canaries):
        sym.reset_facts()
        ctx = Ctx(trace, self)
        ip = Interp(self.repo, self.reg, ctx, self.spec, top_qual=c.qual)
        self.cur_measure = None
        outcome = None
        try:
            try:
                env = self.build_inputs(ip, c, finfo, case)
                fr = Frame(None, finfo.module, dict(env))
                for cl in c.pre:
                    ctx.assume(ip.truth(ip.eval(cl.expr_ast, fr, True)))
                for fx in c.facts:
                    self.ground_fact(ip, c, finfo, fx)
                if ctx.check() == z3.unsat:
                    raise PathEnd("infeasible-precondition")
                if c.measure is not None:
                    self.cur_measure = I(ip.eval(ast.parse(c.measure, mode="eval").body, fr, True))
                ctx.input_syms = dict(env)
                ip.pre_snapshot = ctx.snapshot()
                ip.all_snaps = [ip.pre_snapshot]
                pre_env = dict(env)
                self.run_anchor_entry(ip, c, finfo, env)
                try:
                    res = ip.exec_function(finfo, [], {}, contract=c, env=env)
                    outcome = ("return", res)
                except Raise as r:
                    outcome = ("raise", r.exc, r.where)
                self.check_exit(ip, rep, c, finfo, pre_env, outcome)
            except PathEnd as pe:
                outcome = ("end", pe.kind)
            except Unsupported as u:
                outcome = ("unsupported", str(u))
                rep.unsupported.append("%s [case %d path %s]" % (u, ci, "".join(map(str, ctx.trace[:ctx.pos]))))
            except ContractError as e:
                outcome = ("error", str(e))
                rep.errors.append("contract error: %s" % e)
            except RecursionError:
                rep.errors.append("recursion limit in executor")
                outcome = ("error", "recursion")
        finally:
            pending.extend(ctx.pending)
            rep.paths += 1
            rep.path_outcomes.append((ci, "".join(map(str, ctx.trace[:ctx.pos])), outcome[0] if outcome else "?",
                                      outcome[1] if outcome and outcome[0] in ("raise", "end", "unsupported") else None))
            for ob in ctx.obligations:
                ob.case = ci
                rep.obligations.append(ob)
                if ob.clause is not None and ob.kind in ("ensures", "raises", "frame", "invariant", "hint", "callpre", "retinv"):
                    rep.deps.setdefault(ob.clause.name if ob.kind != "callpre" else "<support>", set()).update(ob.core)
            rep.solver_time += ctx.solve_time
            rep.nsolve += ctx.nsolve
            rep.notes.update(ctx.notes)
            rep.axioms.update(sym.FACTS.used_axioms)
            rep.callees.update(x[len("contract:"):] for x in ip.call_log if x.startswith("contract:"))
            rep.inlined.update(x for x in ip.call_log if not x.startswith("contract:"))
            rep.global_reads.update(ctx.global_reads)
            rep.writes_seen.update((ctx.heap[o].clsname() + ("(global)" if getattr(ctx.heap[o], "is_global", False) else "") + ("(fresh)" if ctx.heap[o].fresh else ""), f) for o, f in ctx.writes)
            if ctx.entropy_log:
                rep.entropy.append([str(n) for _, n in ctx.entropy_log])

    def run_anchor_entry(self, ip, c, finfo, env):
        fr = Frame(None, finfo.module, dict(env))
        fr.contract = c
        self.run_anchor(ip, fr, "entry")

    def ground_fact(self, ip, c, finfo, expr):
        """closed fact about module constants: evaluated on the real module by the oracle, then assumed"""
        key = (finfo.module.name, expr)
        if key not in self.ground_cache:
            r = oracle().req(op="eval", expr="(lambda m: eval(%r, vars(m)))(importlib.import_module(%r))" % (expr, PYMOD[finfo.module.name]))
            self.ground_cache[key] = bool(r.get("ok") and Oracle_dec(r["value"]) is True)
        if not self.ground_cache[key]:
            raise ContractError("ground fact is false on the real module: %s" % expr)
        fr = Frame(None, finfo.module, {})
        ip.ctx.assume(ip.truth(ip.eval(ast.parse(expr, mode="eval").body, fr, True)))

    def build_inputs(self, ip, c, finfo, case):
        names = finfo.params() + [g for g in c.ghost_params if g not in finfo.params()]
        types = dict(c.param_types)
        types.update(c.ghost_params)
        if case:
            types.update(case)
        env = {}
        self._cur_env = env
        for n in names:
            t = types.get(n)
            if t is None:
                raise ContractError("%s: no type for parameter %s" % (c.qual, n))
            if t == "default":
                fr = Frame(None, finfo.module, {})
                env[n] = ip.eval(finfo.defaults()[n], fr, False)
            else:
                self._skip_inv = (c.setup_code == "fresh_self" and n == "self")
                try:
                    env[n] = self.mkval(ip, t, n)
                finally:
                    self._skip_inv = False
        for target, expr in c.binds:
            fr = Frame(None, finfo.module, dict(env))
            v = ip.eval(ast.parse(expr, mode="eval").body, fr, True)
            tnode = ast.parse(target, mode="eval").body
            if isinstance(tnode, ast.Attribute):
                o = ip.eval(tnode.value, fr, True)
                ip.ctx.obj(o).fields[tnode.attr] = v
            elif isinstance(tnode, ast.Name):
                env[tnode.id] = v
            else:
                raise ContractError("bind target %s" % target)
        if c.setup_code:
            SETUP_FUNCS[c.setup_code](self, ip, env)
        # extensionality between the byte-string inputs (keeps counter-models faithful)
        bs = [v.t for v in env.values() if isinstance(v, SBytes)]
        for i in range(len(bs)):
            for j in range(i + 1, len(bs)):
                sym.beq(bs[i], bs[j])
        return env

    def check_exit(self, ip, rep, c, finfo, pre_env, outcome):
        ctx = ip.ctx
        fr = Frame(None, finfo.module, dict(pre_env))
        fr.env.setdefault("entropy_pos", 0)
        kind = outcome[0]

        def ev(astnode, old=False):
            prev = ip.use_old
            ip.use_old = old
            try:
                return ip.truth(ip.eval(astnode, fr, True))
            finally:
                ip.use_old = prev

        def guarded(cl):
            if cl.when_ast is None:
                return True
            return ev(cl.when_ast, old=True)

        if kind == "return":
            res = outcome[1]
            fr.env["result"] = res
            if c.ret_type is not None and not self.type_ok(ip, res, c.ret_type):
                self.oblige(ip, "return-type", "ensures", Clause("ensures", "return-type", "True"), False,
                            extra={"got": repr(res), "want": c.ret_type})
            for cl in c.exc:
                w = ev(cl.expr_ast, old=True)
                self.oblige(ip, "%s:not-raised" % cl.name, "raises", cl, ip.not_(w))
            for cl in c.post:
                if getattr(cl, "on", "return") == "raise":
                    continue
                w = guarded(cl)
                if isinstance(w, bool) and not w:
                    continue
                g = ev(cl.expr_ast)
                if not isinstance(w, bool):
                    g = mkbool(z3.Implies(w.t, Bo(g)))
                self.oblige(ip, cl.name, "ensures", cl, g)
            if isinstance(res, SObj) and c.ret_type and c.ret_type.startswith("obj:"):
                self.check_ret_invariants(ip, res, c)
            for cl in (c.canaries if self.canaries_on else []):
                w = guarded(cl)
                if isinstance(w, bool) and not w:
                    continue
                g = ev(cl.expr_ast)
                if not isinstance(w, bool):
                    g = mkbool(z3.Implies(w.t, Bo(g)))
                self.oblige(ip, cl.name, "canary", cl, g)
        elif kind == "raise":
            exc = outcome[1]
            conds = []
            allowed = False
            matched = None
            for cl in c.exc:
                if exc_matches(self.repo, exc, cl.exc):
                    allowed = True
                    matched = matched or cl
                    conds.append(ev(cl.expr_ast, old=True))
            if any(exc_matches(self.repo, exc, e) for e in c.may_raise_list):
                pass
            elif allowed:
                g = False
                for x in conds:
                    if isinstance(x, bool):
                        if x:
                            g = True
                            break
                    else:
                        g = x if g is False else mkbool(z3.Or(Bo(g), x.t))
                # the raised exception must be justified by SOME matching clause; the obligation is attributed to every
                # matching clause (so that each property relying on any of them sees it)
                for mcl in [cl for cl in c.exc if exc_matches(self.repo, exc, cl.exc)]:
                    self.oblige(ip, "%s:raised-only-when" % mcl.name, "raises", mcl, g,
                                extra={"exc": exc, "line": outcome[2]})
            else:
                cl = Clause("raises", "no-unexpected-exception", "True", tags=" ".join(sorted(self.all_tags(c))))
                self.oblige(ip, "unexpected-raise:%s" % exc, "raises", cl, False, extra={"exc": exc, "line": outcome[2]})
            for cl in c.post:
                if getattr(cl, "on", "return") in ("raise", "both"):
                    w = guarded(cl)
                    if isinstance(w, bool) and not w:
                        continue
                    g = ev(cl.expr_ast)
                    if not isinstance(w, bool):
                        g = mkbool(z3.Implies(w.t, Bo(g)))
                    self.oblige(ip, cl.name + ":on-raise", "ensures", cl, g)
        # frame
        if c.writes_list is not None:
            allowed = set()
            for w in c.writes_list:
                objpath, _, field = w.rpartition(".")
                try:
                    o = ip.eval(ast.parse(objpath, mode="eval").body, Frame(None, None, dict(pre_env)), True)
                    allowed.add((o.oid, field))
                except Exception:
                    pass
            bad = [(o, f) for (o, f) in ctx.writes if (o, f) not in allowed and not ctx.heap[o].fresh]
            cl = Clause("frame", "frame", "True", tags=" ".join(sorted(self.frame_tags(c))))
            self.oblige(ip, "frame", "frame", cl, len(bad) == 0,
                        extra={"illegal_writes": ["%s.%s" % (ctx.heap[o].clsname(), f) for o, f in bad]})

    def check_ret_invariants(self, ip, res, c):
        ho = ip.ctx.obj(res)
        clss = [ho.clsname()]
        if isinstance(ho.cls, ClassInfo):
            clss = [x.qual for x in self.repo.mro(ho.cls) if isinstance(x, ClassInfo)]
        for cq in clss:
            for cl in self.reg.invariants.get(cq, []):
                fr = Frame(None, ho.cls.module if isinstance(ho.cls, ClassInfo) else None, {"self": res})
                try:
                    g = ip.truth(ip.eval(cl.expr_ast, fr, True))
                except Raise:
                    g = False
                self.oblige(ip, "ret-inv:%s" % cl.name, "retinv", cl, g)

    def all_tags(self, c):
        tags = set()
        for cl in c.post + c.exc:
            tags |= cl.tags
        return tags

    def frame_tags(self, c):
        return getattr(c, "frame_tag_set", None) or self.all_tags(c) | {"C16"}

    canaries_on = True


def cvc5_crosscheck(solver, labs):
    """thorough tier: the query z3 answered `unsat` is re-solved by cvc5 (independent solver); returns 'unsat',
    'unknown' or 'sat' (a disagreement, reported as a checker fault)"""
    import subprocess, tempfile
    try:
        s2 = z3.Solver()
        s2.add(solver.assertions())
        s2.add(labs)
        text = "(set-logic ALL)\n" + s2.to_smt2()
        with tempfile.NamedTemporaryFile("w", suffix=".smt2", delete=False, dir="/root/scratch" if os.path.isdir("/root/scratch") else None) as f:
            f.write(text)
            fn = f.name
        try:
            p = subprocess.run(["/usr/bin/cvc5", "--tlimit=%d" % int(os.environ.get("PYVC_CVC5_MS", "15000")), fn], capture_output=True, text=True, timeout=60)
            out = p.stdout.strip().splitlines()
            ans = out[0].strip() if out else "unknown"
        finally:
            os.unlink(fn)
        return ans if ans in ("sat", "unsat") else "unknown"
    except Exception as e:
        return "unknown"


def Oracle_dec(v):
    from .repo import Oracle
    return Oracle.dec(v)


def sym_int_fresh(name):
    return SInt(sym.fresh(name))


# functions that may be executed inline at call sites without a contract of their own (trivial
# delegations); re-checked syntactically each run by checks.check_inline_shapes
INLINE_OK = set()
SINGLETONS = {}
CANON_GLOBALS = {}
SETUP_FUNCS = {}


def _fresh_self(verifier, ip, env):
    """__init__ harness: `self` is a freshly allocated object without any attribute"""
    o = env["self"]
    ho = ip.ctx.obj(o)
    ho.lazy = False
    ho.fields.clear()
    ho.present.clear()
    ho.fresh = False


SETUP_FUNCS["fresh_self"] = _fresh_self
