"""Check driver:  python3-vt -m pyvc.main <Cxx> [--tier quick|thorough]

exit 0 = every obligation of the property discharged; 1 = violation (VIOLATION line per failed
obligation); 2 = undecided only; 3 = checker fault.  Evidence is written to evidence/<id>.json.
"""
import sys, os, json, time, traceback, hashlib, multiprocessing as mp

VERIF = os.path.dirname(os.path.dirname(os.path.abspath(__file__)))
sys.path.insert(0, VERIF)


def load():
    from .repo import Repo
    from .contracts import load_all
    repo = Repo()
    reg = load_all()
    return repo, reg


def clause_tags(c):
    tags = {}
    for cl in c.post + c.exc:
        tags[cl.name] = set(cl.tags)
    return tags


def functions_for(reg, pid):
    """contracts with a clause tagged pid, and ghost lemmas tagged pid"""
    out = []
    for q, c in reg.contracts.items():
        if c.abstract_flag:
            continue
        if q in reg.ghosts:
            if pid in getattr(c, "lemma_tags", ()):
                out.append(q)
            continue
        if any(pid in cl.tags for cl in c.post + c.exc):
            out.append(q)
    return out


def _verify_worker(q):
    """runs in a pool process: verify one function, return a picklable summary"""
    try:
        from .repo import Repo, oracle
        from .contracts import load_all
        from .vc import Verifier
        from . import spec_sym
        global _W
        if "_W" not in globals() or _W is None:
            repo = Repo()
            reg = load_all()
            _W = (repo, reg, Verifier(repo, reg, spec_sym))
        repo, reg, v = _W
        rep = v.verify(q)
        obs = []
        for o in rep.obligations:
            obs.append(dict(name=o.name, kind=o.kind, clause=o.clause.name if o.clause is not None else None,
                            tags=sorted(o.clause.tags) if o.clause is not None else [],
                            status=o.status, model=o.model, core=[list(x) for x in o.core], time=round(o.time, 4),
                            extra={k: (v if isinstance(v, (str, int, float, bool, list, type(None))) else str(v)) for k, v in (o.extra or {}).items()},
                            goal=str(o.goal)[:600] if o.status != "discharged" else None))
        return dict(qual=q, obligations=obs, paths=rep.paths, path_outcomes=[list(p) for p in rep.path_outcomes],
                    unsupported=rep.unsupported, errors=rep.errors, time=rep.time, solver_time=rep.solver_time,
                    nsolve=rep.nsolve, notes=sorted(rep.notes), axioms=sorted(rep.axioms),
                    callees=sorted(rep.callees), inlined=sorted(rep.inlined), canaries=rep.canary_status(),
                    global_reads=sorted(set(map(tuple, rep.global_reads))), writes=sorted(set(rep.writes_seen)),
                    entropy=rep.entropy, ghost=q in reg.ghosts, ok=rep.ok())
    except BaseException as e:
        return dict(qual=q, fault="%s: %s" % (type(e).__name__, e), tb=traceback.format_exc()[-3000:])


def run_functions(quals, nproc):
    if not quals:
        return {}
    ctx = mp.get_context("fork")
    with ctx.Pool(min(nproc, len(quals))) as pool:
        res = pool.map(_verify_worker, quals, chunksize=1)
    return {r["qual"]: r for r in res}


def main(argv=None):
    from .props import run_property
    argv = argv or sys.argv[1:]
    pid = argv[0]
    tier = os.environ.get("VERIF_TIER", "quick")
    if "--tier" in argv:
        tier = argv[argv.index("--tier") + 1]
    os.environ["VERIF_TIER"] = tier
    try:
        code = run_property(pid, tier)
    except SystemExit:
        raise
    except BaseException:
        traceback.print_exc()
        print("CHECKER-FAULT property=%s" % pid)
        code = 3
    sys.stdout.flush()
    os._exit(code)


if __name__ == "__main__":
    main()
