"""Spec vocabulary for the Ed25519 layer.  The curve group (E(F_Q), +) is abstract for z3 (sort EPt with
uninterpreted ed_add / ed_mul); the meaning of `ed_valid` / `ed_pt` on coordinate tuples is defined in Lean
(lean/SpakeTheory/Edwards.lean) and the clauses of the coordinate-level functions are discharged there."""
import z3
from . import sym
from .sym import IV
from .values import *

Q = 2 ** 255 - 19
L = 2 ** 252 + 27742317777372353535851937790883648493
D_RFC = (-121665 * pow(121666, Q - 2, Q)) % Q     # RFC 8032: d = -121665/121666 mod Q
# the library keeps d as an UNREDUCED (negative) integer; the curve equation below is written with the module's own
# value (read from the real module each run) so that z3 compares identical terms; a ground obligation of C18 checks
# d == D_RFC (mod Q).
D = [None]


def module_d(ip):
    if D[0] is None:
        v = ip.lookup_global("d", ip.repo.modules["ed25519_basic"])
        if not isinstance(v, int):
            raise Unsupported("ed25519_basic.d is not an int")
        D[0] = v
    return D[0]

EPt = z3.DeclareSort("EPt")
_I = sym.Int
f_valid = z3.Function("ed_valid", _I, _I, _I, _I, sym.Bool)
f_valid3 = z3.Function("ed_valid3", _I, _I, _I, sym.Bool)
f_pt = z3.Function("ed_pt", _I, _I, _I, EPt)
f_add = z3.Function("ed_add", EPt, EPt, EPt)
f_mul = z3.Function("ed_mul", _I, EPt, EPt)
f_neg = z3.Function("ed_neg", EPt, EPt)
f_aff = z3.Function("ed_aff", _I, _I, EPt)
f_x = z3.Function("ed_x", EPt, _I)
f_y = z3.Function("ed_y", EPt, _I)
f_insub = z3.Function("ed_insub", EPt, sym.Bool)
f_diffok = z3.Function("ed_diff_ok", EPt, EPt, sym.Bool)
c_O = z3.Const("ed_O", EPt)
c_B = z3.Const("ed_B", EPt)
# RFC 8032 base point (typed from the RFC, not read from the repository)
B_X = 15112221349535400772501151409588531511454012693041857206046113283949847762202
B_Y = 46316835694926478169428394003475163141307993866256225615783033603165251855960
AUTO_ENC_INJ = [True]
sym.RESET_HOOKS.append(lambda: AUTO_ENC_INJ.__setitem__(0, True))
f_xrec = z3.Function("ed_xrecover", _I, _I)
f_aed = z3.Function("ed_ae_from", _I, _I, EPt)      # try-and-increment: first good point at or after y+plus


def _voc(name, *args):
    """instance of a vocabulary schema of pyvc/theory.py (printed to Lean and proved there: pyvc/leanbridge.py)"""
    from . import theory
    return theory.instantiate(name, list(args))


def _pt4(t):
    if not (isinstance(t, tuple) and len(t) == 4):
        raise Unsupported("expected a 4-tuple of coordinates, got %r" % (t,))
    return [I(x) for x in t]


def _regpt(P):
    if sym.FACTS.reg("ept", P):
        sym.FACTS.add(_voc("voc_O_coords"), "T1:voc_O_coords")
        sym.FACTS.add(_voc("voc_coords_range", P), "T1:voc_coords_range")
    return P


def _concrete_tuple_facts(ip, X, Y, Z, T):
    """a tuple of NUMERALS (e.g. a hoisted constant such as (0,1,1,0)): its validity and its point follow from the definitions
    (schemas voc_valid_def, voc_valid3_def, voc_pt_affine - proved in Lean like every other schema); instantiated for numerals only"""
    if all(sym.as_const_int(v) is not None for v in (X, Y, Z, T)) and sym.FACTS.reg("edconcrete", X, Y, Z, T):
        module_d(ip)
        sym.FACTS.add(_voc("voc_valid_def", X, Y, Z, T), "T1:voc_valid_def")
        sym.FACTS.add(_voc("voc_valid3_def", X, Y, Z), "T1:voc_valid3_def")
        sym.FACTS.add(_voc("voc_pt_affine", X, Y, Z), "T1:voc_pt_affine")
        sym.FACTS.add(_voc("voc_aff_O"), "T1:voc_aff_O")


def ed_valid(ip, t):
    X, Y, Z, T = _pt4(t)
    v = f_valid(X, Y, Z, T)
    _concrete_tuple_facts(ip, X, Y, Z, T)
    if sym.FACTS.reg("edvalid", X, Y, Z, T):
        # valid => reduced coordinates and the T-free part
        sym.FACTS.add(_voc("voc_valid_reduced", X, Y, Z, T), "T1:voc_valid_reduced")
    return mkbool(v)


def ed_valid3(ip, t):
    X, Y, Z, T = _pt4(t)
    _concrete_tuple_facts(ip, X, Y, Z, T)
    return mkbool(f_valid3(X, Y, Z))


def ed_pt(ip, t):
    X, Y, Z, T = _pt4(t)
    _concrete_tuple_facts(ip, X, Y, Z, T)
    return SPoint(_regpt(f_pt(X, Y, Z)))


def ed_add(ip, a, b):
    return SPoint(_regpt(f_add(a.t, b.t)))


def ed_mul(ip, n, a):
    return SPoint(_regpt(f_mul(I(n), a.t)))


def ed_neg(ip, a):
    return SPoint(_regpt(f_neg(a.t)))


def ed_O(ip):
    return SPoint(c_O)


def ed_B(ip):
    sym.FACTS.add(_voc("voc_B_def"), "T1:voc_B_def")
    return SPoint(c_B)


def ed_point_facts(ip, P):
    """definitional facts about the sort EPt (= affine curve points with coordinates in [0,Q)): a point is on the curve and
    is determined by its coordinates"""
    t = P.t
    _regpt(t)
    sym.FACTS.add(_voc("voc_point_on_curve", t), "T1:voc_point_on_curve")
    sym.FACTS.add(_voc("voc_point_aff", t), "T1:voc_point_aff")
    return True


def ed_disable_auto_injectivity(ip):
    AUTO_ENC_INJ[0] = False
    return True


def ed_coords_determine_point(ip, P, R):
    """points are pairs of affine coordinates: equal coordinates, equal points (definitional)"""
    sym.FACTS.add(_voc("voc_point_ext", P.t, R.t), "T1:voc_point_ext")
    return True


def ed_aff(ip, x, y):
    sym.FACTS.add(_voc("voc_aff_O"), "T1:voc_aff_O")
    return SPoint(_regpt(f_aff(I(x), I(y))))


def ed_x(ip, P):
    return mkint(f_x(_regpt(P.t)))


def ed_y(ip, P):
    return mkint(f_y(_regpt(P.t)))


def ed_insub(ip, P):
    return mkbool(f_insub(P.t))


def ed_diff_ok(ip, P, R):
    return mkbool(f_diffok(P.t, R.t))


f_oncurve = z3.Function("ed_oncurve", _I, _I, sym.Bool)


def ed_oncurve(ip, x, y):
    """the affine curve equation -x^2 + y^2 = 1 + d x^2 y^2 (mod Q).  Opaque for z3 (its definition is only needed in
    Lean and in the proof of isoncurve itself); evaluated natively on numerals."""
    xc, yc = sym.as_const_int(I(x)), sym.as_const_int(I(y))
    if xc is not None and yc is not None:
        d = module_d(ip)
        return (-xc * xc + yc * yc - 1 - d * xc * xc * yc * yc) % Q == 0
    return mkbool(f_oncurve(I(x), I(y)))


def ed_oncurve_def(ip, x, y):
    """(-x^2 + y^2 - 1 - d x^2 y^2) mod Q == 0   -- the curve equation, literally"""
    x, y = I(x), I(y)
    return mkbool((-x * x + y * y - 1 - module_d(ip) * x * x * y * y) % Q == 0)


def ed_encode_xy(ip, x, y):
    """RFC 8032 point encoding: 32 bytes little-endian of y with the parity of x in bit 255"""
    v = I(y) + (2 ** 255) * (I(x) % 2)
    return SBytes(sym.brev(sym.mk_bytes(32, v)))


def ed_enc(ip, P):
    _regpt(P.t)
    t = ed_encode_xy(ip, mkint(f_x(P.t)), mkint(f_y(P.t))).t
    if sym.FACTS.reg("edenc", P.t):
        # the encoding of the identity (0,1), computed: le32(1)
        sym.FACTS.add(z3.Implies(P.t == c_O, t == sym.lit_bytes(b"\x01" + b"\x00" * 31)), "ed-enc-O (computed)")
        for (R,) in (sym.FACTS.items("edenc") if AUTO_ENC_INJ[0] else []):
            if not R.eq(P.t):
                # equal encodings (byte strings) have equal values y + 2^255*(x mod 2) by the T0 facts on mkb/rev; equal
                # values mean equal points by the Lean theorem behind the schema ed_enc_injective
                from . import theory as _th
                sym.FACTS.add(_th.instantiate("ed_enc_injective", [P.t, R]), "T1:ed_enc_injective")
    return SBytes(t)


def ed_xrecover(ip, y):
    t = f_xrec(I(y))
    sym.FACTS.add(z3.And(t >= 0, t < Q, t % 2 == 0), "ed-xrecover-range (consequence of the definition ed_xrecover := ed_xrecover_def, proved by lemma.ed_xrecover_def_range)")
    return mkint(t)


def ed_xrecover_def(ip, y):
    """RFC 8032 5.1.3 x-recovery for p = 5 mod 8, with the library's sign convention (even root)"""
    y = I(y)
    d = module_d(ip)
    Iv = ip.lookup_global("I", ip.repo.modules["ed25519_basic"])
    inv = lambda a: sym.POWMOD(a, IV(Q - 2), IV(Q))
    xx = (y * y - 1) * inv(d * y * y + 1)
    x = sym.POWMOD(xx, IV((Q + 3) // 8), IV(Q))
    x2 = z3.If((x * x - xx) % Q != 0, (x * Iv) % Q, x)
    x3 = z3.If(x2 % 2 != 0, Q - x2, x2)
    return mkint(x3)


def ed_Q(ip):
    return Q


def ed_L(ip):
    return L


def ed_view(ip, e):
    """the curve point an Ed25519 element object stands for"""
    return ed_pt(ip, ip.getattr(e, "XYTZ", True))


def ed_ae_from(ip, y, plus):
    """try-and-increment (C14): `first(c)` for the candidate c = (y+plus) mod Q, where first(c) = 8*P for P = (xrecover(c), c) if
    that pair is on the curve and 8*P is not the identity, else first((c+1) mod Q).  A recursive definition over ONE argument (the
    candidate), unfolded once per term: the same spec function serves every way of stepping through the candidates."""
    c = z3.simplify((I(y) + I(plus)) % Q)
    t = f_aed(c, IV(0))
    if sym.FACTS.reg("aed", c):
        x = f_xrec(c)
        on = Bo(ed_oncurve(ip, mkint(x), mkint(c)))
        P8 = f_mul(IV(8), f_aff(x, c))
        good = z3.And(on, P8 != c_O)
        nxt = z3.simplify((c + 1) % Q)
        sym.FACTS.add(t == z3.If(good, P8, f_aed(nxt, IV(0))), "ed-ae-unfold")
    return SPoint(t)


def ed_Bx(ip):
    return B_X


def ed_By(ip):
    return B_Y


def mk_ept(ip, label):
    return SPoint(_regpt(z3.Const(label, EPt)))
