"""Front end: reads the REAL source files of the repository working tree on every run."""
import ast, os, json, subprocess, hashlib

VERIF = os.path.dirname(os.path.dirname(os.path.abspath(__file__)))


def repo_root():
    return os.environ.get("VERIF_REPO", "/repo")


MODULES = {
    "util": "src/spake2/util.py",
    "groups": "src/spake2/groups.py",
    "params": "src/spake2/params.py",
    "ed25519_basic": "src/spake2/ed25519_basic.py",
    "ed25519_group": "src/spake2/ed25519_group.py",
    "spake2": "src/spake2/spake2.py",
    "parameters.ed25519": "src/spake2/parameters/ed25519.py",
    "parameters.i1024": "src/spake2/parameters/i1024.py",
    "parameters.i2048": "src/spake2/parameters/i2048.py",
    "parameters.i3072": "src/spake2/parameters/i3072.py",
    "parameters.all": "src/spake2/parameters/all.py",
}
PYMOD = {k: "spake2." + k for k in MODULES}


class FunctionInfo:
    def __init__(self, module, qual, node, cls=None):
        self.module, self.qual, self.node, self.cls = module, qual, node, cls
        self.name = node.name
        self.is_classmethod = any(isinstance(d, ast.Name) and d.id == "classmethod" for d in node.decorator_list)
        self.is_staticmethod = any(isinstance(d, ast.Name) and d.id == "staticmethod" for d in node.decorator_list)
        self.other_decorators = [d for d in node.decorator_list
                                 if not (isinstance(d, ast.Name) and d.id in ("classmethod", "staticmethod"))]

    def __repr__(self):
        return "<fn %s>" % self.qual

    def params(self):
        a = self.node.args
        return [x.arg for x in a.posonlyargs + a.args]

    def defaults(self):
        a = self.node.args
        names = [x.arg for x in a.posonlyargs + a.args]
        d = a.defaults
        return dict(zip(names[len(names) - len(d):], d))


class ClassInfo:
    def __init__(self, module, name, node):
        self.module, self.name, self.node = module, name, node
        self.qual = module.name + "." + name
        self.methods = {}
        self.attrs = {}      # class-level assignments: name -> ast expr
        self.base_names = []
        for b in node.bases:
            if isinstance(b, ast.Name):
                self.base_names.append(b.id)
            elif isinstance(b, ast.Attribute):
                self.base_names.append(ast.unparse(b))
        for st in node.body:
            if isinstance(st, ast.FunctionDef):
                self.methods[st.name] = FunctionInfo(module, self.qual + "." + st.name, st, self)
            elif isinstance(st, ast.Assign) and len(st.targets) == 1 and isinstance(st.targets[0], ast.Name):
                self.attrs[st.targets[0].id] = st.value

    def __repr__(self):
        return "<class %s>" % self.qual


class ModuleInfo:
    def __init__(self, name, path, src):
        self.name, self.path, self.src = name, path, src
        self.tree = ast.parse(src, filename=path)
        self.functions, self.classes, self.assigns, self.imports = {}, {}, {}, {}
        self.assign_counts = {}
        for st in self.tree.body:
            if isinstance(st, ast.FunctionDef):
                self.functions[st.name] = FunctionInfo(self, name + "." + st.name, st)
            elif isinstance(st, ast.ClassDef):
                self.classes[st.name] = ClassInfo(self, st.name, st)
            elif isinstance(st, ast.Assign):
                for t in st.targets:
                    if isinstance(t, ast.Name):
                        self.assigns[t.id] = st.value
                        self.assign_counts[t.id] = self.assign_counts.get(t.id, 0) + 1
            elif isinstance(st, ast.Import):
                for a in st.names:
                    self.imports[a.asname or a.name.split(".")[0]] = ("module", a.name)
            elif isinstance(st, ast.ImportFrom):
                for a in st.names:
                    self.imports[a.asname or a.name] = ("from", st.module, st.level, a.name)


class Repo:
    def __init__(self):
        self.root = repo_root()
        self.modules = {}
        self.hash = hashlib.sha256()
        for name, rel in MODULES.items():
            p = os.path.join(self.root, rel)
            with open(p) as f:
                src = f.read()
            self.hash.update(src.encode())
            self.modules[name] = ModuleInfo(name, p, src)
        self.source_hash = self.hash.hexdigest()

    def find_function(self, qual):
        """qual like 'util.size_bits' or 'groups.IntegerGroup._add' or 'parameters.ed25519.x'"""
        parts = qual.split(".")
        for i in range(len(parts), 0, -1):
            mn = ".".join(parts[:i])
            if mn in self.modules:
                m = self.modules[mn]
                rest = parts[i:]
                if len(rest) == 1:
                    return m.functions.get(rest[0])
                if len(rest) == 2 and rest[0] in m.classes:
                    return self.lookup_method(m.classes[rest[0]], rest[1])
        return None

    def find_class(self, qual):
        parts = qual.split(".")
        mn, cn = ".".join(parts[:-1]), parts[-1]
        m = self.modules.get(mn)
        return m.classes.get(cn) if m else None

    def resolve_module(self, cur, modname, level):
        """resolve a relative import from module `cur` to one of ours, else None"""
        if level == 0:
            if modname and modname.startswith("spake2."):
                return modname[len("spake2."):]
            return None
        pkg = cur.name.split(".")[:-1]          # package path of current module inside spake2
        up = level - 1
        if up > len(pkg):
            return None
        base = pkg[:len(pkg) - up]
        full = ".".join(base + ([modname] if modname else []))
        return full

    def bases(self, cinfo):
        out = []
        for bn in cinfo.base_names:
            b = self.lookup_class_name(cinfo.module, bn)
            out.append(b if b is not None else bn)
        return out

    def lookup_class_name(self, module, name):
        if name in module.classes:
            return module.classes[name]
        imp = module.imports.get(name)
        if imp and imp[0] == "from":
            target = self.resolve_module(module, imp[1], imp[2])
            if target in self.modules:
                return self.lookup_class_name(self.modules[target], imp[3])
        return None

    def mro(self, cinfo):
        out = [cinfo]
        for b in self.bases(cinfo):
            if isinstance(b, ClassInfo):
                for x in self.mro(b):
                    if x not in out:
                        out.append(x)
            else:
                if b not in out:
                    out.append(b)
        return out

    def lookup_method(self, cinfo, name):
        for c in self.mro(cinfo):
            if isinstance(c, ClassInfo) and name in c.methods:
                return c.methods[name]
        return None

    def lookup_class_attr(self, cinfo, name):
        for c in self.mro(cinfo):
            if isinstance(c, ClassInfo) and name in c.attrs:
                return c, c.attrs[name]
        return None

    def is_subclass(self, cinfo, other):
        """other: ClassInfo or builtin class name"""
        for c in self.mro(cinfo):
            if c is other or (isinstance(c, str) and isinstance(other, str) and c == other):
                return True
            if isinstance(c, ClassInfo) and isinstance(other, ClassInfo) and c.qual == other.qual:
                return True
        return False

    def all_functions(self):
        for m in self.modules.values():
            for f in m.functions.values():
                yield f
            for c in m.classes.values():
                for f in c.methods.values():
                    yield f


class Oracle:
    """Client for the ground evaluator running the real code under /venv/bin/python."""

    def __init__(self):
        self.calls = 0
        self.timeouts = 0
        self._start()

    def _start(self):
        env = dict(os.environ)
        env["VERIF_REPO"] = repo_root()
        env["PYTHONPATH"] = os.path.join(repo_root(), "src")
        env["PYTHONDONTWRITEBYTECODE"] = "1"
        self.p = subprocess.Popen([os.environ.get("VERIF_PY", "/venv/bin/python"),
                                   os.path.join(VERIF, "oracle", "oracle.py")],
                                  stdin=subprocess.PIPE, stdout=subprocess.PIPE, text=True, env=env)

    def req(self, _timeout=None, **kw):
        """one request / one answer.  The real code may not terminate (an edit can introduce an unbounded loop): after
        `_timeout` seconds (default 300, VERIF_ORACLE_TIMEOUT) the evaluator is killed and restarted and the answer is
        {"ok": False, "timeout": True} - never a verdict by itself."""
        import select
        self.calls += 1
        limit = float(_timeout or os.environ.get("VERIF_ORACLE_TIMEOUT", "300"))
        self.p.stdin.write(json.dumps(kw) + "\n")
        self.p.stdin.flush()
        rd, _, _ = select.select([self.p.stdout], [], [], limit)
        if not rd:
            self.timeouts += 1
            self.p.kill()
            try:
                self.p.wait(timeout=5)
            except Exception:
                pass
            self._start()
            return {"ok": False, "timeout": True, "error": "the real code did not return within %.0f s (request %s)" % (limit, kw.get("op"))}
        line = self.p.stdout.readline()
        if not line:
            raise RuntimeError("oracle died")
        return json.loads(line)

    def close(self):
        try:
            self.p.stdin.close()
            self.p.wait(timeout=5)
        except Exception:
            self.p.kill()

    @staticmethod
    def enc(v):
        if v is None or isinstance(v, bool):
            return v
        if isinstance(v, int):
            return {"i": str(v)}
        if isinstance(v, bytes):
            return {"b": v.hex()}
        if isinstance(v, str):
            return {"s": v}
        if isinstance(v, list):
            return {"l": [Oracle.enc(x) for x in v]}
        if isinstance(v, tuple):
            return {"t": [Oracle.enc(x) for x in v]}
        if isinstance(v, dict):
            return {"d": {k: Oracle.enc(x) for k, x in v.items()}}
        if isinstance(v, PyExpr):
            return {"py": v.src}
        raise ValueError("cannot encode %r" % (v,))

    @staticmethod
    def dec(v):
        if v is None or isinstance(v, bool):
            return v
        if "i" in v:
            return int(v["i"])
        if "b" in v:
            return bytes.fromhex(v["b"])
        if "s" in v:
            return v["s"]
        if "l" in v:
            return [Oracle.dec(x) for x in v["l"]]
        if "t" in v:
            return tuple(Oracle.dec(x) for x in v["t"])
        if "d" in v:
            return {k: Oracle.dec(x) for k, x in v["d"].items()}
        if "fl" in v:
            return float(v["fl"])
        return v   # objects stay as dict descriptions


class PyExpr:
    def __init__(self, src):
        self.src = src


_ORACLE = None


def oracle():
    global _ORACLE
    if _ORACLE is None:
        _ORACLE = Oracle()
    return _ORACLE
