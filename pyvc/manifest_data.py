"""Texts for MANIFEST.json (what is claimed per property)."""
Z3 = "contracts on the real functions + VC generation from the real AST, every obligation discharged by z3 (unsat), function by function"
CLAIMED = {
 "C17": dict(technique="deductive: contracts on finalize_SPAKE2/_symmetric (result == spec transcript) + z3 lemmas (swap invariance, field binding) over the contracts",
             text="For all byte strings: the two finalize functions are proved equal to the specified SHA-256 transcript terms (symbolic execution of the real bodies, z3), the symmetric form is proved swap-invariant, and for equal message widths equal keys are proved to force equal arguments field by field (length-value byte model, injectivity of concatenation).",
             note="M-sha: SHA-256 modelled as an injective uninterpreted function (collision resistance is not a theorem); T0 model of bytes/join/sorted/hashlib."),
 "C06": dict(technique="deductive: raise-iff contracts on finish()/_extract_message for the three classes over the abstract group interface, z3",
             text="For a symbolic inbound message (all side bytes, the empty message, every length) and symbolic session state, finish() of each of the three classes is proved to raise OffSides / AssertionError exactly under the specified side conditions and ReflectionThwarted exactly when the decoded peer element re-encodes to the instance's own outbound message; it returns a key only for the expected peer side. Restored instances are covered through the representation invariant that from_serialized() is proved to establish.",
             note="Session code is verified against the abstract GroupSpec interface contract (any prime-order group satisfying the interface laws); A-noO (SPAKE2_Symmetric's unknown-side guard is an assert)."),
 "C07": dict(technique="deductive: object invariant + monotone-flag/raise-iff clauses proved for every public method on every exit (normal and exceptional), z3",
             text="Call histories are handled by an inductive object invariant instead of enumeration: for each class, __init__/from_serialized establish it and start/finish/serialize preserve it on every normal and exceptional exit; start returns only if it was never entered before, finish only if never entered before, flags are monotone, the scalar never changes once set, serialize before start raises SerializedTooEarly, finish before start raises. Unbounded in history length.",
             note="The final induction over the history is a short meta-argument over the proved clauses (written in DESIGN.md), not mechanised; A-entropy (entropy function does not raise)."),
}
NOT_APPLICABLE = {}
