"""Symbolic meaning of the spec vocabulary used in contracts (`spec.*`).  Each function has a concrete twin
in /verif/spec/concrete.py (same name, plain Python) used by the replay harness."""
import z3
from . import sym
from .sym import IV
from .values import *


def bl(ip, n):
    return mkint(sym.BL(I(n)))


def p2(ip, k):
    return mkint(sym.P2(I(k)))


def p256(ip, k):
    return mkint(sym.P256(I(k)))


def size_bits(ip, m):
    b = sym.BL(I(m))
    return mkint(z3.If(b == 0, IV(1), b))


def size_bytes(ip, m):
    b = I(size_bits(ip, m))
    return mkint((b + 7) / 8)


def be(ip, b):
    """big-endian value of a byte string"""
    if isinstance(b, SByteList):
        return mkint(sym.bval(b.t))
    return mkint(sym.bval(Bt(b)))


def le(ip, b):
    """little-endian value"""
    return mkint(sym.bval(sym.brev(Bt(b))))


def rev(ip, b):
    return SBytes(sym.brev(Bt(b)))


def blen(ip, b):
    if isinstance(b, SByteList):
        return mkint(sym.blen(b.t))
    return mkint(sym.blen(Bt(b)))


def mkbytes(ip, l, v):
    return SBytes(sym.mk_bytes(I(l), I(v)))


def sha256(ip, b):
    return SBytes(sym.SHA(Bt(b)))


def hkdf(ip, ikm, salt, info, n):
    return SBytes(sym.HKDF(Bt(ikm), Bt(salt), Bt(info), n if isinstance(n, int) else I(n)))


def cat(ip, *parts):
    return SBytes(sym.concat_many([Bt(p) for p in parts]))


def hexl(ip, b):
    return SStr(sym.HEXL(Bt(b)))


def powmod(ip, x, e, m):
    return mkint(sym.POWMOD(I(x), I(e), I(m)))


def bmin(ip, a, b):
    lt = sym.BLT(Bt(b), Bt(a))
    return SBytes(z3.If(lt, Bt(b), Bt(a)))


def bmax(ip, a, b):
    lt = sym.BLT(Bt(b), Bt(a))
    return SBytes(z3.If(lt, Bt(a), Bt(b)))


def head(ip, b):
    t = b.t if isinstance(b, SByteList) else Bt(b)
    return mkint(sym.HEAD(t))


def ent(ip, e, k, n):
    """k-th answer of entropy function e when asked for n bytes"""
    return SBytes(sym.ENT(IV(e.stream), I(k), n if isinstance(n, int) else I(n)))
