"""Symbolic meaning of the spec vocabulary used in contracts (`spec.*`).  Each function has a concrete twin
in /verif/spec/concrete.py (same name, plain Python) used by the replay harness."""
import z3
from . import sym
from .sym import IV
from .values import *


def bl(ip, n):
    return mkint(sym.BL(I(n)))


def p2(ip, k):
    return mkint(sym.P2(I(k)))


def p256(ip, k):
    return mkint(sym.P256(I(k)))


def size_bits(ip, m):
    b = sym.BL(I(m))
    return mkint(z3.If(b == 0, IV(1), b))


def size_bytes(ip, m):
    b = I(size_bits(ip, m))
    return mkint((b + 7) / 8)


def be(ip, b):
    """big-endian value of a byte string"""
    t = b.t if isinstance(b, SByteList) else Bt(b)
    sym.wf_upper(t)
    return mkint(sym.bval(t))


def le(ip, b):
    """little-endian value"""
    return mkint(sym.bval(sym.brev(Bt(b))))


def rev(ip, b):
    return SBytes(sym.brev(Bt(b)))


def blen(ip, b):
    if isinstance(b, SByteList):
        return mkint(sym.blen(b.t))
    return mkint(sym.blen(Bt(b)))


def mkbytes(ip, l, v):
    return SBytes(sym.mk_bytes(I(l), I(v)))


def sha256(ip, b):
    return SBytes(sym.SHA(Bt(b)))


def hkdf(ip, ikm, salt, info, n):
    return SBytes(sym.HKDF(Bt(ikm), Bt(salt), Bt(info), n if isinstance(n, int) else I(n)))


def cat(ip, *parts):
    return SBytes(sym.concat_many([Bt(p) for p in parts]))


def hexl(ip, b):
    return SStr(sym.HEXL(Bt(b)))


def powmod(ip, x, e, m):
    return mkint(sym.POWMOD(I(x), I(e), I(m)))


def bmin(ip, a, b):
    lt = sym.BLT(Bt(b), Bt(a))
    return SBytes(z3.If(lt, Bt(b), Bt(a)))


def bmax(ip, a, b):
    lt = sym.BLT(Bt(b), Bt(a))
    return SBytes(z3.If(lt, Bt(a), Bt(b)))


def head(ip, b):
    t = b.t if isinstance(b, SByteList) else Bt(b)
    return mkint(sym.HEAD(t))


def ent(ip, e, k, n):
    """k-th answer of entropy function e when asked for n bytes"""
    return SBytes(sym.ENT(IV(e.stream), I(k), n if isinstance(n, int) else I(n)))


# ======================================================================================================
# Abstract prime-order group interface (GroupSpec).  `Elt` is an uninterpreted sort; every function takes
# the ghost id of the group object.  The facts instantiated here are the INTERFACE LAWS (ILAW-*): they are
# what the two refinements (IntegerGroup for symbolic p,q,g; Ed25519) have to establish, see
# contracts/groupspec.py and DESIGN.md section 7.
# ======================================================================================================
Elt = z3.DeclareSort("Elt")
_I, _B, _Bo = sym.Int, sym.B, sym.Bool
f_gadd = z3.Function("gadd", _I, Elt, Elt, Elt)
f_gmul = z3.Function("gmul", _I, _I, Elt, Elt)
f_enc = z3.Function("enc", _I, Elt, _B)
f_dec = z3.Function("dec", _I, _B, Elt)
f_decodable = z3.Function("decodable", _I, _B, _Bo)
f_insub = z3.Function("insub", _I, Elt, _Bo)
f_G = z3.Function("G", _I, Elt)
f_O = z3.Function("O", _I, Elt)
f_q = z3.Function("q", _I, _I)
f_esize = z3.Function("esize", _I, _I)
f_ssize = z3.Function("ssize", _I, _I)
f_refid = z3.Function("refid", _I, _Bo)
f_p2s = z3.Function("p2s", _I, _B, _I)
f_ae = z3.Function("ae", _I, _B, Elt)
f_ae_ok = z3.Function("ae_ok", _I, _B, _Bo)
f_s2b = z3.Function("s2b", _I, _I, _B)
f_b2s = z3.Function("b2s", _I, _B, _I)
f_b2s_ok = z3.Function("b2s_ok", _I, _B, _Bo)
f_rs = z3.Function("rs", _I, _I, _I, _I)


def _gid(ip, g):
    """ghost id of an abstract group object"""
    ho = ip.ctx.obj(g)
    if "gid" not in ho.ghost:
        t = z3.Int("gid.%s" % (ho.label or ho.oid))
        ho.ghost["gid"] = SInt(t)
        F = sym.FACTS
        F.add(f_q(t) >= 2, "ILAW-q")
        F.add(f_esize(t) >= 1, "ILAW-size")
        F.add(f_ssize(t) >= 1, "ILAW-size")
        F.add(f_insub(t, f_G(t)), "ILAW-closure")
        F.add(f_insub(t, f_O(t)), "ILAW-closure")
    return ho.ghost["gid"].t


def is_abstract_group(ip, g):
    return isinstance(g, SObj) and ip.ctx.obj(g).clsname() == "GroupSpec"


def is_ed_group(ip, g):
    return isinstance(g, SObj) and ip.ctx.obj(g).clsname() == "ed25519_group._Ed25519Group"


f_ed_decodable = z3.Function("ed_decodable", sym.B, sym.Bool)


def _reg_elt(gid, a):
    """facts for an element term in group gid"""
    if sym.FACTS.reg("elt", gid, a):
        pass
    return a


def view(ip, e):
    """mathematical value of an element object"""
    if ip.ctx.obj(e).clsname().startswith("ed25519_basic."):
        from . import spec_ed
        return spec_ed.ed_view(ip, e)
    return ip.getattr(e, "_v", True)


def mk_elt(ip, label):
    return SPoint(z3.Const(label, Elt))


def group_of(ip, e):
    if ip.ctx.obj(e).clsname().startswith("ed25519_basic."):
        return ip.lookup_global("Ed25519Group", ip.repo.modules["ed25519_group"])
    return ip.getattr(e, "_g", True)


def gq(ip, g):
    if is_ed_group(ip, g):
        return spec_ed.L
    if is_abstract_group(ip, g):
        return mkint(f_q(_gid(ip, g)))
    return ip.getattr(g, "q", True)


def esize(ip, g):
    if is_ed_group(ip, g):
        return 32
    if is_abstract_group(ip, g):
        return mkint(f_esize(_gid(ip, g)))
    return ip.getattr(g, "element_size_bytes", True)


def ssize(ip, g):
    if is_ed_group(ip, g):
        return 32
    if is_abstract_group(ip, g):
        return mkint(f_ssize(_gid(ip, g)))
    return ip.getattr(g, "scalar_size_bytes", True)


def refuses_identity(ip, g):
    if is_ed_group(ip, g):
        return True
    if is_abstract_group(ip, g):
        return mkbool(f_refid(_gid(ip, g)))
    return False


def G(ip, g):
    if is_ed_group(ip, g):
        return spec_ed.ed_B(ip)
    if is_abstract_group(ip, g):
        return SPoint(f_G(_gid(ip, g)))
    return view(ip, ip.getattr(g, "Base", True))


def O(ip, g):
    if is_ed_group(ip, g):
        return spec_ed.ed_O(ip)
    if is_abstract_group(ip, g):
        return SPoint(f_O(_gid(ip, g)))
    return 1


def insub(ip, g, a):
    if is_ed_group(ip, g):
        return spec_ed.ed_insub(ip, a)
    if is_abstract_group(ip, g):
        return mkbool(f_insub(_gid(ip, g), a.t))
    p, q = ip.getattr(g, "p", True), ip.getattr(g, "q", True)
    return mkbool(z3.And(I(a) > 0, I(a) < I(p), sym.POWMOD(I(a), I(q), I(p)) == 1))


def gadd(ip, g, a, b):
    if is_ed_group(ip, g):
        return spec_ed.ed_add(ip, a, b)
    if is_abstract_group(ip, g):
        gid = _gid(ip, g)
        t = f_gadd(gid, a.t, b.t)
        if sym.FACTS.reg("gadd", gid, a.t, b.t):
            sym.FACTS.add(z3.Implies(z3.And(f_insub(gid, a.t), f_insub(gid, b.t)), f_insub(gid, t)), "ILAW-closure")
        return SPoint(t)
    p = ip.getattr(g, "p", True)
    return mkint((I(a) * I(b)) % I(p))


def gmul(ip, g, n, a):
    if is_ed_group(ip, g):
        return spec_ed.ed_mul(ip, n, a)
    if is_abstract_group(ip, g):
        gid = _gid(ip, g)
        t = f_gmul(gid, I(n), a.t)
        if sym.FACTS.reg("gmul", gid, I(n), a.t):
            sym.FACTS.add(z3.Implies(f_insub(gid, a.t), f_insub(gid, t)), "ILAW-closure")
        return SPoint(t)
    p, q = ip.getattr(g, "p", True), ip.getattr(g, "q", True)
    return mkint(sym.POWMOD(I(a), I(n) % I(q), I(p)))


def enc(ip, g, a):
    if is_ed_group(ip, g):
        return spec_ed.ed_enc(ip, a)
    if is_abstract_group(ip, g):
        gid = _gid(ip, g)
        t = f_enc(gid, a.t)
        F = sym.FACTS
        if F.reg("enc", gid, a.t):
            sym.regb(t)
            F.add(z3.Implies(f_insub(gid, a.t), sym.blen(t) == f_esize(gid)), "ILAW-enc-len")
            F.add(z3.Implies(z3.And(f_insub(gid, a.t), z3.Or(z3.Not(f_refid(gid)), a.t != f_O(gid))),
                             z3.And(f_decodable(gid, t), f_dec(gid, t) == a.t)), "ILAW-dec-enc")
            for (g2, b) in F.items("enc"):
                if g2.eq(gid) and not b.eq(a.t):
                    F.add(z3.Implies(z3.And(f_insub(gid, a.t), f_insub(gid, b), t == f_enc(gid, b)), a.t == b), "ILAW-enc-inj")
        return SBytes(t)
    p = ip.getattr(g, "p", True)
    return SBytes(sym.mk_bytes(I(size_bytes(ip, p)), I(a)))


def decodable(ip, g, b):
    if is_ed_group(ip, g):
        return ed_decodable(ip, b)
    if is_abstract_group(ip, g):
        gid = _gid(ip, g)
        bt = Bt(b)
        F = sym.FACTS
        if F.reg("dec", gid, bt):
            d = f_dec(gid, bt)
            F.add(z3.Implies(f_decodable(gid, bt),
                             z3.And(sym.blen(bt) == f_esize(gid), f_insub(gid, d),
                                    z3.Implies(f_refid(gid), d != f_O(gid)))), "ILAW-dec-strict")
            e = enc(ip, g, SPoint(d))
            F.add(z3.Implies(f_decodable(gid, bt), e.t == bt), "ILAW-enc-dec")
        return mkbool(f_decodable(gid, bt))
    p = ip.getattr(g, "p", True)
    v = sym.bval(Bt(b))
    return mkbool(z3.And(sym.blen(Bt(b)) == I(size_bytes(ip, p)), Bo(insub(ip, g, mkint(v)))))


def dec(ip, g, b):
    if is_ed_group(ip, g):
        ed_decodable(ip, b)
        return SPoint(f_ed_dec(Bt(b)))
    if is_abstract_group(ip, g):
        decodable(ip, g, b)
        return SPoint(f_dec(_gid(ip, g), Bt(b)))
    return mkint(sym.bval(Bt(b)))


def p2s(ip, g, pw):
    if is_ed_group(ip, g):
        return p2s_def(ip, pw, 32, spec_ed.L)
    if is_abstract_group(ip, g):
        gid = _gid(ip, g)
        t = f_p2s(gid, Bt(pw))
        sym.FACTS.add(z3.And(t >= 0, t < f_q(gid)), "ILAW-p2s-range")
        return mkint(t)
    q, ss = ip.getattr(g, "q", True), ip.getattr(g, "scalar_size_bytes", True)
    return p2s_def(ip, pw, ss, q)


def p2s_def(ip, pw, ss, q):
    """C14: big-endian integer of HKDF-SHA256(pw, salt='', info='SPAKE2 pw', ss+16 bytes) reduced mod q"""
    h = sym.HKDF(Bt(pw), sym.lit_bytes(b""), sym.lit_bytes(b"SPAKE2 pw"), I(ss) + 16 if not isinstance(ss, int) else ss + 16)
    return mkint(sym.bval(h) % I(q))


def ae(ip, g, seed):
    if is_ed_group(ip, g):
        return ed_ae(ip, seed)
    if is_abstract_group(ip, g):
        gid = _gid(ip, g)
        t = f_ae(gid, Bt(seed))
        sym.FACTS.add(z3.Implies(f_ae_ok(gid, Bt(seed)), f_insub(gid, t)), "ILAW-ae-insub")
        return SPoint(t)
    p, q, es = ip.getattr(g, "p", True), ip.getattr(g, "q", True), ip.getattr(g, "element_size_bytes", True)
    h = sym.HKDF(Bt(seed), sym.lit_bytes(b""), sym.lit_bytes(b"SPAKE2 arbitrary element"), I(es))
    return mkint(sym.POWMOD(sym.bval(h) % I(p), (I(p) - 1) / I(q), I(p)))


def ae_ok(ip, g, seed):
    if is_ed_group(ip, g):
        return True       # try-and-increment never gives up (termination is not proved)
    if is_abstract_group(ip, g):
        return mkbool(f_ae_ok(_gid(ip, g), Bt(seed)))
    p, q, es = ip.getattr(g, "p", True), ip.getattr(g, "q", True), ip.getattr(g, "element_size_bytes", True)
    h = sym.HKDF(Bt(seed), sym.lit_bytes(b""), sym.lit_bytes(b"SPAKE2 arbitrary element"), I(es))
    hh = sym.bval(h) % I(p)
    return mkbool(z3.And(hh != 0, sym.POWMOD(hh, (I(p) - 1) / I(q), I(p)) != 1))


def s2b(ip, g, i):
    if is_ed_group(ip, g):
        return SBytes(sym.brev(sym.mk_bytes(32, I(i) % spec_ed.L)))
    if is_abstract_group(ip, g):
        gid = _gid(ip, g)
        t = f_s2b(gid, I(i))
        F = sym.FACTS
        if F.reg("s2b", gid, I(i)):
            sym.regb(t)
            F.add(z3.Implies(z3.And(I(i) >= 0, I(i) < f_q(gid)),
                             z3.And(sym.blen(t) == f_ssize(gid), f_b2s_ok(gid, t), f_b2s(gid, t) == I(i))), "ILAW-scalar-roundtrip")
        return SBytes(t)
    q = ip.getattr(g, "q", True)
    return SBytes(sym.mk_bytes(I(size_bytes(ip, q)), I(i)))


def b2s_ok(ip, g, b):
    if is_ed_group(ip, g):
        return mkbool(sym.blen(Bt(b)) == 32)
    if is_abstract_group(ip, g):
        gid = _gid(ip, g)
        sym.FACTS.add(z3.Implies(f_b2s_ok(gid, Bt(b)), sym.blen(Bt(b)) == f_ssize(gid)), "ILAW-b2s-len")
        return mkbool(f_b2s_ok(gid, Bt(b)))
    q = ip.getattr(g, "q", True)
    ss = ip.getattr(g, "scalar_size_bytes", True)
    return mkbool(z3.And(sym.blen(Bt(b)) == I(ss), sym.bval(Bt(b)) < I(q)))


def b2s(ip, g, b):
    if is_ed_group(ip, g):
        t = sym.brev(Bt(b))
        sym.wf_upper(t)
        return mkint(sym.bval(t))
    if is_abstract_group(ip, g):
        return mkint(f_b2s(_gid(ip, g), Bt(b)))
    return mkint(sym.bval(Bt(b)))


def rs(ip, g, e, k):
    """the scalar group g draws from entropy function e starting at ghost position k"""
    if is_abstract_group(ip, g):
        gid = _gid(ip, g)
        t = f_rs(gid, IV(e.stream), I(k))
        return mkint(t)
    if is_ed_group(ip, g):
        return mkint(sym.bval(sym.ENT(IV(e.stream), I(k), 64)) % spec_ed.L)
    q = ip.getattr(g, "q", True)
    return rr(ip, q, e, k)


# ---- protocol-level vocabulary (written from the statements of C03/C10/C17, not from the code) -----------
def side(ip, s):
    cn = ip.ctx.obj(s).clsname() if isinstance(s, SObj) else s.cinfo.qual
    return {"spake2.SPAKE2_A": b"A", "spake2.SPAKE2_B": b"B", "spake2.SPAKE2_Symmetric": b"S"}[cn]


def _role(ip, s):
    cn = ip.ctx.obj(s).clsname() if isinstance(s, SObj) else s.cinfo.qual
    return cn.split("_")[-1][0]     # 'A', 'B', 'S'


def blind(ip, s, params=None):
    """the blinding element of the role: M for A, N for B, S for symmetric"""
    params = params if params is not None else ip.getattr(s, "params", True)
    return view(ip, ip.getattr(params, {"A": "M", "B": "N", "S": "S"}[_role(ip, s)], True))


def unblind(ip, s, params=None):
    params = params if params is not None else ip.getattr(s, "params", True)
    return view(ip, ip.getattr(params, {"A": "N", "B": "M", "S": "S"}[_role(ip, s)], True))


def transcript_asym(ip, pw, idA, idB, X, Y, K):
    return SBytes(sym.SHA(sym.concat_many([sym.SHA(Bt(pw)), sym.SHA(Bt(idA)), sym.SHA(Bt(idB)), Bt(X), Bt(Y), Bt(K)])))


def transcript_sym(ip, pw, idS, m1, m2, K):
    lo, hi = bmin(ip, m1, m2), bmax(ip, m1, m2)
    return SBytes(sym.SHA(sym.concat_many([sym.SHA(Bt(pw)), sym.SHA(Bt(idS)), lo.t, hi.t, Bt(K)])))


def msg_elem(ip, s, x):
    """x*G + w*blind  (C03): the element sent by start()"""
    params = ip.getattr(s, "params", True)
    g = ip.getattr(params, "group", True)
    w = ip.getattr(s, "pw_scalar", True)
    return gadd(ip, g, gmul(ip, g, x, G(ip, g)), gmul(ip, g, w, blind(ip, s)))


def key_elem(ip, s, x, peer):
    """x*(peer - w*unblind)  (C03)"""
    params = ip.getattr(s, "params", True)
    g = ip.getattr(params, "group", True)
    w = ip.getattr(s, "pw_scalar", True)
    return gmul(ip, g, x, gadd(ip, g, peer, gmul(ip, g, mkint(-I(w)), unblind(ip, s))))


def session_key(ip, s, peer_msg):
    """key returned by finish() for the (side-stripped) peer message, from the C03 statement"""
    params = ip.getattr(s, "params", True)
    g = ip.getattr(params, "group", True)
    x = ip.getattr(s, "xy_scalar", True)
    out = ip.getattr(s, "outbound_message", True)
    pw = ip.getattr(s, "pw", True)
    K = enc(ip, g, key_elem(ip, s, x, dec(ip, g, peer_msg)))
    r = _role(ip, s)
    if r == "A":
        return transcript_asym(ip, pw, ip.getattr(s, "idA", True), ip.getattr(s, "idB", True), out, peer_msg, K)
    if r == "B":
        return transcript_asym(ip, pw, ip.getattr(s, "idA", True), ip.getattr(s, "idB", True), peer_msg, out, K)
    return transcript_sym(ip, pw, ip.getattr(s, "idSymmetric", True), peer_msg, out, K)


def fingerprint(ip, role_of, params):
    """hashed_params (C10): SHA256(arbitrary_element('') || scalar(password_to_scalar('')) || M || N)  (sym: ... || S), hex"""
    g = ip.getattr(params, "group", True)
    pieces = [enc(ip, g, ae(ip, g, b"")).t, s2b(ip, g, p2s(ip, g, b"")).t]
    if _role(ip, role_of) == "S":
        pieces.append(enc(ip, g, view(ip, ip.getattr(params, "S", True))).t)
    else:
        pieces.append(enc(ip, g, view(ip, ip.getattr(params, "M", True))).t)
        pieces.append(enc(ip, g, view(ip, ip.getattr(params, "N", True))).t)
    return SStr(sym.HEXL(sym.SHA(sym.concat_many(pieces))))


def state_dict(ip, s):
    """the persisted state of session s in the released format (C10)"""
    params = ip.getattr(s, "params", True)
    g = ip.getattr(params, "group", True)
    d = {"hashed_params": fingerprint(ip, s, params),
         "side": side(ip, s).decode("ascii"),
         "password": hexl(ip, ip.getattr(s, "pw", True)),
         "xy_scalar": hexl(ip, s2b(ip, g, ip.getattr(s, "xy_scalar", True)))}
    if _role(ip, s) == "S":
        d["idS"] = hexl(ip, ip.getattr(s, "idSymmetric", True))
    else:
        d["idA"] = hexl(ip, ip.getattr(s, "idA", True))
        d["idB"] = hexl(ip, ip.getattr(s, "idB", True))
    return d


def json_dict(ip, v):
    if isinstance(v, SOpaque) and v.kind in ("jsonbytes", "jsontext"):
        return dict(v.data)
    raise Unsupported("json_dict of %r" % (v,))


def is_json_bytes(ip, v):
    return isinstance(v, SOpaque) and v.kind == "jsonbytes"


def unhex(ip, s):
    return SBytes(sym.UNHEX(St(s)))


def ascii_bytes(ip, s):
    return SBytes(St(s))


def entropy_forbidden(ip, e):
    """does calling e raise (instead of returning bytes)?"""
    if isinstance(e, SEntropy):
        return e.forbidden
    if isinstance(e, SFunc):
        try:
            ip.call(e, [SInt(sym.fresh("n"))], {})
        except Raise:
            return True
        return False
    raise Unsupported("entropy_forbidden(%r)" % (e,))


def same_obj(ip, a, b):
    return ip.identical(a, b)


def entropy_calls(ip):
    """number of entropy draws made so far on this path (direct calls or callee consumption)"""
    return len(ip.ctx.entropy_log)


def entropy_only_via(ip, callee):
    return all(str(n) == "callee:" + callee for _, n in ip.ctx.entropy_log)


def gid(ip, g):
    return SInt(_gid(ip, g))


def msg_of(ip, s):
    """element a started session sends"""
    return msg_elem(ip, s, ip.getattr(s, "xy_scalar", True))


def is_prime(ip, n):
    from . import theory
    return mkbool(theory.isprime(I(n)))


def is_member(ip, g, a):
    return insub(ip, g, a)


# ---- rejection sampling (C11) ------------------------------------------------------------------------------------
f_rr = z3.Function("rr", sym.Int, sym.Int, sym.Int, sym.Int)     # rr(maxval, stream, pos)


def topbits(ip, maxval):
    """number of significant bits in the top byte of an n-byte block for range width maxval"""
    return mkint(I(size_bits(ip, maxval)) - 8 * (I(size_bytes(ip, maxval)) - 1))


def cand(ip, maxval, e, pos):
    """candidate read from the pos-th block of entropy stream e: the block with its top byte reduced mod 2**topbits"""
    n = I(size_bytes(ip, maxval))
    blk = sym.ENT(IV(e.stream), I(pos), n)
    k = I(topbits(ip, maxval))
    return mkint((sym.HEAD(blk) % sym.P2(k)) * sym.P256(n - 1) + sym.bval(sym.bdrop(blk, 1)))


def rr(ip, maxval, e, pos):
    """rejection sampling: the first candidate < maxval at or after block pos (recursive definition, unfolded once)"""
    m, p = I(maxval), I(pos)
    t = f_rr(m, IV(e.stream), p)
    if sym.FACTS.reg("rr", m, e.stream, p):
        c = I(cand(ip, maxval, e, pos))
        sym.FACTS.add(t == z3.If(c < m, c, f_rr(m, IV(e.stream), p + 1)), "rr-unfold")
    return mkint(t)


def entropy_pos(ip, e):
    return mkint(ip.ctx.entropy_pos.get(e.stream, IV(0)))


def entropy_sizes_all(ip, n):
    """every direct entropy call on this path asked for exactly n bytes"""
    r = True
    for _, k in ip.ctx.entropy_log:
        if isinstance(k, str):
            return False
        r = ip.and_(r, ip.equals(k, n))
    return r


from . import spec_ed  # noqa: E402
for _n in dir(spec_ed):      # Ed25519 vocabulary: spec.ed_*  (only the public spec functions, not the z3 symbols)
    if _n.startswith("ed_") or _n == "mk_ept":
        globals()[_n] = getattr(spec_ed, _n)

f_ed_dec = z3.Function("ed_dec", sym.B, spec_ed.EPt)


def ed_decodable(ip, b):
    """b is THE canonical 32-byte encoding of a non-identity point of the order-L subgroup.
    (definitional extension: ed_dec(b) is that point; well defined because ed_enc is injective)"""
    bt = Bt(b)
    if sym.FACTS.reg("eddec", bt):
        P = f_ed_dec(bt)
        e = spec_ed.ed_enc(ip, SPoint(P)).t
        sym.FACTS.add(z3.Implies(f_ed_decodable(bt), z3.And(sym.blen(bt) == 32, spec_ed.f_insub(P), P != spec_ed.c_O, e == bt)), "ed-decodable-def")
    return mkbool(f_ed_decodable(bt))


def ed_decodable_intro(ip, P, b):
    """insub(P), P != O, enc(P) == b  =>  decodable(b) and dec(b) == P   (the other half of the definition)"""
    bt = Bt(b)
    ed_decodable(ip, b)
    e = spec_ed.ed_enc(ip, P).t
    sym.FACTS.add(z3.Implies(z3.And(spec_ed.f_insub(P.t), P.t != spec_ed.c_O, e == bt),
                             z3.And(f_ed_decodable(bt), f_ed_dec(bt) == P.t)), "ed-decodable-def")
    return True


def ed_ae(ip, seed):
    """C14: 8 * (first curve point at or after y = be(HKDF(seed, info='SPAKE2 arbitrary element', 48 bytes)) mod Q)"""
    h = sym.HKDF(Bt(seed), sym.lit_bytes(b""), sym.lit_bytes(b"SPAKE2 arbitrary element"), 48)
    y = sym.bval(h) % spec_ed.Q
    return spec_ed.ed_ae_from(ip, mkint(y), 0)


def ed_decode_xy(ip, s):
    """the affine coordinates decodepoint computes from a byte string (RFC 8032 decoding with the library's xrecover)"""
    t = sym.brev(sym.btake(Bt(s), 32))
    sym.wf_upper(t)
    u = sym.bval(t)
    y = u % (2 ** 255)
    x0 = spec_ed.f_xrec(y)
    sign = (u / (2 ** 255)) % 2
    x = z3.If((x0 % 2 == 1) != (sign == 1), spec_ed.Q - x0, x0)
    return (mkint(x), mkint(y))



def ed_group(ip):
    return ip.lookup_global("Ed25519Group", ip.repo.modules["ed25519_group"])


def no_global_entropy(ip):
    """no call of os.urandom (process-global entropy) on this path"""
    return not any(s == -1 for s, _ in ip.ctx.entropy_log)
