"""Closed (variable-free) obligations evaluated on the REAL imported modules by the oracle, against
the published constants (certs/published.json), the Pratt certificates and the independent reference
implementation (spec/reference.py).  Each entry is one named obligation of back end "ground"."""
import os, json, time
from .repo import oracle, Oracle
from . import certs

VERIF = os.path.dirname(os.path.dirname(os.path.abspath(__file__)))

PRELUDE = r'''
import json, os, hashlib
from spake2 import groups, ed25519_basic as E, ed25519_group, params as P_, spake2 as S2
from spake2.parameters.all import ParamsEd25519, Params1024, Params2048, Params3072
import spec.reference as R, spec.concrete as C
pub = json.load(open(os.path.join(verif, "certs", "published.json")))
out = []
def ob(name, ok, detail=""):
    out.append([name, bool(ok), str(detail)[:300]])
LIB = {"I1024": groups.I1024, "I2048": groups.I2048, "I3072": groups.I3072}
SETS = {"Ed25519": ParamsEd25519, "1024": Params1024, "2048": Params2048, "3072": Params3072}
def refgroup(name):
    if name == "Ed25519":
        return R.EdGroup()
    g = pub["groups"]["I" + name]
    return R.IntGroup(int(g["p"]), int(g["q"]), int(g["g"]))
REFP = {}
def refparams(name):
    if name not in REFP:
        REFP[name] = R.Params(refgroup(name))
    return REFP[name]
def scalar_entropy(group_name, x):
    """entropy function that makes the library draw exactly the scalar x"""
    if group_name == "Ed25519":
        return lambda n: x.to_bytes(n, "big")
    return lambda n: x.to_bytes(n, "big")
'''

CONSTANTS = PRELUDE + r'''
for name, g in LIB.items():
    pg = pub["groups"][name]
    p, q, gen = int(pg["p"]), int(pg["q"]), int(pg["g"])
    ob("const:%s:p,q,g equal the released constants" % name, (g.p, g.q, g.Base._e) == (p, q, gen))
    ob("const:%s:q divides p-1" % name, (g.p - 1) % g.q == 0)
    ob("const:%s:1<g<p, g^q=1, g!=1 (order exactly q, q prime)" % name, 1 < g.Base._e < g.p and pow(g.Base._e, g.q, g.p) == 1)
    ob("const:%s:identity element is 1" % name, g.Zero._e == 1)
    ob("const:%s:sizes" % name, g.element_size_bytes == (g.p.bit_length() + 7) // 8 and g.scalar_size_bytes == (g.q.bit_length() + 7) // 8)
ed = pub["ed25519"]
Q, L = int(ed["Q"]), int(ed["L"])
ob("const:ed25519:Q and L are the RFC 8032 values", E.Q == Q and E.L == L and ed25519_group.Ed25519Group.order() == L)
ob("const:ed25519:d = -121665/121666 mod Q", (E.d * 121666 + 121665) % Q == 0)
ob("const:ed25519:I^2 = -1 mod Q", (E.I * E.I + 1) % Q == 0)
ob("const:ed25519:base point is the RFC 8032 base point", list(E.B) == [int(ed["Bx"]), (4 * pow(5, Q - 2, Q)) % Q] and E.B[0] % 2 == 0 and (E.B[1] * 5) % Q == 4)
ob("const:ed25519:Base.XYTZ is B in extended coordinates", tuple(E.Base.XYTZ) == (E.B[0], E.B[1], 1, (E.B[0] * E.B[1]) % Q))
ob("const:ed25519:L*Base = O and Base != O (library's slow ladder)", E.is_extended_zero(E.scalarmult_element_safe_slow(E.Base.XYTZ, L)) and not E.is_extended_zero(E.Base.XYTZ))
ob("const:ed25519:8L lies in the Hasse interval", (8 * L - (Q + 1)) ** 2 <= 4 * Q)
ob("const:ed25519:element and scalar sizes are 32", ed25519_group.Ed25519Group.element_size_bytes == 32 and ed25519_group.Ed25519Group.scalar_size_bytes == 32)
ob("const:default parameter set is Ed25519", S2.DefaultParams is ParamsEd25519 and ParamsEd25519.group is ed25519_group.Ed25519Group)
ob("const:integer parameter sets use the shipped groups", Params1024.group is groups.I1024 and Params2048.group is groups.I2048 and Params3072.group is groups.I3072)
for name, ps in SETS.items():
    g = ps.group
    encs = {k: getattr(ps, k).to_bytes() for k in "MNS"}
    rp = refparams(name)
    rg = rp.group
    ob("mns:%s:M,N,S equal the published derivation (independent reference)" % name,
       all(encs[k] == rg.enc(getattr(rp, k)) for k in "MNS"), {k: encs[k].hex()[:16] for k in encs})
    ob("mns:%s:pairwise distinct" % name, len(set(encs.values())) == 3)
    ob("mns:%s:different from the identity and the generator" % name,
       all(e not in (g.Zero.to_bytes(), g.Base.to_bytes()) for e in encs.values()))
    if name == "Ed25519":
        ob("mns:%s:members of the order-L subgroup" % name, all(E.is_extended_zero(E.scalarmult_element_safe_slow(getattr(ps, k).XYTZ, L)) for k in "MNS"))
    else:
        ob("mns:%s:members of the order-q subgroup" % name, all(pow(getattr(ps, k)._e, g.q, g.p) == 1 and 1 < getattr(ps, k)._e < g.p for k in "MNS"))
    ob("mns:%s:seeds are M, N, symmetric" % name, (ps.M_str, ps.N_str, ps.S_str) == (b"M", b"N", b"symmetric"))
    ob("len:%s:message length" % name, len(S2.SPAKE2_A(b"pw", params=ps, entropy_f=lambda n: bytes(n)).start()) == {"Ed25519": 33, "1024": 129, "2048": 257, "3072": 385}[name])
    ob("ae-empty:%s:arbitrary_element(b'') is defined (A-ae-empty)" % name, g.arbitrary_element(b"").to_bytes() == rg.enc(rg.arbitrary_element(b"")))
result = out
'''

VECTORS = PRELUDE + r'''
vec = json.load(open(os.path.join(verif, "certs", "vectors.json")))
# the reference reproduces the library's PUBLISHED vectors (validates the reference itself)
rg = R.EdGroup(); rp = refparams("Ed25519")
a = R.Session("A", b"password", (b"", b""), rp, int(vec["asym"]["xA"]))
b = R.Session("B", b"password", (b"", b""), rp, int(vec["asym"]["xB"]))
ob("vector:reference reproduces the published asymmetric messages", a.message().hex() == vec["asym"]["mA"] and b.message().hex() == vec["asym"]["mB"])
ob("vector:reference reproduces the published asymmetric key", a.key(b.message()).hex() == vec["asym"]["key"] == b.key(a.message()).hex())
ob("vector:reference reproduces the published password scalar", a.w == int(vec["asym"]["w"]))
for v in vec["p2s"]:
    g = refgroup(v["group"].replace("I", "")) if v["group"] != "Ed25519" else R.EdGroup()
    ob("vector:reference password_to_scalar %s %s" % (v["group"], v["pw_hex"]), g.s2b(g.password_to_scalar(bytes.fromhex(v["pw_hex"]))).hex() == v["bytes_hex"])
for v in vec["ae"]:
    g = refgroup(v["group"].replace("I", "")) if v["group"] != "Ed25519" else R.EdGroup()
    ob("vector:reference arbitrary_element %s %s" % (v["group"], v["seed_hex"]), g.enc(g.arbitrary_element(bytes.fromhex(v["seed_hex"]))).hex() == v["bytes_hex"])
result = out
'''

STATE = PRELUDE + r'''
CLS = {"A": S2.SPAKE2_A, "B": S2.SPAKE2_B, "S": S2.SPAKE2_Symmetric}
for name, ps in SETS.items():
    rp = refparams(name); rg = rp.group
    q = rg.q
    for role in "ABS":
        x = (q * 2) // 3 + 5
        pw, ids = b"pass\x00word\xff", ((b"idS\x01",) if role == "S" else (b"alice\x00", b"b\xffob"))
        ref = R.Session(role, pw, ids, rp, x)
        blob = json.dumps(ref.state(), indent=2, sort_keys=True).encode("ascii")     # other key order + whitespace
        peer_role = {"A": "B", "B": "A", "S": "S"}[role]
        peer = R.Session(peer_role, pw, ids, rp, 7)
        try:
            r = CLS[role].from_serialized(blob, params=ps)
            ok = r.finish(peer.message()) == ref.key(peer.message())
        except Exception as e:
            ok = False
        ob("state:%s:%s:released-format state restores and finishes to the reference key" % (name, role), ok)
        kw = dict(idSymmetric=ids[0]) if role == "S" else dict(idA=ids[0], idB=ids[1])
        s = CLS[role](pw, params=ps, entropy_f=scalar_entropy(name, x), **kw)
        s.start()
        try:
            d = json.loads(s.serialize().decode("ascii"))
        except Exception as e:
            d = None
        ob("state:%s:%s:serialize() emits exactly the released-format dictionary" % (name, role), d == ref.state())
fps = {}
for name, ps in SETS.items():
    for role in "AS":
        s = CLS[role](b"x", params=ps)
        fps[(name, role)] = s.hash_params()
ob("state:the eight fingerprints (4 sets x asymmetric/symmetric) are pairwise distinct", len(set(fps.values())) == 8)
result = out
'''

KNOWN = PRELUDE + r'''
# K1 (C09): the fingerprint does not cover the generator
g2, g4 = groups.IntegerGroup(23, 11, 2), groups.IntegerGroup(23, 11, 4)
p2, p4 = P_._Params(g2), P_._Params(g4)
s = S2.SPAKE2_A(b"pw", params=p2, entropy_f=lambda n: b"\x03" * n)
m = s.start()
try:
    r = S2.SPAKE2_A.from_serialized(s.serialize(), params=p4)
    k1 = (r.outbound_message != s.outbound_message)
except Exception as e:
    k1 = False
ob("K1", k1, "state saved under IntegerGroup(23,11,2) restores silently under IntegerGroup(23,11,4) with a different outbound message")
# K2 (C02): ends differing only in a blinding element agree when a scalar is 0
zeros = lambda n: bytes(n)
pM = P_._Params(ed25519_group.Ed25519Group, M=b"M-other")
a = S2.SPAKE2_A(b"pw", params=ParamsEd25519, entropy_f=lambda n: b"\x05" * n)
b = S2.SPAKE2_B(b"pw", params=pM, entropy_f=zeros)
ma, mb = a.start(), b.start()
try:
    k2 = a.finish(mb) == b.finish(ma)
except Exception as e:
    k2 = False
ob("K2", k2, "B created with a different M and secret scalar 0 still agrees with A on a key")
# K3 (C02): two symmetric ends that sent the same blinded element and receive the same third message
same = lambda n: b"\x07" * n
s1 = S2.SPAKE2_Symmetric(b"pw", entropy_f=same); s2 = S2.SPAKE2_Symmetric(b"pw", entropy_f=same)
m1, m2 = s1.start(), s2.start()
third = S2.SPAKE2_Symmetric(b"pw", entropy_f=lambda n: b"\x09" * n).start()
try:
    k3 = (m1 == m2) and s1.finish(third) == s2.finish(third)
except Exception as e:
    k3 = False
ob("K3", k3, "two symmetric sessions with identical scalars both receive a third party's message and agree on a key")
result = out
'''


def run_code(code, tag):
    t0 = time.time()
    r = oracle().req(op="exec", code=code, env={"verif": Oracle.enc(VERIF)})
    dt = time.time() - t0
    if not r.get("ok"):
        return [dict(name="ground:%s" % tag, backend="ground", status="undecided", detail="oracle error: %s" % r.get("error"), time=dt)]
    res = Oracle.dec(r["value"])
    out = []
    for name, ok, detail in res:
        out.append(dict(name="ground:" + name, backend="ground", status="discharged" if ok else "refuted", detail=detail,
                        witness={"closed obligation is false on the real modules": name, "detail": detail} if not ok else None, time=round(dt / max(1, len(res)), 3)))
    return out


def constants():
    return run_code(CONSTANTS, "constants")


def vectors():
    return run_code(VECTORS, "vectors")


def state():
    return run_code(STATE, "state")


def known(which):
    res = run_code(KNOWN, "known")
    return [r for r in res if r["name"] == "ground:" + which]


def primality():
    """Pratt certificates (discharged) and probabilistic tests (NOT counted as discharged: bounded stand-ins)"""
    pub = json.load(open(os.path.join(VERIF, "certs", "published.json")))
    out, standins = [], []
    todo = {"Q": int(pub["ed25519"]["Q"]), "L": int(pub["ed25519"]["L"]),
            "q1024": int(pub["groups"]["I1024"]["q"]), "q2048": int(pub["groups"]["I2048"]["q"])}
    for k, n in todo.items():
        t0 = time.time()
        ok, detail = certs.certified_prime(k, n)
        out.append(dict(name="pratt:%s is prime" % k, backend="certificate", status="discharged" if ok else "refuted", detail=detail, time=round(time.time() - t0, 3)))
    # the same four numbers once more, by an independent checker: Lucas primality test inside Lean's kernel on the same
    # certificates (the numeral in each theorem statement is compared with the published value here)
    from . import leanback
    t0 = time.time()
    ps = leanback.primes_status()
    lits = {"Q": "theorem prime_Q : Nat.Prime (2 ^ 255 - 19)", "L": "theorem prime_L : Nat.Prime %d " % todo["L"],
            "q1024": "theorem prime_q1024 : Nat.Prime %d " % todo["q1024"], "q2048": "theorem prime_q2048 : Nat.Prime %d " % todo["q2048"]}
    stated = todo["Q"] == 2 ** 255 - 19 and all(l in ps["text"] for l in lits.values())
    out.append(dict(name="lean:Nat.Prime Q, L, q1024, q2048 (Primes.lean generated from the Pratt certificates, Lucas test checked by Lean's kernel)",
                    backend="lean", status="discharged" if ps["ok"] and stated else "undecided",
                    detail=("lean %.0fs%s, sha %s" % (ps["seconds"], ", cached" if ps["cached"] else "", ps["sha"][:16])) if ps["ok"] and stated else ("statements do not name the published numbers" if ps["ok"] else ps["why"]),
                    time=round(time.time() - t0, 3)))
    for k, n in {"q3072": int(pub["groups"]["I3072"]["q"]), "p1024": int(pub["groups"]["I1024"]["p"]),
                 "p2048": int(pub["groups"]["I2048"]["p"]), "p3072": int(pub["groups"]["I3072"]["p"])}.items():
        ok = certs.miller_rabin(n, 64)
        standins.append("%s: Miller-Rabin, 12 fixed + 64 random bases: %s (PROBABILISTIC, no certificate obtainable offline)" % (k, "probably prime" if ok else "COMPOSITE"))
        if not ok:
            out.append(dict(name="mr:%s is composite" % k, backend="certificate", status="refuted", detail="Miller-Rabin witness found"))
    return out, standins
