"""Counter-model -> failing input on the REAL code (DESIGN.md section 4)."""
import os, json, re
from .repo import oracle, Oracle, PYMOD

VERIF = os.path.dirname(os.path.dirname(os.path.abspath(__file__)))

SCENARIO_REPLAYERS = {}     # qual prefix -> function(pid, qual, obligation, repo) -> dict or None


def _register():
    from . import scenarios, edfalsify
    SCENARIO_REPLAYERS["spake2."] = scenarios.replayer
    SCENARIO_REPLAYERS["lemma."] = scenarios.replayer
    SCENARIO_REPLAYERS["groups."] = scenarios.replayer
    SCENARIO_REPLAYERS["ed25519_"] = scenarios.replayer
    SCENARIO_REPLAYERS["util."] = scenarios.replayer
    SCENARIO_REPLAYERS["params."] = scenarios.replayer
    SCENARIO_REPLAYERS["ilaw."] = scenarios.replayer


def conc(v):
    """model value -> oracle-encodable python value, or raise"""
    if v is None or isinstance(v, (bool, int, str)):
        return v
    if isinstance(v, dict) and "bytes" in v:
        b = bytes.fromhex(v["bytes"])
        return b.decode("ascii") if v.get("str") else b
    if isinstance(v, list):
        return [conc(x) for x in v]
    if isinstance(v, dict) and "entropy" in v and isinstance(v.get("calls"), dict):
        from .repo import PyExpr
        return PyExpr("spec.ModelEntropy({%s})" % ", ".join("%d: bytes.fromhex(%r)" % (int(k), h) for k, h in sorted(v["calls"].items(), key=lambda kv: int(kv[0]))))
    raise ValueError("not a plain value")


def find_clause(reg, qual, o):
    c = reg.get(qual)
    if c is None:
        return None, None
    name = o["name"].split("/", 1)[1].split("#")[0] if "/" in o["name"] else ""
    for cl in c.post:
        if cl.name == o["clause"]:
            return c, dict(kind="ensures", expr=cl.expr, when=cl.when)
    for cl in c.exc:
        if cl.name == o["clause"]:
            return c, dict(kind="raises", expr=cl.expr, exc=cl.exc, may_raise=list(c.may_raise_list),
                           all_raises=[dict(expr=x.expr, exc=x.exc) for x in c.exc])
    if o["clause"] == "no-unexpected-exception":
        return c, dict(kind="unexpected", exc=o["extra"].get("exc", ""))
    return c, None


def try_direct(qual, o, repo):
    """functions whose parameters are plain ints/bytes: call the real function with the model's inputs"""
    from .contracts import REG
    c, cl = find_clause(REG, qual, o)
    if c is None or cl is None or not o.get("model"):
        return None
    try:
        args = {k: conc(v) for k, v in o["model"].items()}
    except Exception:
        return None
    parts = qual.split(".")
    func = "importlib.import_module(%r).%s" % ("spake2." + parts[0], ".".join(parts[1:]))
    r = oracle().req(op="replay", func=func, args={k: Oracle.enc(v) for k, v in args.items()}, clause=cl,
                     requires=[p.expr for p in c.pre])
    return dict(kind="direct", request=dict(func=qual, args={k: (v.hex() if isinstance(v, bytes) else getattr(v, "src", v)) for k, v in args.items()}),
                answer=r, confirmed=bool(r.get("ok") and r.get("clause_holds") is False and r.get("precondition_holds", True)))


def try_search(qual, o, repo, seed=0):
    """bounded random search on the real function for an input violating the failed clause"""
    from .contracts import REG
    c, cl = find_clause(REG, qual, o)
    if c is None or cl is None:
        return None
    types = {k: v for k, v in c.param_types.items()}
    if not types or any(not (t in ("int", "nat", "byte", "bool", "bytes", "entropy") or t.startswith("bytes:")) for t in types.values()):
        return None
    parts = qual.split(".")
    func = "importlib.import_module(%r).%s" % ("spake2." + parts[0], ".".join(parts[1:]))
    r = oracle().req(op="search", func=func, types=types, clause=cl, requires=[p.expr for p in c.pre], seed=seed, budget=4000)
    out = dict(kind="bounded-search", tried=r.get("tried"), confirmed=bool(r.get("found")))
    if r.get("found"):
        out["failing_input"] = {k: (v["py"] if isinstance(v, dict) and "py" in v else (Oracle.dec(v).hex() if isinstance(Oracle.dec(v), bytes) else Oracle.dec(v))) for k, v in r["args"].items()}
        out["answer"] = r["answer"]
    return out


_SCEN_CACHE = {}


def write_replay(pid, qual, o, repo):
    if not SCENARIO_REPLAYERS:
        _register()
    d = os.path.join(VERIF, "replays" if os.path.realpath(repo.root) == "/repo" else ".selftest/replays", pid)
    os.makedirs(d, exist_ok=True)
    fn = re.sub(r"[^A-Za-z0-9_.#-]+", "_", o["name"])[:150] + ".json"
    path = os.path.join(d, fn)
    attempts = []
    found = False
    if o.get("_prefound"):
        attempts.append(dict(kind="bounded-search", confirmed=True, finding=o["_prefound"]["finding"]))
        found = True
    try:
        a = try_direct(qual, o, repo) if not found else None
        if a is not None:
            attempts.append(a)
            found = found or a["confirmed"]
    except Exception as e:
        attempts.append({"kind": "direct", "error": str(e)})
    if not found:
        try:
            a = try_search(qual, o, repo, int(os.environ.get("VERIF_SEED", "0")))
            if a is not None:
                attempts.append(a)
                found = found or a["confirmed"]
        except Exception as e:
            attempts.append({"kind": "bounded-search", "error": str(e)})
    if not found:
        for prefix, fn_ in SCENARIO_REPLAYERS.items():
            if qual.startswith(prefix):
                try:
                    if "scen" not in _SCEN_CACHE:        # one battery per check run, shared by all failed obligations
                        _SCEN_CACHE["scen"] = fn_(pid, qual, o, repo)
                    a = _SCEN_CACHE["scen"]
                except Exception as e:
                    a = {"kind": "scenario", "error": "%s: %s" % (type(e).__name__, e)}
                if a is not None:
                    attempts.append(a)
                    found = found or bool(a.get("confirmed"))
                    if found:
                        break
    doc = {
        "property": pid, "failed_obligation": o["name"], "function": qual, "clause": o["clause"], "kind": o["kind"],
        "solver_verdict": o["status"], "solver_model": o.get("model"), "negated_goal": o.get("goal"),
        "extra": o.get("extra"), "replay_attempts": attempts, "failing_input_confirmed_on_real_code": found,
        "how_to_replay": "cd /verif && ./check %s --replay %s" % (pid, path),
        "repo_root": repo.root,
    }
    with open(path, "w") as f:
        json.dump(doc, f, indent=1, default=str)
    return path, found
