"""./check <Cxx> --replay <replay file>: re-execute a recorded violation against the CURRENT tree (/repo, or VERIF_REPO).

exit 1 + VIOLATION line  the recorded failing input still violates the clause on the real code / the recorded obligation is
                         still refuted by the verifier
exit 0                   not reproduced on this tree (the code was repaired, or the replay file belongs to another tree)
exit 2                   could not decide (e.g. the obligation is now undecided)"""
import sys, os, json

VERIF = os.path.dirname(os.path.dirname(os.path.abspath(__file__)))
sys.path.insert(0, VERIF)


def main(path):
    from .repo import Repo, oracle, Oracle
    from .contracts import load_all
    from . import replay, spec_sym
    doc = json.load(open(path))
    pid, qual = doc["property"], doc["function"]
    repo = Repo()
    reg = load_all()
    o = dict(name=doc["failed_obligation"], clause=doc.get("clause"), kind=doc.get("kind"), model=doc.get("solver_model"), extra=doc.get("extra") or {})
    print("replaying %s on %s" % (doc["failed_obligation"], repo.root))
    reproduced, tried, by_input = False, [], False
    for a in doc.get("replay_attempts", []):
        if not a.get("confirmed"):
            continue
        kind = a.get("kind", "")
        try:
            if kind == "direct":
                r = replay.try_direct(qual, o, repo)
                tried.append("direct: the solver's model fed to the real function -> clause %s" % ("VIOLATED" if r and r["confirmed"] else "holds"))
                reproduced |= bool(r and r["confirmed"])
            elif kind == "bounded-search" and "failing_input" in a:
                c, cl = replay.find_clause(reg, qual, o)
                if c is None or cl is None:
                    # obligation of the form <function>/bounded-search-after-undecided: the clause name is in the attempt
                    cname = (a.get("clause") or "")
                    for x in (c.post + c.exc) if c is not None else []:
                        if x.name == cname:
                            o2 = dict(o, clause=cname)
                            c, cl = replay.find_clause(reg, qual, o2)
                if c is None or cl is None:
                    tried.append("bounded-search input: clause not found in the contract of %s" % qual)
                    continue
                args = {}
                for k, v in a["failing_input"].items():
                    t = c.param_types.get(k, "")
                    if t == "entropy" and isinstance(v, str):
                        from .repo import PyExpr
                        args[k] = PyExpr(v)
                    else:
                        args[k] = bytes.fromhex(v) if (t == "bytes" or t.startswith("bytes:")) and isinstance(v, str) else v
                parts = qual.split(".")
                func = "importlib.import_module(%r).%s" % ("spake2." + parts[0], ".".join(parts[1:]))
                r = oracle().req(op="replay", func=func, args={k: Oracle.enc(v) for k, v in args.items()}, clause=cl, requires=[p.expr for p in c.pre])
                bad = bool(r.get("ok") and r.get("clause_holds") is False and r.get("precondition_holds", True))
                tried.append("recorded failing input fed to the real function -> clause %s (%s)" % ("VIOLATED" if bad else "holds", {k: r.get(k) for k in ("outcome", "exc", "clause_holds")}))
                reproduced |= bad
            else:
                from . import scenarios
                r = scenarios.replayer(pid, qual, o, repo)
                bad = bool(r and r.get("confirmed"))
                tried.append("differential scenarios of %s re-run -> %s" % (pid, ("MISMATCH " + json.dumps(r.get("failing_scenario"))[:300]) if bad else "no mismatch"))
                reproduced |= bad
        except Exception as e:
            tried.append("%s: error %s: %s" % (kind, type(e).__name__, e))
    by_input = reproduced
    undecided = False
    if not reproduced:
        # no recorded failing input (or it no longer fails): re-run the verifier on the function and look the obligation up
        try:
            from .vc import Verifier
            if qual in reg.contracts:
                rep = Verifier(repo, reg, spec_sym).verify(qual)
                hit = [x for x in rep.obligations if x.name == doc["failed_obligation"]]
                if hit:
                    tried.append("verifier re-run: obligation is %s" % hit[0].status)
                    reproduced |= hit[0].status == "refuted"
                    undecided = hit[0].status not in ("refuted", "discharged")
                else:
                    tried.append("verifier re-run: no obligation of that name any more (%d obligations, %s)" % (len(rep.obligations), "all discharged" if rep.ok() else "not all discharged"))
            else:
                tried.append("%s is not a function under contract (back end obligation): re-run ./check %s" % (qual, pid))
                undecided = True
        except Exception as e:
            tried.append("verifier re-run failed: %s: %s" % (type(e).__name__, e))
            undecided = True
    for t in tried:
        print("  " + t)
    if reproduced:
        print("VIOLATION property=%s replay=%s%s" % (pid, os.path.abspath(path), "" if by_input else " no-failing-input-found"))
        return 1
    if undecided:
        print("UNDECIDED: could not reproduce or refute the recorded violation on this tree")
        return 2
    print("not reproduced on this tree")
    return 0


if __name__ == "__main__":
    code = main(sys.argv[1])
    sys.stdout.flush()
    os._exit(code)
