"""T0 library model: builtins and dependencies as used by the repository (DESIGN.md 3.1)."""
import z3
from . import sym
from .sym import IV
from .values import *
from .repo import ClassInfo
from .interp import BUILTIN_EXC


def _nargs(args, n, name):
    if len(args) != n:
        raise Unsupported("%s arity %d" % (name, len(args)))


def call_builtin(ip, fv, args, kwargs, pure=False):
    name = fv.name
    f = TABLE.get(name)
    if f is None:
        if name.startswith("exc:"):
            return SOpaque("excinst", name[4:])
        raise Unsupported("unmodelled builtin %s" % name)
    return f(ip, fv, args, kwargs, pure)


TABLE = {}


def model(name):
    def deco(f):
        TABLE[name] = f
        return f
    return deco


@model("len")
def _len(ip, fv, args, kwargs, pure):
    _nargs(args, 1, "len")
    v = args[0]
    if isinstance(v, (bytes, str, tuple, list, dict)):
        return len(v)
    if isinstance(v, (SBytes, SStr, SByteList)):
        return mkint(sym.blen(v.t))
    if isinstance(v, SMapList):
        return mkint(sym.blen(v.src.t))
    raise Unsupported("len of %r" % (v,))


@model("int")
def _int(ip, fv, args, kwargs, pure):
    if len(args) == 1 and not kwargs:
        v = args[0]
        if isintlike(v):
            return v if not isinstance(v, bool) else int(v)
        if isinstance(v, float):
            return int(v)
        if isinstance(v, SFrac):
            raise Unsupported("int() of a true-division result")
        raise Unsupported("int(%r)" % (v,))
    if len(args) == 2:
        v, base = args
        if base != 16:
            raise Unsupported("int(x, %r)" % (base,))
        if isinstance(v, (str, bytes)):
            try:
                return int(v, 16)
            except ValueError:
                raise Raise("ValueError")
        t = v.t if isinstance(v, (SStr, SBytes)) else None
        if t is None:
            raise Unsupported("int(%r,16)" % (v,))
        return hex_to_int(ip, t, pure)
    raise Unsupported("int() form")


def hex_to_int(ip, t, pure):
    """int(text, 16) where text (ascii) is the Bytes term t."""
    if z3.is_app(t) and t.decl().name() == "hexl":
        b = t.arg(0)
        if not pure and ip.ctx.branch(sym.blen(b) == 0, "int-empty"):
            raise Raise("ValueError")
        sym.wf_upper(b)
        return mkint(sym.bval(b))
    # general: text accepted iff it is a non-empty hex text (we model only lowercase/uppercase hex of even
    # or odd length through ishex for even lengths; anything else is outside the model)
    for (b,) in sym.FACTS.items("hexl"):
        pass
    if not pure:
        ok = z3.And(sym.ishex(t), sym.blen(t) > 0)
        if ip.ctx.check([z3.Not(ok)]) != z3.unsat:
            # might be a non-hex string: int() raises ValueError for those, but odd-length hex text is
            # accepted by int() and rejected by ishex -> not decidable in this model
            raise Unsupported("int(x,16) on text not known to be hexlify output")
    return mkint(sym.bval(sym.UNHEX(t)))


@model("str")
def _str(ip, fv, args, kwargs, pure):
    _nargs(args, 1, "str")
    v = args[0]
    if isinstance(v, int) and not isinstance(v, bool):
        return str(v)
    if isinstance(v, SInt):
        return SStr(sym.decstr(v.t))
    if isinstance(v, (str, SStr)):
        return v
    raise Unsupported("str(%r)" % (v,))


@model("repr")
def _repr(ip, fv, args, kwargs, pure):
    return SStr(sym.fresh("repr", sym.B))


@model("bool")
def _bool(ip, fv, args, kwargs, pure):
    _nargs(args, 1, "bool")
    return ip.truth(args[0])


@model("bytes")
def _bytes(ip, fv, args, kwargs, pure):
    if len(args) == 1 and isinstance(args[0], (SByteList,)):
        return SBytes(args[0].t)
    if len(args) == 1 and isinstance(args[0], (bytes, SBytes)):
        return args[0]
    if len(args) == 1 and isinstance(args[0], list) and all(isinstance(x, int) for x in args[0]):
        try:
            return bytes(args[0])
        except ValueError:
            raise Raise("ValueError")
    raise Unsupported("bytes(...) form")


@model("abs")
def _abs(ip, fv, args, kwargs, pure):
    v = args[0]
    if isinstance(v, int):
        return abs(v)
    return mkint(z3.If(I(v) >= 0, I(v), -I(v)))


@model("min")
def _min(ip, fv, args, kwargs, pure):
    if len(args) == 2 and isintlike(args[0]) and isintlike(args[1]):
        a, b = I(args[0]), I(args[1])
        return mkint(z3.If(a <= b, a, b))
    r = _minmax_bytes(ip, args, pure, False)
    if r is not None:
        return r
    raise Unsupported("min form")


def _minmax_bytes(ip, args, pure, want_max):
    """min / max of two byte strings (lexicographic, `blt`); Python returns the FIRST of two equal arguments"""
    v = args[0] if len(args) == 1 and isinstance(args[0], (list, tuple)) else args
    if len(v) != 2 or not all(isbyteslike(x) for x in v):
        return None
    a, b = v
    if isinstance(a, bytes) and isinstance(b, bytes):
        return max(a, b) if want_max else min(a, b)
    swap = sym.BLT(Bt(a), Bt(b)) if want_max else sym.BLT(Bt(b), Bt(a))   # max: b if a < b ; min: b if b < a
    if pure:
        return SBytes(z3.If(swap, Bt(b), Bt(a)))
    return b if ip.ctx.branch(swap, "minmax") else a


@model("max")
def _max(ip, fv, args, kwargs, pure):
    if len(args) == 2 and isintlike(args[0]) and isintlike(args[1]):
        a, b = I(args[0]), I(args[1])
        return mkint(z3.If(a >= b, a, b))
    r = _minmax_bytes(ip, args, pure, True)
    if r is not None:
        return r
    raise Unsupported("max form")


@model("divmod")
def _divmod(ip, fv, args, kwargs, pure):
    import ast
    a, b = args
    return (ip.binop(ast.FloorDiv(), a, b, pure), ip.binop(ast.Mod(), a, b, pure))


def value_is_instance(ip, v, c):
    """isinstance(v, c) for a class value c -> bool"""
    if isinstance(c, tuple):
        return any(value_is_instance(ip, v, x) for x in c)
    if isinstance(c, SBuiltin):
        n = c.name
        if n == "int":
            return isintlike(v)
        if n == "bool":
            return isinstance(v, (bool, SBool))
        if n == "bytes":
            return isbyteslike(v)
        if n == "str":
            return isstrlike(v)
        if n == "tuple":
            return isinstance(v, tuple)
        if n == "list":
            return isinstance(v, (list, SByteList, SMapList))
        if n == "object":
            return True
        if n.startswith("exc:"):
            return False
        raise Unsupported("isinstance(_, %s)" % n)
    if isinstance(c, SClass):
        if isinstance(v, SObj):
            ho = ip.ctx.obj(v)
            if isinstance(ho.cls, ClassInfo):
                return ip.repo.is_subclass(ho.cls, c.cinfo)
            return False
        return False
    if isinstance(c, SOpaque) and c.kind == "typeof":
        return value_is_instance(ip, v, c.data)
    raise Unsupported("isinstance(_, %r)" % (c,))


@model("isinstance")
def _isinstance(ip, fv, args, kwargs, pure):
    _nargs(args, 2, "isinstance")
    return value_is_instance(ip, args[0], args[1])


@model("type")
def _type(ip, fv, args, kwargs, pure):
    _nargs(args, 1, "type")
    v = args[0]
    if isbyteslike(v):
        return SBuiltin("bytes")
    if isinstance(v, (bool, SBool)):
        return SBuiltin("bool")
    if isintlike(v):
        return SBuiltin("int")
    if isstrlike(v):
        return SBuiltin("str")
    if isinstance(v, tuple):
        return SBuiltin("tuple")
    if isinstance(v, SObj):
        ho = ip.ctx.obj(v)
        if isinstance(ho.cls, ClassInfo):
            return SClass(ho.cls)
    raise Unsupported("type(%r)" % (v,))


@model("hasattr")
def _hasattr(ip, fv, args, kwargs, pure):
    v, n = args
    if isintlike(v) and n == "bit_length":
        ip.ctx.notes.append("dropped: python-2.6 fallback branch guarded by hasattr(int,'bit_length') (constant True on Python 3)")
        return True
    if isinstance(v, SObj) and isinstance(n, str):
        return ip.hasfield(v, n)
    raise Unsupported("hasattr(%r,%r)" % (v, n))


@model("pow")
def _pow(ip, fv, args, kwargs, pure):
    if len(args) == 3:
        x, e, m = args
        if isinstance(x, int) and isinstance(e, int) and isinstance(m, int):
            try:
                return pow(x, e, m)
            except ValueError:
                raise Raise("ValueError")
        xt, et, mt = I(x), I(e), I(m)
        if not pure:
            if ip.ctx.branch(mt == 0, "pow-mod0"):
                raise Raise("ValueError")
            if ip.ctx.check([mt < 0]) != z3.unsat:
                raise Unsupported("pow with possibly negative modulus")
            if ip.ctx.check([et < 0]) != z3.unsat:
                # python >= 3.8 computes a modular inverse (or raises ValueError); not modelled
                raise Unsupported("pow with possibly negative exponent")
        return mkint(sym.POWMOD(xt, et, mt))
    if len(args) == 2:
        import ast
        return ip.binop(ast.Pow(), args[0], args[1], pure)
    raise Unsupported("pow arity")


@model("list")
def _list(ip, fv, args, kwargs, pure):
    if not args:
        return []
    v = args[0]
    if isinstance(v, SOpaque) and v.kind == "iter":
        v = v.data
    if isinstance(v, (SBytes,)):
        return SByteList(v.t)
    if isinstance(v, bytes):
        return list(v)
    if isinstance(v, (list, tuple)):
        return list(v)
    if isinstance(v, SByteList):
        return v
    raise Unsupported("list(%r)" % (v,))


@model("tuple")
def _tuple(ip, fv, args, kwargs, pure):
    v = args[0]
    if isinstance(v, (list, tuple)):
        return tuple(v)
    raise Unsupported("tuple(%r)" % (v,))


@model("iter")
def _iter(ip, fv, args, kwargs, pure):
    return SOpaque("iter", args[0])


@model("range")
def _range(ip, fv, args, kwargs, pure):
    if all(isinstance(a, int) for a in args):
        return list(range(*args))
    raise Unsupported("symbolic range")


@model("bin")
def _bin(ip, fv, args, kwargs, pure):
    if isinstance(args[0], int):
        return bin(args[0])
    raise Unsupported("bin of symbolic int")


@model("sorted")
def _sorted(ip, fv, args, kwargs, pure):
    _nargs(args, 1, "sorted")
    if kwargs:
        raise Unsupported("sorted with key/reverse")
    v = args[0]
    if isinstance(v, (list, tuple)) and len(v) == 2 and all(isbyteslike(x) for x in v):
        a, b = v
        if isinstance(a, bytes) and isinstance(b, bytes):
            return sorted([a, b])
        lt = sym.BLT(Bt(b), Bt(a))     # stable: swap only if b < a
        if pure:
            return [SBytes(z3.If(lt, Bt(b), Bt(a))), SBytes(z3.If(lt, Bt(a), Bt(b)))]
        if ip.ctx.branch(lt, "sorted"):
            return [b, a]
        return [a, b]
    if isinstance(v, (list, tuple)) and all(isinstance(x, (int, bytes, str)) for x in v):
        return sorted(v)
    raise Unsupported("sorted(%r)" % (v,))


# ---- int / bytes / str methods -------------------------------------------------------------------
@model("int.bit_length")
def _bit_length(ip, fv, args, kwargs, pure):
    v = fv.bound
    if isinstance(v, int):
        return v.bit_length()
    return mkint(sym.BL(I(v)))


@model("int.to_bytes")
def _to_bytes(ip, fv, args, kwargs, pure):
    v = fv.bound
    a = list(args)
    length = a[0] if a else kwargs.get("length", 1)
    order = a[1] if len(a) > 1 else kwargs.get("byteorder", "big")
    if kwargs.get("signed"):
        raise Unsupported("to_bytes signed")
    if order not in ("big", "little"):
        raise Unsupported("byteorder")
    if isinstance(v, int) and isinstance(length, int):
        try:
            return v.to_bytes(length, order)
        except OverflowError:
            raise Raise("OverflowError")
        except ValueError:
            raise Raise("ValueError")
    vt, lt = I(v), I(length)
    if not pure:
        if ip.ctx.branch(lt < 0, "to_bytes-neglen"):
            raise Raise("ValueError")
        if ip.ctx.branch(z3.Or(vt < 0, vt >= sym.P256(lt)), "to_bytes-overflow"):
            raise Raise("OverflowError")
    t = sym.mk_bytes(lt, vt)
    return SBytes(t if order == "big" else sym.brev(t))


@model("int.from_bytes")
def _from_bytes(ip, fv, args, kwargs, pure):
    a = list(args)
    b = a[0]
    order = a[1] if len(a) > 1 else kwargs.get("byteorder", "big")
    if kwargs.get("signed"):
        raise Unsupported("from_bytes signed")
    if (isinstance(b, bytes) or (isinstance(b, list) and all(isinstance(x, int) and not isinstance(x, bool) for x in b))) and order in ("big", "little"):
        try:
            return int.from_bytes(bytes(b), order)
        except ValueError:
            raise Raise("ValueError")
    t = b.t if isinstance(b, SByteList) else Bt(b)      # int.from_bytes accepts any iterable of ints in 0..255
    if order == "little":
        t = sym.brev(t)
    elif order != "big":
        raise Unsupported("byteorder")
    sym.wf_upper(t)
    return mkint(sym.bval(t))


@model("bytes.decode")
def _decode(ip, fv, args, kwargs, pure):
    enc = args[0] if args else kwargs.get("encoding", "utf-8")
    if enc not in ("ascii",):
        raise Unsupported("decode(%r)" % (enc,))
    v = fv.bound
    if isinstance(v, bytes):
        try:
            return v.decode("ascii")
        except UnicodeDecodeError:
            raise Raise("UnicodeDecodeError")
    if isinstance(v, SOpaque):
        raise Unsupported("decode of opaque")
    t = v.t
    if not pure and not is_ascii_term(ip, t):
        raise Unsupported("decode('ascii') of bytes not known to be ascii")
    return SStr(t)


def is_ascii_term(ip, t):
    """terms that are ascii by construction (T0): hexlify output, format output, literals, decimal strings,
    and bytes declared ascii by a contract"""
    if z3.is_app(t):
        n = t.decl().name()
        if n in ("hexl", "hexfmt", "decstr", "jsonenc"):
            return True
        if n == "mkb":
            lit = ip.lit_of(t)
            return lit is not None and all(c < 128 for c in lit)
        if n == "cat":
            return is_ascii_term(ip, t.arg(0)) and is_ascii_term(ip, t.arg(1))
    for (a,) in sym.FACTS.items("ascii"):
        if a.eq(t):
            return True
    return False


@model("str.encode")
def _encode(ip, fv, args, kwargs, pure):
    enc = args[0] if args else kwargs.get("encoding", "utf-8")
    if enc not in ("ascii", "utf-8"):
        raise Unsupported("encode(%r)" % (enc,))
    v = fv.bound
    if isinstance(v, str):
        try:
            return v.encode("ascii")
        except UnicodeEncodeError:
            raise Raise("UnicodeEncodeError")
    if isinstance(v, SOpaque):
        return SOpaque(v.kind + ".bytes", v.data)
    return SBytes(v.t)   # all symbolic str values in the model are ascii


@model("bytes.hex")
def _hex(ip, fv, args, kwargs, pure):
    if args or kwargs:
        raise Unsupported("hex(sep)")
    v = fv.bound
    if isinstance(v, bytes):
        return v.hex()
    return SStr(sym.HEXL(v.t))


@model("bytes.fromhex")
def _fromhex(ip, fv, args, kwargs, pure):
    return _unhexlify(ip, fv, args, kwargs, pure, exc="ValueError")


@model("bytes.join")
def _bjoin(ip, fv, args, kwargs, pure):
    sep = fv.bound
    if not (isinstance(sep, bytes) and sep == b""):
        raise Unsupported("join with non-empty separator")
    _nargs(args, 1, "join")
    parts = args[0]
    if not isinstance(parts, (list, tuple)):
        raise Unsupported("join of %r" % (parts,))
    for p in parts:
        if not isbyteslike(p):
            raise Raise("TypeError")
    if all(isinstance(p, bytes) for p in parts):
        return b"".join(parts)
    return SBytes(sym.concat_many([Bt(p) for p in parts]))


@model("str.join")
def _sjoin(ip, fv, args, kwargs, pure):
    sep = fv.bound
    if not (isinstance(sep, str) and sep == ""):
        raise Unsupported("join with non-empty separator")
    _nargs(args, 1, "join")
    parts = args[0]
    if isinstance(parts, SMapList):
        # T0 law join-map-hex2: "".join("%02x" % b for b in L) == hexlify(bytes(L)) for L a list of byte values
        e = parts.elem
        if isinstance(e, SStr) and z3.is_app(e.t) and e.t.decl().name() == "hexfmt":
            w, n = e.t.arg(0), e.t.arg(1)
            if sym.as_const_int(w) == 2 and n.eq(parts.var):
                sym.FACTS.used_axioms.add("join-map-hex2")
                return SStr(sym.HEXL(parts.src.t))
        raise Unsupported("join over a mapped list of unsupported shape")
    if not isinstance(parts, (list, tuple)):
        raise Unsupported("join of %r" % (parts,))
    for p in parts:
        if not isstrlike(p):
            raise Raise("TypeError")
    if all(isinstance(p, str) for p in parts):
        return "".join(parts)
    return SStr(sym.concat_many([St(p) for p in parts]))


# ---- binascii ---------------------------------------------------------------------------------
@model("binascii.hexlify")
def _hexlify(ip, fv, args, kwargs, pure):
    _nargs(args, 1, "hexlify")
    v = args[0]
    if isinstance(v, bytes):
        import binascii
        return binascii.hexlify(v)
    if not isbyteslike(v):
        raise Raise("TypeError")
    return SBytes(sym.HEXL(v.t))


@model("binascii.unhexlify")
def _unhexlify(ip, fv, args, kwargs, pure, exc="binascii.Error"):
    _nargs(args, 1, "unhexlify")
    v = args[0]
    if isinstance(v, (bytes, str)):
        import binascii
        try:
            return binascii.unhexlify(v)
        except (binascii.Error, ValueError):
            raise Raise(exc)
    if isinstance(v, SStr) and fv.name == "binascii.unhexlify":
        pass  # unhexlify accepts ascii str as well
    t = v.t
    if not pure and not ip.ctx.branch(sym.ishex(t), "unhexlify-ok"):
        raise Raise(exc)
    return SBytes(sym.UNHEX(t))


# ---- hashlib / hkdf -----------------------------------------------------------------------------
@model("hashlib.sha256")
def _sha256(ip, fv, args, kwargs, pure):
    if len(args) != 1:
        raise Unsupported("sha256() without data")
    v = args[0]
    if not isbyteslike(v):
        raise Raise("TypeError")
    if isinstance(v, bytes) and getattr(ip.ctx.verifier, "concrete_mode", False):
        import hashlib
        return SOpaque("sha256obj", hashlib.sha256(v).digest())
    return SOpaque("sha256obj", sym.SHA(Bt(v)))


@model("sha256obj.digest")
def _digest(ip, fv, args, kwargs, pure):
    if isinstance(fv.bound.data, bytes):
        return fv.bound.data
    return SBytes(fv.bound.data)


@model("sha256obj.hexdigest")
def _hexdigest(ip, fv, args, kwargs, pure):
    if isinstance(fv.bound.data, bytes):
        return fv.bound.data.hex()
    return SStr(sym.HEXL(fv.bound.data))


@model("hashes.SHA256")
def _SHA256(ip, fv, args, kwargs, pure):
    return SOpaque("SHA256alg")


@model("hkdf.HKDF")
def _HKDF(ip, fv, args, kwargs, pure):
    if args:
        raise Unsupported("HKDF positional args")
    alg = kwargs.get("algorithm")
    if not (isinstance(alg, SOpaque) and alg.kind == "SHA256alg"):
        raise Unsupported("HKDF algorithm is not SHA256")
    for k in kwargs:
        if k not in ("algorithm", "length", "salt", "info", "backend"):
            raise Unsupported("HKDF kwarg %s" % k)
    length, salt, info = kwargs.get("length"), kwargs.get("salt"), kwargs.get("info")
    if salt is None:
        salt = b""          # cryptography: salt=None means hashlen zero bytes == same PRK as b"" (HMAC pads the key)
    if info is None:
        info = b""
    if not pure and ip.ctx.branch(z3.Or(I(length) > 255 * 32, I(length) < 0) if not isinstance(length, int)
                                  else (length > 255 * 32 or length < 0), "hkdf-length"):
        raise Raise("ValueError")
    return SOpaque("HKDFobj", (Bt(salt), Bt(info), length))


@model("HKDFobj.derive")
def _derive(ip, fv, args, kwargs, pure):
    _nargs(args, 1, "derive")
    salt, info, length = fv.bound.data
    ikm = args[0]
    if not isbyteslike(ikm):
        raise Raise("TypeError")
    if isinstance(ikm, bytes) and isinstance(length, int) and getattr(ip.ctx.verifier, "concrete_mode", False):
        import sys as _s, os as _o
        _s.path.insert(0, _o.path.dirname(_o.path.dirname(_o.path.abspath(__file__)))) if _o.path.dirname(_o.path.dirname(_o.path.abspath(__file__))) not in _s.path else None
        from spec import concrete as _C
        sl, inf = ip.lit_of(salt), ip.lit_of(info)
        return _C.hkdf(ikm, sl, inf, length)
    return SBytes(sym.HKDF(Bt(ikm), salt, info, length if isinstance(length, int) else I(length)))


# ---- math / os / itertools / json ---------------------------------------------------------------
@model("operator.index")
def _op_index(ip, fv, args, kwargs, pure):
    _nargs(args, 1, "operator.index")
    v = args[0]
    if isinstance(v, bool):
        return int(v)
    if isintlike(v):
        return v
    if isinstance(v, (bytes, str, float, list, tuple, dict, SBytes, SStr)) or v is None:
        raise Raise("TypeError")
    raise Unsupported("operator.index of %r" % (v,))


@model("math.ceil")
def _ceil(ip, fv, args, kwargs, pure):
    v = args[0]
    if isinstance(v, SFrac):
        # exact for |num| < 2**53 (assumption A-float, stated as a precondition by the contract)
        ip.ctx.notes.append("A-float: math.ceil(a/b) treated as exact rational ceiling")
        if ip.ctx.check([v.den <= 0]) != z3.unsat:
            raise Unsupported("ceil of fraction with possibly non-positive denominator")
        return mkint(-((-v.num) / v.den))
    if isinstance(v, float):
        import math
        return math.ceil(v)
    if isintlike(v):
        return v
    raise Unsupported("ceil(%r)" % (v,))


@model("os.urandom")
def _urandom(ip, fv, args, kwargs, pure):
    # process-global entropy: modelled as a distinguished stream and LOGGED, so that the entropy clauses (C11/C16:
    # "only from the supplied entropy function") are refuted instead of the function becoming undecided
    _nargs(args, 1, "urandom")
    n = args[0]
    k = ip.ctx.entropy_pos.get(-1, IV(0))
    t = sym.ENT(IV(-1), k, n if isinstance(n, int) else I(n))
    ip.ctx.entropy_pos[-1] = z3.simplify(k + 1)
    ip.ctx.entropy_log.append((-1, "os.urandom"))
    return SBytes(t)


@model("itertools.count")
def _count(ip, fv, args, kwargs, pure):
    start = args[0] if args else 0
    if len(args) > 1:
        raise Unsupported("count step")
    return SOpaque("count", start)


@model("json.dumps")
def _dumps(ip, fv, args, kwargs, pure):
    if kwargs or len(args) != 1:
        raise Unsupported("json.dumps with options (format-affecting)")
    d = args[0]
    if not isinstance(d, dict):
        raise Unsupported("json.dumps of non-dict")
    for k, v in d.items():
        if not isstrlike(v):
            raise Unsupported("json.dumps value not str")
    return SOpaque("jsontext", dict(d))


@model("jsontext.encode")
def _jsonenc(ip, fv, args, kwargs, pure):
    enc = args[0] if args else "utf-8"
    if enc != "ascii":
        raise Unsupported("json text encode(%r)" % (enc,))
    # json.dumps(ensure_ascii=True) output is always ascii: encode cannot fail
    return SOpaque("jsonbytes", fv.bound.data)


@model("jsonbytes.decode")
def _jsondec(ip, fv, args, kwargs, pure):
    enc = args[0] if args else "utf-8"
    if enc != "ascii":
        raise Unsupported("json bytes decode(%r)" % (enc,))
    return SOpaque("jsontext", fv.bound.data)


@model("json.loads")
def _loads(ip, fv, args, kwargs, pure):
    if kwargs or len(args) != 1:
        raise Unsupported("json.loads with options")
    v = args[0]
    if isinstance(v, SOpaque) and v.kind == "jsontext":
        return dict(v.data)
    raise Unsupported("json.loads of text that is not a modelled JSON object")


@model("list.append")
def _append(ip, fv, args, kwargs, pure):
    _nargs(args, 1, "append")
    fv.bound.append(args[0])
    return None


@model("list.extend")
def _extend(ip, fv, args, kwargs, pure):
    _nargs(args, 1, "extend")
    if not isinstance(args[0], (list, tuple)):
        raise Unsupported("extend with %r" % (args[0],))
    fv.bound.extend(args[0])
    return None


TABLE["binascii.b2a_hex"] = TABLE["binascii.hexlify"]
TABLE["binascii.a2b_hex"] = TABLE["binascii.unhexlify"]


@model("str.zfill")
def _zfill(ip, fv, args, kwargs, pure):
    _nargs(args, 1, "zfill")
    v, w = fv.bound, args[0]
    if isinstance(v, str) and isinstance(w, int):
        return v.zfill(w)
    if isinstance(v, SStr) and z3.is_app(v.t) and v.t.decl().name() == "hexfmt":
        # ("%0<w0>x" % n).zfill(w) == "%0<max(w0,w)>x" % n   (zfill pads after a leading '-', exactly like the % format)
        w0, n = v.t.arg(0), v.t.arg(1)
        wt = I(w)
        return SStr(sym.HEXFMT(z3.If(wt >= w0, wt, w0), n))
    raise Unsupported("zfill on %r" % (v,))


@model("int.to_bytes_unbound")
def _to_bytes_unbound(ip, fv, args, kwargs, pure):
    # int.to_bytes(n, length, byteorder)
    if not args:
        raise Unsupported("int.to_bytes()")
    return _to_bytes(ip, SBuiltin("int.to_bytes", args[0]), args[1:], kwargs, pure)


@model("setattr")
def _setattr(ip, fv, args, kwargs, pure):
    _nargs(args, 3, "setattr")
    o, name, v = args
    if not isinstance(o, SObj) or not isinstance(name, str):
        raise Unsupported("setattr on %r with name %r" % (o, name))
    ip.obj_setattr(o, name, v)
    return None


@model("getattr")
def _getattr(ip, fv, args, kwargs, pure):
    if len(args) not in (2, 3) or not isinstance(args[1], str):
        raise Unsupported("getattr form")
    try:
        return ip.getattr(args[0], args[1], pure)
    except Raise as r:
        if r.exc == "AttributeError" and len(args) == 3:
            return args[2]
        raise


@model("zip")
def _zip(ip, fv, args, kwargs, pure):
    if all(isinstance(a, (list, tuple)) for a in args):
        return [tuple(x) for x in zip(*args)]
    raise Unsupported("zip of symbolic sequences")


@model("enumerate")
def _enumerate(ip, fv, args, kwargs, pure):
    if len(args) == 1 and isinstance(args[0], (list, tuple)):
        return [(i, x) for i, x in enumerate(args[0])]
    raise Unsupported("enumerate of symbolic sequence")
