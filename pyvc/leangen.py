"""Mechanical AST -> Lean 4 printer for the straight-line integer functions of ed25519_basic.py
(DESIGN.md 2.6).  The printed definition is a line-by-line mirror of the Python body: same local names, same
operators, `%` -> Int.emod (`%` on Int in Lean 4 Mathlib is emod; divisor Q > 0 so it equals Python's floor mod),
`pow(x,e,m)`/inv -> x ^ e % m.  Anything outside the subset raises LeanGenError (reported as undecided)."""
import ast


class LeanGenError(Exception):
    pass


def lname(n):
    if n == "_":
        return "_u"
    return n


class Printer:
    def __init__(self, consts, module=None, global_int=None, rename=None):
        self.consts = consts      # module-level int constants -> Lean names
        self.calls = set()
        self.module = module      # ModuleInfo: to inline straight-line helper functions
        self.global_int = global_int or (lambda name: None)   # value of other module-level int constants
        self.rename = rename or {}

    def expr(self, e):
        if isinstance(e, ast.Constant) and isinstance(e.value, int) and not isinstance(e.value, bool):
            return "(%d : ℤ)" % e.value if e.value >= 0 else "(-%d : ℤ)" % -e.value
        if isinstance(e, ast.Name):
            if e.id in self.rename:
                return self.rename[e.id]
            if e.id in self.consts:
                return self.consts[e.id]
            if self.module is not None and e.id in self.module.assigns and e.id not in self.consts:
                # another module-level constant (e.g. a hoisted 2*d): its defining expression, printed in place
                try:
                    return Printer(self.consts, self.module, self.global_int).expr(self.module.assigns[e.id])
                except LeanGenError:
                    pass
            v = self.global_int(e.id)
            if isinstance(v, int) and not isinstance(v, bool):
                return "(%d : ℤ)" % v if v >= 0 else "(-%d : ℤ)" % -v
            return lname(e.id)
        if isinstance(e, ast.UnaryOp) and isinstance(e.op, ast.USub):
            return "(-%s)" % self.expr(e.operand)
        if isinstance(e, ast.BinOp):
            a, b = self.expr(e.left), self.expr(e.right)
            if isinstance(e.op, ast.Add):
                return "(%s + %s)" % (a, b)
            if isinstance(e.op, ast.Sub):
                return "(%s - %s)" % (a, b)
            if isinstance(e.op, ast.Mult):
                return "(%s * %s)" % (a, b)
            if isinstance(e.op, ast.Mod):
                if isinstance(e.right, ast.Constant) and isinstance(e.right.value, int) and e.right.value > 0:
                    return "(%s %% %s)" % (a, b)
                if not (isinstance(e.right, ast.Name) and e.right.id in self.consts):
                    raise LeanGenError("modulus is not a module constant")
                return "(%s %% %s)" % (a, b)
            if isinstance(e.op, ast.FloorDiv) and isinstance(e.right, ast.Constant) and isinstance(e.right.value, int) and e.right.value > 0:
                return "(%s / %s)" % (a, b)
            if isinstance(e.op, ast.BitAnd) and isinstance(e.right, ast.Constant) and e.right.value == 1:
                return "(%s %% (2 : ℤ))" % a          # n & 1 == n % 2 for every int (T0 audit "int-and-1")
            if isinstance(e.op, ast.Pow) and isinstance(e.right, ast.Constant) and isinstance(e.right.value, int) and 0 <= e.right.value <= 8:
                return "(%s ^ %d)" % (a, e.right.value)
            raise LeanGenError("operator %s" % type(e.op).__name__)
        if isinstance(e, ast.IfExp):
            return "(if %s then %s else %s)" % (self.cond(e.test), self.expr(e.body), self.expr(e.orelse))
        if isinstance(e, ast.Call) and isinstance(e.func, ast.Name):
            if e.func.id == "inv" and len(e.args) == 1:
                self.calls.add("inv")
                return "(spake_inv %s)" % self.expr(e.args[0])
            if e.func.id == "bool" and len(e.args) == 1 and not e.keywords:
                return self.cond(e.args[0])        # bool(c) of a condition, in a function whose result is a proposition
            if e.func.id == "pow" and len(e.args) == 3:
                return "((%s ^ (%s).toNat) %% %s)" % tuple(self.expr(a) for a in e.args)
        if isinstance(e, ast.Tuple):
            return "(" + ", ".join(self.expr(x) for x in e.elts) + ")"
        if isinstance(e, ast.Compare):
            parts, left = [], e.left
            for o, r in zip(e.ops, e.comparators):
                op = {ast.Eq: "=", ast.NotEq: "≠"}.get(type(o))
                if not op:
                    raise LeanGenError("comparison operator")
                parts.append("(%s %s %s)" % (self.expr(left), op, self.expr(r)))
                left = r
            return parts[0] if len(parts) == 1 else "(" + " ∧ ".join(parts) + ")"
        if isinstance(e, ast.BoolOp) and isinstance(e.op, ast.And):
            return "(" + " ∧ ".join(self.expr(v) for v in e.values) + ")"
        if isinstance(e, ast.Subscript) and isinstance(e.value, ast.Name) and isinstance(e.slice, ast.Constant):
            return "%s_%d" % (e.value.id, e.slice.value)
        raise LeanGenError("expression %s" % ast.dump(e)[:80])


_INLINE_COUNTER = [0]


def _cond(self, t):
    """a test position: comparisons / and stay propositions, an int-valued test means `!= 0`"""
    if isinstance(t, (ast.Compare,)) or (isinstance(t, ast.BoolOp) and isinstance(t.op, ast.And)):
        return self.expr(t)
    if isinstance(t, ast.UnaryOp) and isinstance(t.op, ast.Not):
        return "(¬ %s)" % _cond(self, t.operand)
    return "(%s ≠ (0 : ℤ))" % self.expr(t)


Printer.cond = _cond


def inline_helper(pr, call, lets):
    """`helper(args)` for a straight-line module-level helper: returns the list of Lean expressions of its returned tuple
    (or a single expression), appending the helper's locals (renamed) to `lets`"""
    if pr.module is None or not isinstance(call.func, ast.Name) or call.func.id not in pr.module.functions:
        raise LeanGenError("call of %s" % ast.unparse(call.func))
    h = pr.module.functions[call.func.id].node
    if call.keywords or h.args.vararg or h.args.kwarg or len(h.args.args) != len(call.args):
        raise LeanGenError("helper call shape")
    _INLINE_COUNTER[0] += 1
    pre = "%s%d_" % (h.name.strip("_"), _INLINE_COUNTER[0])
    ren = dict(pr.rename)
    for a, v in zip(h.args.args, call.args):
        nm = pre + lname(a.arg)
        lets.append((nm, pr.expr(v)))
        ren[a.arg] = nm
    sub = Printer(pr.consts, pr.module, pr.global_int, ren)
    for st in h.body:
        if isinstance(st, ast.Expr) and isinstance(st.value, ast.Constant):
            continue
        if isinstance(st, ast.Assign) and len(st.targets) == 1 and isinstance(st.targets[0], ast.Name):
            nm = pre + lname(st.targets[0].id)
            lets.append((nm, sub.expr(st.value)))
            sub.rename[st.targets[0].id] = nm
            continue
        if isinstance(st, ast.Return):
            if isinstance(st.value, ast.Tuple):
                return [sub.expr(x) for x in st.value.elts]
            return sub.expr(st.value)
        raise LeanGenError("helper %s: statement %s" % (h.name, type(st).__name__))
    raise LeanGenError("helper %s: no return" % h.name)


def is_helper_call(pr, e):
    return isinstance(e, ast.Call) and isinstance(e.func, ast.Name) and pr.module is not None \
        and e.func.id in pr.module.functions and e.func.id not in ("inv",)


def function_to_lean(fnode, consts, tuple_params, module=None, global_int=None):
    """tuple_params: {param name: arity} for parameters that are coordinate tuples."""
    pr = Printer(consts, module, global_int)
    params = []
    body = list(fnode.body)
    unpacked = {}
    lets = []
    # leading tuple unpackings define the components of tuple parameters
    for a in fnode.args.args:
        if a.arg in tuple_params:
            names = None
            for st in body:
                if isinstance(st, ast.Assign) and len(st.targets) == 1 and isinstance(st.targets[0], ast.Tuple) \
                        and isinstance(st.value, ast.Name) and st.value.id == a.arg:
                    names = [lname(e.id) for e in st.targets[0].elts]
                    body.remove(st)
                    break
            if names is None:
                names = ["%s_%d" % (a.arg, i) for i in range(tuple_params[a.arg])]
            if len(names) != tuple_params[a.arg]:
                raise LeanGenError("tuple arity of %s" % a.arg)
            seen = {}
            for i, n in enumerate(names):
                if n in seen or n == "_u":
                    names[i] = "%s_%d" % (n, i)
                seen[n] = 1
            params += names
        else:
            params.append(lname(a.arg))
    ret = None
    for st in body:
        if isinstance(st, ast.Expr) and isinstance(st.value, ast.Constant):
            continue
        if isinstance(st, ast.Assign) and len(st.targets) == 1 and is_helper_call(pr, st.value):
            r = inline_helper(pr, st.value, lets)
            t = st.targets[0]
            if isinstance(t, ast.Name) and not isinstance(r, list):
                lets.append((lname(t.id), r))
            elif isinstance(t, ast.Tuple) and isinstance(r, list) and len(r) == len(t.elts):
                for tt, rr in zip(t.elts, r):
                    lets.append((lname(tt.id), rr))
            else:
                raise LeanGenError("helper result shape")
            continue
        if isinstance(st, ast.Assign) and len(st.targets) == 1 and isinstance(st.targets[0], ast.Name):
            lets.append((lname(st.targets[0].id), pr.expr(st.value)))
            continue
        if isinstance(st, ast.Assign) and len(st.targets) == 1 and isinstance(st.targets[0], ast.Tuple) \
                and isinstance(st.value, ast.Tuple) and len(st.value.elts) == len(st.targets[0].elts):
            for t, v in zip(st.targets[0].elts, st.value.elts):
                lets.append((lname(t.id), pr.expr(v)))
            continue
        if isinstance(st, ast.Return) and is_helper_call(pr, st.value):
            r = inline_helper(pr, st.value, lets)
            ret = "(" + ", ".join(r) + ")" if isinstance(r, list) else r
            break
        if isinstance(st, ast.Return):
            ret = pr.expr(st.value)
            break
        if isinstance(st, ast.If) and not st.orelse and len(st.body) == 1 and isinstance(st.body[0], ast.Assign) \
                and len(st.body[0].targets) == 1 and isinstance(st.body[0].targets[0], ast.Name):
            # `if c: x = e`   ==   x := if c then e else x     (conditional re-assignment of one local)
            t = st.body[0].targets[0].id
            lets.append((lname(t), "(if %s then %s else %s)" % (pr.cond(st.test), pr.expr(st.body[0].value), lname(t))))
            continue
        if isinstance(st, ast.If) and len(st.body) == 1 and isinstance(st.body[0], ast.Return) \
                and isinstance(st.body[0].value, ast.Constant) and st.body[0].value.value is True:
            # `if c: return True` followed by `return False`  ==  the proposition c
            idx = body.index(st)
            rest = [s for s in body[idx + 1:] if not (isinstance(s, ast.Expr) and isinstance(s.value, ast.Constant))]
            if len(rest) == 1 and isinstance(rest[0], ast.Return) and isinstance(rest[0].value, ast.Constant) and rest[0].value.value is False:
                ret = pr.expr(st.test)
                break
        raise LeanGenError("statement %s at line %d" % (type(st).__name__, st.lineno))
    if ret is None:
        raise LeanGenError("no return")
    return params, lets, ret


def render(name, params, lets, ret, rtype):
    out = "def spake_%s (%s : ℤ) : %s :=\n" % (name, " ".join(params), rtype)
    for n, e in lets:
        out += "  let %s := %s\n" % (n, e)
    out += "  %s\n" % ret
    return out
