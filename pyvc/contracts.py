"""Contract registry.  Contracts are sidecar declarations (strings in the Python expression
language, parsed with `ast` and evaluated symbolically by the executor, and evaluated natively by
the replay harness)."""
import ast, os, importlib, sys


class Clause:
    def __init__(self, kind, name, expr, when=None, tags="", exc=None, note=None):
        self.kind, self.name, self.expr, self.when, self.exc, self.note = kind, name, expr, when, exc, note
        self.tags = set(tags.split()) if isinstance(tags, str) else set(tags)
        self.expr_ast = ast.parse(expr.strip(), mode="eval").body if expr is not None else None
        self.when_ast = ast.parse(when.strip(), mode="eval").body if when is not None else None

    def __repr__(self):
        return "<%s %s>" % (self.kind, self.name)


class LoopSpec:
    def __init__(self, ordinal):
        self.ordinal = ordinal
        self.invariants = []   # Clause
        self.ghost = []        # (name, type, init expr, update expr)  ghost variables


class Contract:
    def __init__(self, qual):
        self.qual = qual
        self.param_types = {}
        self.ret_type = None
        self.pre = []
        self.post = []
        self.exc = []
        self.may_raise_list = []
        self.writes_list = None      # None = unspecified ; [] = pure
        self.inline_flag = False
        self.abstract_flag = False
        self.loops = {}
        self.hints = []              # (anchor, Clause)   anchor: 'L<line-offset>' or 'before:<callee>' or 'entry'/'exit'
        self.lemmas = []             # (anchor, lemma name, [arg expr strings])
        self.binds = []              # (target path, expr)  executed at harness setup
        self.case_list = [None]      # list of dicts param->type overriding param_types
        self.refines_qual = None
        self.reveal_list = []
        self.facts = []              # ground facts about module constants: checked by the oracle, then assumed
        self.self_cases = None
        self.canaries = []           # deliberately false clauses that must be refuted
        self.measure = None
        self.min_obligations = 1
        self.witnesses = []          # concrete inputs (python expr strings) for precondition reachability / cross-check
        self.gen = None              # python source of a generator of concrete inputs (for replay search)
        self.entropy_clause = None
        self.setup_code = None
        self.ghost_params = {}
        self.lean_theorem = None

    # -- builder API ---------------------------------------------------------------------------
    def params(c, **kw):
        c.param_types.update(kw); return c

    def returns(self, t):
        self.ret_type = t; return self

    def requires_(self, expr, name=None):
        self.pre.append(Clause("requires", name or "pre%d" % len(self.pre), expr)); return self

    def ensures_(self, expr, when=None, name=None, tags="", on="return", export=True):
        cl = Clause("ensures", name or "post%d" % len(self.post), expr, when, tags); cl.on = on
        cl.export = export      # export=False: proved for the function, hidden from callers (opaque)
        self.post.append(cl); return self

    def raises_(self, exc, when, name=None, tags=""):
        self.exc.append(Clause("raises", name or "raises-%s%d" % (exc, len(self.exc)), when, None, tags, exc=exc))
        return self

    def may_raise(self, *excs):
        self.may_raise_list.extend(excs); return self

    def pure(self):
        self.writes_list = []; return self

    def writes(self, *fields):
        self.writes_list = list(fields); return self

    def inline(self):
        self.inline_flag = True; return self

    def abstract(self):
        self.abstract_flag = True; return self

    def loop(self, ordinal, invariant, name=None, tags=""):
        ls = self.loops.setdefault(ordinal, LoopSpec(ordinal))
        ls.invariants.append(Clause("invariant", name or "inv%d.%d" % (ordinal, len(ls.invariants)), invariant, None, tags))
        return self

    def loop_variant(self, variant, ordinal, invariant, name=None, tags=""):
        """an alternative set of loop invariants (variant >= 1): tried by the verifier, in order, when the default set does not
        carry the proof - e.g. for the same search loop written with a sentinel, or stepping the candidate instead of a counter"""
        if not hasattr(self, "loop_variants"):
            self.loop_variants = {}
        ls = self.loop_variants.setdefault(variant, {}).setdefault(ordinal, LoopSpec(ordinal))
        ls.invariants.append(Clause("invariant", name or "inv%d.%d" % (ordinal, len(ls.invariants)), invariant, None, tags))
        return self

    def loop_variant_ghost(self, variant, ordinal, name, init, update):
        if not hasattr(self, "loop_variants"):
            self.loop_variants = {}
        ls = self.loop_variants.setdefault(variant, {}).setdefault(ordinal, LoopSpec(ordinal))
        ls.ghost.append((name, init, update)); return self

    def loop_ghost(self, ordinal, name, init, update):
        ls = self.loops.setdefault(ordinal, LoopSpec(ordinal))
        ls.ghost.append((name, init, update)); return self

    def hint(self, at, expr, name=None):
        self.hints.append((at, Clause("hint", name or "hint%d" % len(self.hints), expr))); return self

    def lemma(self, at, lemma, *args):
        self.lemmas.append((at, lemma, list(args))); return self

    def bind(self, target, expr):
        self.binds.append((target, expr)); return self

    def cases(self, *dicts):
        self.case_list = list(dicts); return self

    def refines(self, qual):
        self.refines_qual = qual; return self

    def reveal(self, *names):
        self.reveal_list.extend(names); return self

    def fact(self, expr):
        self.facts.append(expr); return self

    def canary(self, expr, when=None, name=None):
        self.canaries.append(Clause("canary", name or "canary%d" % len(self.canaries), expr, when)); return self

    def decreases(self, expr):
        self.measure = expr; return self

    def witness(self, *exprs):
        self.witnesses.extend(exprs); return self

    def generator(self, src):
        self.gen = src; return self

    def ghost(c, **kw):
        c.ghost_params.update(kw); return c

    def lean(c, theorem):
        c.lean_theorem = theorem; return c

    def setup(self, code):
        self.setup_code = code; return self

    # python keywords as method names are awkward; provide aliases
    requires = requires_
    ensures = ensures_
    raises = raises_


class Registry:
    def __init__(self):
        self.contracts = {}
        self.shapes = {}          # class qual -> {field: type}
        self.invariants = {}      # class qual -> [Clause]
        self.lemmas = {}          # property-level lemmas: name -> function
        self.props = {}           # property id -> PropertySpec
        self.ghosts = {}          # qual -> (module name, python source of a ghost program)
        self.aliases = {}         # (class qual, ghost attribute) -> real attribute
        self.ghost_attrs = {}     # ghost attribute name -> (class qual prefix, function(ip, obj))
        self.impls = {}           # abstract contract qual -> [implementing contract quals]
        self.ilaw_lemmas = {}     # (implementation name, ILAW name) -> ghost lemma qual

    def contract(self, qual):
        c = self.contracts.get(qual)
        if c is None:
            c = self.contracts[qual] = Contract(qual)
        return c

    def shape(self, cls, **fields):
        self.shapes.setdefault(cls, {}).update(fields)

    def class_invariant(self, cls, expr, name=None, tags=""):
        lst = self.invariants.setdefault(cls, [])
        lst.append(Clause("class_invariant", name or "%s.inv%d" % (cls.split(".")[-1], len(lst)), expr, None, tags))

    def get(self, qual):
        return self.contracts.get(qual)

    def alias(self, cls, **m):
        for k, v in m.items():
            self.aliases[(cls, k)] = v

    def finalize(self):
        """refinement: an implementing contract inherits the interface clauses (guarded by the interface's
        precondition) as additional obligations named refines:<clause>"""
        for q, c in list(self.contracts.items()):
            if not c.refines_qual or getattr(c, "_refined", False):
                continue
            iface = self.contracts[c.refines_qual]
            self.impls.setdefault(c.refines_qual, []).append(q)
            guard = " and ".join("(%s)" % r.expr for r in iface.pre) or None
            for cl in iface.post:
                n = Clause("ensures", "refines:" + cl.name, cl.expr, guard if cl.when is None else ("(%s) and (%s)" % (guard, cl.when) if guard else cl.when), cl.tags | {"REFINE"})
                n.on = getattr(cl, "on", "return")
                c.post.append(n)
            for cl in iface.exc:
                if guard:
                    raise ValueError("interface %s: raises clauses under a precondition are not supported" % c.refines_qual)
                c.exc.append(Clause("raises", "refines:" + cl.name, cl.expr, None, cl.tags | {"REFINE"}, exc=cl.exc))
            c._refined = True

    def ghost_function(self, qual, module, src):
        import textwrap
        self.ghosts[qual] = (module, textwrap.dedent(src))
        return self.contract(qual)


REG = Registry()


def load_all():
    d = os.path.join(os.path.dirname(os.path.dirname(os.path.abspath(__file__))), "contracts")
    if os.path.dirname(d) not in sys.path:
        sys.path.insert(0, os.path.dirname(d))
    for fn in sorted(os.listdir(d)):
        if fn.endswith(".py") and not fn.startswith("_"):
            importlib.import_module("contracts." + fn[:-3])
    REG.finalize()
    return REG
