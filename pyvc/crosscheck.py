"""Engine cross-check: the symbolic executor run on CONCRETE inputs (everything inlined, real hashes) must agree with
CPython running the same program on the real modules.  This is a bounded test OF THE VERIFIER (front end, interpreter,
concrete paths of the library model), reported under engine_crosscheck; it never contributes to a verdict."""
import ast, textwrap, os
from . import sym
from .interp import Interp, Ctx, Frame
from .values import *
from .repo import FunctionInfo, oracle, Oracle

PROGRAMS = {
 "util": ("util", '''
def prog():
    out = []
    for n, m in [(0, 0), (1, 2), (255, 255), (256, 65535), (5, 3), (65536, 65535), (-1, 5), (2**64, 2**64), (300, 2**70)]:
        out.append(try_call(number_to_bytes, n, m))
        out.append(try_call(size_bits, m))
        out.append(try_call(size_bytes, m))
        out.append(try_call(generate_mask, m))
    for b in [b"", b"\\x00", b"\\x01\\x00", b"\\xff" * 9]:
        out.append(try_call(bytes_to_number, b))
    for start, stop in [(0, 1), (0, 3), (5, 260), (0, 2**20 + 7), (-4, 100)]:
        out.append(try_call(unbiased_randrange, start, stop, entropy(3)))
    out.append(try_call(list_of_ints_to_number, [1, 2, 255]))
    out.append(try_call(mask_list_of_ints, 7, [255, 3]))
    return out
'''),
 "groups": ("groups", '''
def prog():
    out = []
    g = IntegerGroup(2027, 1013, 4)
    out.append(try_call(IntegerGroup, 23, 11, 5))
    for pw in [b"", b"pw", b"x" * 70]:
        out.append(g.password_to_scalar(pw))
        e = try_call(g.arbitrary_element, pw)
        out.append(e[1].to_bytes() if e[0] == "return" else e)
    b = g.Base
    for n in [0, 1, -1, 1012, 1013, 5000]:
        out.append(b.scalarmult(n).to_bytes())
        out.append(b.scalarmult(n).add(b).to_bytes())
        out.append(b.scalarmult(n) == b.add(b))
    for s in [0, 1, 1012, 1013, 1014, -1]:
        out.append(try_call(g.scalar_to_bytes, s))
    for x in [b"", b"\\x00\\x04", b"\\x00\\x00", b"\\x07\\xeb", b"\\x00\\x02", b"\\x04", b"\\x00\\x00\\x04"]:
        e = try_call(g.bytes_to_element, x)
        out.append(e[1].to_bytes() if e[0] == "return" else e)
        out.append(try_call(g.bytes_to_scalar, x))
    out.append(g.random_scalar(entropy(5)))
    out.append(password_to_scalar(b"pw", 32, 2**252 + 27742317777372353535851937790883648493))
    return out
'''),
 "ed25519": ("ed25519_basic", '''
def prog():
    out = []
    out.append(inv(5))
    out.append(xrecover(B[1]))
    p2 = double_element(Base.XYTZ)
    p3 = add_elements(p2, Base.XYTZ)
    out.append(xform_extended_to_affine(p3))
    out.append(xform_extended_to_affine(_add_elements_nonunfied(p2, Base.XYTZ)))
    out.append(encodepoint(xform_extended_to_affine(scalarmult_element(Base.XYTZ, 12345))))
    out.append(encodepoint(xform_extended_to_affine(scalarmult_element_safe_slow(Base.XYTZ, 12345))))
    out.append(try_call(scalarmult_element_safe_slow, Base.XYTZ, -1))
    out.append(is_extended_zero(Zero.XYTZ))
    out.append(is_extended_zero(scalarmult_element_safe_slow(Base.XYTZ, L)))
    out.append(isoncurve(B))
    out.append(isoncurve([1, 2]))
    for s in [Base.to_bytes(), Zero.to_bytes(), Base.to_bytes() + b"\\x00", b"", b"\\x02" + b"\\x00" * 31, b"\\x01" + b"\\x00" * 30 + b"\\x80", b"\\xff" * 32]:
        e = try_call(bytes_to_element, s)
        out.append(e[1].to_bytes() if e[0] == "return" else e)
        d = try_call(decodepoint, s)
        out.append(d)
    out.append(try_call(bytes_to_scalar, b"\\x01" * 32))
    out.append(try_call(bytes_to_scalar, b"\\x01" * 31))
    out.append(scalar_to_bytes(L + 5))
    out.append(random_scalar(entropy(9)))
    e = arbitrary_element(b"M")
    out.append(e.to_bytes())
    out.append(Base.add(Zero).to_bytes())
    out.append(Base.negate().add(Base) is Zero)
    out.append(Base.scalarmult(-3).to_bytes())
    out.append(Base.scalarmult(L) is Zero)
    out.append(Base.subtract(Base.scalarmult(2)).to_bytes())
    out.append(Base == Base.scalarmult(1))
    out.append(Base != Zero)
    return out
'''),
 "spake2": ("spake2", '''
def prog():
    out = []
    for A, B, pa, pb in [(SPAKE2_A, SPAKE2_B, 1, 2), (SPAKE2_Symmetric, SPAKE2_Symmetric, 3, 4)]:
        if A is SPAKE2_A:
            a = A(b"pw", b"ida", b"idb", DefaultParams, entropy(pa))
            b = B(b"pw", b"ida", b"idb", DefaultParams, entropy(pb))
        else:
            a = A(b"pw", b"ids", DefaultParams, entropy(pa))
            b = B(b"pw", b"ids", DefaultParams, entropy(pb))
        out.append(try_call(a.serialize))
        ma = a.start()
        mb = b.start()
        out.append(ma)
        out.append(mb)
        out.append(try_call(a.start))
        blob = a.serialize()
        out.append(json.loads(blob.decode("ascii")))
        r = A.from_serialized(blob, DefaultParams)
        out.append(try_call(r.finish, ma))
        out.append(try_call(r.finish, mb))
        out.append(try_call(a.finish, b"C" + mb[1:]))
        out.append(try_call(a.finish, mb))
        out.append(try_call(b.finish, ma + b"\\x00"))
        out.append(try_call(B.from_serialized, blob, DefaultParams) [0])
    out.append(finalize_SPAKE2(b"a", b"b", b"X", b"Y", b"K", b"pw"))
    out.append(finalize_SPAKE2_symmetric(b"s", b"m2", b"m1", b"K", b"pw"))
    return out
'''),
}

NATIVE = r'''
import importlib, json
m = importlib.import_module("spake2." + modname)
ns = dict(vars(m))
class _Ent:
    def __init__(self, pattern): self.pattern, self.count = pattern, 0
    def __call__(self, n):
        self.count += 1
        return bytes((self.pattern * self.count + i * 7) % 256 for i in range(n))
def try_call(f, *a):
    try:
        return ("return", f(*a))
    except BaseException as e:
        return ("raise", type(e).__name__)
ns.update(entropy=_Ent, try_call=try_call)
exec(src, ns)
def norm(v):
    if isinstance(v, (list, tuple)): return [norm(x) for x in v]
    if isinstance(v, dict): return {k: norm(x) for k, x in v.items()}
    if isinstance(v, (bytes, bytearray)): return "b:" + bytes(v).hex()
    if isinstance(v, bool) or v is None or isinstance(v, (int, str)): return v if not isinstance(v, int) or isinstance(v, bool) else "i:%d" % v
    return "obj:" + type(v).__name__
result = norm(ns["prog"]())
'''


def norm(ip, v):
    if isinstance(v, (list, tuple)):
        return [norm(ip, x) for x in v]
    if isinstance(v, dict):
        return {k: norm(ip, x) for k, x in v.items()}
    if isinstance(v, bytes):
        return "b:" + v.hex()
    if isinstance(v, bool) or v is None or isinstance(v, str):
        return v
    if isinstance(v, int):
        return "i:%d" % v
    if isinstance(v, SObj):
        return "obj:" + ip.ctx.obj(v).clsname().split(".")[-1]
    return "SYMBOLIC:%r" % (v,)


def run(repo, reg, spec):
    """runs the comparison in a thread with a large stack (the ladders recurse 256 deep through the interpreter)"""
    import threading, sys
    out = {}

    def work():
        old = sys.getrecursionlimit()
        sys.setrecursionlimit(60000)
        try:
            out["r"] = _run(repo, reg, spec)
        except BaseException as e:
            out["r"] = {"programs": 0, "values_compared": 0, "mismatches": [{"error": "%s: %s" % (type(e).__name__, e)}]}
        finally:
            sys.setrecursionlimit(old)
    threading.stack_size(512 * 1024 * 1024)
    t = threading.Thread(target=work, daemon=True)
    t.start()
    t.join(float(os.environ.get("PYVC_XC_BUDGET_S", "90")))
    threading.stack_size(0)
    if t.is_alive() or "r" not in out:
        # the executor did not finish the concrete programs in the budget (typically: an edit makes a concrete value
        # symbolic in the model, so the run degenerates into symbolic exploration): reported, never a verdict
        return {"programs": 0, "values_compared": 0, "mismatches": [{"error": "UNSUPPORTED: engine cross-check exceeded its time budget"}]}
    return out["r"]


def _run(repo, reg, spec):
    """returns dict(programs, values_compared, mismatches[list])"""
    from .vc import Verifier
    res = {"programs": 0, "values_compared": 0, "mismatches": []}
    for name, (modname, src) in PROGRAMS.items():
        src = textwrap.dedent(src)
        r = oracle().req(op="exec", code=NATIVE, env={"modname": Oracle.enc(modname), "src": Oracle.enc(src)})
        if not r.get("ok"):
            res["mismatches"].append({"program": name, "native_error": r.get("error")})
            continue
        native = Oracle.dec(r["value"])
        v = Verifier(repo, reg, spec)
        v.concrete_mode = True
        v.cur_contract = None
        v.cur_qual = "crosscheck." + name
        sym.reset_facts()
        ctx = Ctx([], v)
        ctx.raw_globals = True
        ip = Interp(repo, reg, ctx, spec)
        node = ast.parse(src).body[0]
        fi = FunctionInfo(repo.modules[modname], "crosscheck." + name, node)
        fi.ghost = True
        env = {}
        fr_env = dict(env)

        def mk_entropy(pattern):
            e = SEntropy(1000 + pattern)
            e.pattern = pattern
            return e
        # `entropy(k)` and `json` for the programs
        ip_builtin = ip.builtin_name

        def builtin_name(nm, _orig=ip_builtin):
            if nm == "entropy":
                return SBuiltin("xc:entropy")
            return _orig(nm)
        ip.builtin_name = builtin_name
        from . import lib
        lib.TABLE["xc:entropy"] = lambda ip_, fv, args, kw, pure: mk_entropy(args[0])
        try:
            got = ip.exec_function(fi, [], {}, env={})
            got = norm(ip, got)
        except Raise as e:
            got = ["RAISED " + e.exc]
        except Unsupported as e:
            got = ["UNSUPPORTED " + str(e)]
        except PathEnd as e:
            got = ["PATHEND " + str(e)]
        res["programs"] += 1
        n = max(len(native), len(got))
        for i in range(n):
            a = native[i] if i < len(native) else "<missing>"
            b = got[i] if i < len(got) else "<missing>"
            res["values_compared"] += 1
            if normalize_exc(a) != normalize_exc(b):
                res["mismatches"].append({"program": name, "index": i, "cpython": str(a)[:200], "executor": str(b)[:200]})
    return res


def normalize_exc(v):
    if isinstance(v, list) and len(v) == 2 and v[0] == "raise":
        return ["raise", str(v[1]).split(".")[-1].replace("Error", "Error")]
    if isinstance(v, list):
        return [normalize_exc(x) for x in v]
    return v
