"""Lean 4 + Mathlib back end.

(1) static theory lean/SpakeTheory/Algebra.lean: the machine-checked side of the T1 lemma schemas of pyvc/theory.py;
(2) generated: the coordinate-level functions of ed25519_basic.py are printed to Lean on every run
    (pyvc/leangen.py) and the theorems of lean/SpakeTheory/EdwardsProofs.lean are checked against that text.
Results are cached by the sha256 of the exact text handed to `lean` (a build cache: same input, same verdict)."""
import os, re, json, hashlib, subprocess, time, tempfile, shutil
from .interp import Obligation

VERIF = os.path.dirname(os.path.dirname(os.path.abspath(__file__)))
LEAN_DIR = os.path.join(VERIF, "lean", "SpakeTheory")
CACHE = os.path.join(VERIF, ".cache")
FORBIDDEN = re.compile(r"\b(sorry|admit|native_decide)\b|^\s*axiom\b", re.M)

# theory.py lemma name -> Lean theorem (file Algebra.lean, namespace Spake2Algebra) or Mathlib fact
THEOREMS = {
    "powmod_mul": "powmod_mul", "powmod_pow": "powmod_pow", "powmod_exp_mul": "powmod_exp_mul",
    "powmod_base_one": "powmod_base_one", "powmod_zero": "powmod_zero", "fermat": "fermat",
    "prime_ge_two": "prime_ge_two_int", "prime_mul_nonzero": "prime_mul_nonzero",
    "spake2_agree": "spake2_agree",
    "ed_mul_zero": "mul_zero'", "ed_mul_step": "mul_step", "ed_mul_mod": "mul_mod", "ed_insub_def": "insub",
    "ed_insub_add": "insub_add", "ed_insub_mul": "insub_mul", "ed_insub_O": "insub_zero", "ed_insub_neg": "insub_neg",
    "ed_prime_order": "prime_order", "ed_neg_mul": "neg_mul_L", "ed_mul_one": "mul_one'", "ed_mul_mul": "mul_mul",
    "ed_add_zero": "Mathlib:add_zero/zero_add", "ed_add_comm": "Mathlib:add_comm", "ed_neg_def": "neg_mul'",
    "ed_mul_O": "Mathlib:smul_zero", "ed_neg_O": "Mathlib:neg_zero",
    "ed_same_y": "Edwards:enc_injective_core", "ed_enc_injective": "Edwards:enc_injective_core",
    "ed_ladder_diff": "Edwards:ladder_diff_abstract",      # with zero_coord_order_four: a zero coordinate means order | 4
    "ed_xrecover_complete": "Edwards:xrecover_complete",   # with xrecover_sq and xrecover_range
}
NEEDS_EDGROUP = {k for k in THEOREMS if k.startswith("ed_") and k not in ("ed_same_y", "ed_xrecover_complete", "ed_enc_injective")}


def _sha(text):
    return hashlib.sha256(text.encode()).hexdigest()


def run_lean(text, tag, timeout=1500):
    """check one Lean text; returns dict(ok, seconds, output tail, cached)"""
    os.makedirs(CACHE, exist_ok=True)
    ver = subprocess.run(["lean", "--version"], capture_output=True, text=True).stdout.strip()
    key = _sha(ver + "\n" + text)
    cf = os.path.join(CACHE, "lean_%s_%s.json" % (tag, key[:24]))
    if os.path.exists(cf):
        r = json.load(open(cf))
        r["cached"] = True
        return r
    d = tempfile.mkdtemp(prefix="pyvc_lean_")
    try:
        fn = os.path.join(d, tag + ".lean")
        open(fn, "w").write(text)
        t0 = time.time()
        try:
            p = subprocess.run(["lean", fn], capture_output=True, text=True, timeout=timeout, cwd=d)
            out = (p.stdout + p.stderr)
            rc = p.returncode
        except subprocess.TimeoutExpired:
            out, rc = "TIMEOUT", 124
        secs = time.time() - t0
    finally:
        shutil.rmtree(d, ignore_errors=True)
    bad_axioms = []
    for m in re.finditer(r"depends on axioms: \[([^\]]*)\]", out):
        for a in m.group(1).split(","):
            a = a.strip()
            if a and a not in ("propext", "Classical.choice", "Quot.sound"):
                bad_axioms.append(a)
    ok = rc == 0 and not FORBIDDEN.search(text) and "sorry" not in out and "error" not in out and not bad_axioms
    r = dict(ok=ok, rc=rc, seconds=round(secs, 1), tail=out[-1500:], sha=key, bad_axioms=bad_axioms, cached=False)
    if rc != 124:
        json.dump(r, open(cf, "w"))
    return r


_STATIC = {}


def algebra_status():
    if "alg" not in _STATIC:
        fn = os.path.join(LEAN_DIR, "Algebra.lean")
        text = open(fn).read()
        r = run_lean(text, "Algebra")
        names = set(re.findall(r"^\s*(?:theorem|lemma|def)\s+([A-Za-z_0-9']+)", text, re.M))
        _STATIC["alg"] = (r, names)
    return _STATIC["alg"]


def bridge_status(part):
    """one of the two bridge texts (pyvc/leanbridge.py): the z3 instance of every lemma schema printed as a Lean statement, proved
    by lean/SpakeTheory/BridgeProofs{Abstract,Curve}.lean; returns dict(ok, names, seconds, cached, why)"""
    key = "bridge_" + part
    if key not in _STATIC:
        try:
            from . import leanbridge
            text, errors = leanbridge.assemble(part=part)
            r = run_lean(text, "Bridge_" + part)
            names = set(re.findall(r"^theorem (?:Bridge\.)?bridge_([A-Za-z_0-9]+)\s*:\s*stmt_\1\b", text, re.M))
            stmts = set(re.findall(r"^def stmt_([A-Za-z_0-9]+) : Prop", text, re.M))
            cstm = set(re.findall(r"^def cstmt_([A-Za-z_0-9]+) : Prop", text, re.M))
            cnames = set(re.findall(r"^theorem (?:Bridge\.)?cbridge_([A-Za-z_0-9]+)\s*:\s*cstmt_\1\b", text, re.M)) & cstm
            closed = "theorem Bridge.Lc_prime" in text and (part == "abstract" or "theorem Bridge.Q_prime" in text)
            _STATIC[key] = dict(ok=r["ok"] and not errors and closed, names=names & stmts, cnames=cnames, seconds=r["seconds"], cached=r["cached"], sha=r["sha"],
                                why=(str(errors) if errors else r["tail"][-400:]))
        except Exception as e:
            _STATIC[key] = dict(ok=False, names=set(), cnames=set(), seconds=0, cached=False, sha="", why="%s: %s" % (type(e).__name__, e))
    return _STATIC[key]


def lemma_status(name):
    """(status, detail) for a lemma schema of theory.py: discharged iff the Lean text that contains the *printed z3 instance* of
    the schema (`Bridge.stmt_<name>`, generated) and a proof `Bridge.bridge_<name> : Bridge.stmt_<name>` checks"""
    from . import theory, leanbridge
    l = theory.LEMMAS.get(name)
    if l is None or not l.proved or name not in leanbridge.SIG:
        return "assumed", "no Lean theorem (T2)"
    part = "curve" if name in leanbridge.COORD else "abstract"
    st = bridge_status(part)
    if st["ok"] and name in st["names"]:
        return "discharged", "Bridge.bridge_%s : Bridge.stmt_%s  (statement printed from the z3 schema; BridgeProofs%s.lean; lean %.0fs%s)" % (
            name, name, part.capitalize(), st["seconds"], ", cached" if st["cached"] else "")
    return "undecided", "bridge (%s) %s: %s" % (part, "does not check" if not st["ok"] else "has no proof of stmt_" + name, st["why"][-300:])


def primes_status():
    """Nat.Prime Q, L, q1024, q2048 proved in Lean (Lucas test, kernel arithmetic) from the Pratt certificates of certs/:
    pyvc/leanprimes.py prints the Lean text on every run; returns dict(ok, text, seconds, cached, why)"""
    if "primes" not in _STATIC:
        try:
            from . import leanprimes
            text = leanprimes.generate()
            r = run_lean(text, "Primes")
            _STATIC["primes"] = dict(ok=r["ok"], text=text, seconds=r["seconds"], cached=r["cached"], sha=r["sha"], why=r["tail"][-300:])
        except Exception as e:
            _STATIC["primes"] = dict(ok=False, text="", seconds=0, cached=False, sha="", why="%s: %s" % (type(e).__name__, e))
    return _STATIC["primes"]


# ---- generated part ------------------------------------------------------------------------------------------------------
GEN_FUNCS = [("inv", {}, "ℤ"), ("xrecover", {}, "ℤ"), ("double_element", {"pt": 4}, "ℤ × ℤ × ℤ × ℤ"), ("add_elements", {"pt1": 4, "pt2": 4}, "ℤ × ℤ × ℤ × ℤ"),
             ("_add_elements_nonunfied", {"pt1": 4, "pt2": 4}, "ℤ × ℤ × ℤ × ℤ"), ("xform_affine_to_extended", {"pt": 2}, "ℤ × ℤ × ℤ × ℤ"),
             ("xform_extended_to_affine", {"pt": 4}, "ℤ × ℤ"), ("is_extended_zero", {"XYTZ": 4}, "Prop"), ("isoncurve", {"P": 2}, "Prop")]


def generate_defs(repo, consts_values):
    from . import leangen
    m = repo.modules["ed25519_basic"]

    def lit(n):
        return "(%d : ℤ)" % n if n >= 0 else "(-%d : ℤ)" % -n
    out = "-- GENERATED on every run from src/spake2/ed25519_basic.py by pyvc/leangen.py; do not edit\n"
    out += "def Q : ℕ := 2^255 - 19\n"
    out += "def spake_d : ℤ := %s\n" % lit(consts_values["d"])
    out += "def spake_I : ℤ := %s\n\n" % lit(consts_values["I"])
    consts = {"Q": "(Q : ℤ)", "d": "spake_d", "I": "spake_I"}
    errors = {}

    def global_int(name):
        # other module-level integer constants (e.g. a hoisted 2*d): their real value, from the real module
        if name in m.assigns:
            from .repo import oracle, Oracle
            r = oracle().req(op="global", module="spake2.ed25519_basic", name=name)
            if r.get("ok"):
                v = Oracle.dec(r["value"])
                if isinstance(v, int) and not isinstance(v, bool):
                    return v
        return None
    for fn, tp, rt in GEN_FUNCS:
        try:
            node = m.functions[fn].node
            p, l, r = leangen.function_to_lean(node, consts, tp, module=m, global_int=global_int)
            out += leangen.render(fn, p, l, r, rt) + "\n"
        except Exception as e:
            errors[fn] = "%s: %s" % (type(e).__name__, e)
    return out, errors


def edwards_status(repo=None, verifier=None):
    if "edw" in _STATIC:
        return _STATIC["edw"]
    hdr = os.path.join(LEAN_DIR, "EdwardsHeader.lean")
    prf = os.path.join(LEAN_DIR, "EdwardsProofs.lean")
    if not (os.path.exists(hdr) and os.path.exists(prf)):
        _STATIC["edw"] = dict(ok=False, theorems=set(), why="EdwardsProofs.lean not present")
        return _STATIC["edw"]
    if repo is None:
        from .repo import Repo
        repo = Repo()
    from .repo import oracle, Oracle
    vals = {}
    for n in ("d", "I", "Q"):
        r = oracle().req(op="global", module="spake2.ed25519_basic", name=n)
        vals[n] = Oracle.dec(r["value"]) if r.get("ok") else None
    if vals["Q"] != 2 ** 255 - 19 or not isinstance(vals["d"], int) or not isinstance(vals["I"], int):
        _STATIC["edw"] = dict(ok=False, theorems=set(), why="module constants Q/d/I unreadable or Q != 2^255-19")
        return _STATIC["edw"]
    gen, errors = generate_defs(repo, vals)
    exttext = ""
    for extra_file in ("EdwardsExtra.lean", "EdwardsGroup.lean"):
        ext = os.path.join(LEAN_DIR, extra_file)
        if os.path.exists(ext):
            exttext += "\n" + open(ext).read()
    text = open(hdr).read() + "\n" + gen + "\n" + open(prf).read() + "\n" + exttext
    r = run_lean(text, "Edwards")
    names = set(re.findall(r"^\s*(?:theorem|lemma|instance|def)\s+([A-Za-z_0-9'.]+)", open(prf).read() + exttext, re.M))
    _STATIC["edw"] = dict(ok=r["ok"] and not errors, theorems=names, why=(str(errors) if errors else r["tail"][-400:]), seconds=r["seconds"], cached=r["cached"], gen_errors=errors, sha=r["sha"])
    return _STATIC["edw"]


def theorem_status(name, repo=None):
    st = edwards_status(repo)
    if st["ok"] and name in st["theorems"]:
        return "discharged", "EdwardsProofs.lean:%s checked against the generated mirror of the real function (lean %.0fs%s)" % (name, st.get("seconds", 0), ", cached" if st.get("cached") else "")
    return "undecided", "lean: %s" % st.get("why", "")[:400]


def report_for(verifier, rep, c, finfo):
    st, why = theorem_status(c.lean_theorem, verifier.repo)
    if st == "discharged":
        # the theorem must state the contract: the clause texts of the contract, printed over the generated mirror of the real
        # function (Bridge.cstmt_<fn>), are proved from it in BridgeProofsCurve.lean (Bridge.cbridge_<fn>)
        fn = c.qual.split(".")[-1]
        b = bridge_status("curve")
        if b["ok"] and fn in b["cnames"]:
            why += "; contract clauses printed as Bridge.cstmt_%s and proved (cbridge_%s)" % (fn, fn)
        else:
            st, why = "undecided", "lean: contract bridge %s: %s" % ("does not check" if not b["ok"] else "has no proof of cstmt_" + fn, b["why"][-300:])
    if st != "discharged":
        # a failed proof is not a violation: look for a concrete falsifying input on the real function
        from . import edfalsify
        w = edfalsify.falsify(c.qual)
        if w is not None:
            st, why = "refuted", "real function disagrees with the Edwards law on a concrete valid input"
    for cl in c.post:
        ob = Obligation("%s/%s#lean" % (c.qual, cl.name), "ensures", cl, None, st,
                        model=(w if st == "refuted" else None), extra={"reason": why, "backend": "lean", "theorem": c.lean_theorem})
        rep.obligations.append(ob)
    rep.paths = 1
    rep.path_outcomes.append((0, "lean", "return", None))
    rep.notes.add("lean back end: %s -> %s" % (c.lean_theorem, st))
