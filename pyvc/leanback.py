"""Lean back end (stub until the static theory is in place)."""
from .interp import Obligation


def theorem_status(name):
    return "undecided", "lean back end not wired yet"


def report_for(verifier, rep, c, finfo):
    st, why = theorem_status(c.lean_theorem)
    for cl in c.post:
        ob = Obligation("%s/%s#lean" % (c.qual, cl.name), "ensures", cl, None, st, extra={"reason": why, "backend": "lean", "theorem": c.lean_theorem})
        rep.obligations.append(ob)
    rep.paths = 1
    rep.path_outcomes.append((0, "lean", "return", None))
