"""Bridge between the SMT side and the Lean side of a T1 lemma schema.

For every lemma schema of pyvc/theory.py the *very function that produces the z3 instance used in proofs* is called on
fresh constants and the resulting z3 term is pretty-printed as a Lean proposition (`def Bridge.stmt_<name> : Prop`).
lean/SpakeTheory/BridgeProofs.lean (static) proves `theorem bridge_<name> : Bridge.stmt_<name>` from the theorems of
Algebra.lean / Edwards*.lean.  So what z3 is told and what Lean proved is one text, generated on every run; what remains
by inspection is the vocabulary table below (a dozen symbols) and nothing else.

Vocabulary (z3 symbol -> Lean term), all over ℤ:
  +, -, *, numerals            the same
  div, mod (SMT-LIB: Euclidean) `/`, `%` on ℤ (Lean 4: `Int.ediv` / `Int.emod`, also Euclidean - the same functions)
  powmod(x,e,m)                x ^ e.toNat % m       (every schema guards e >= 0)
  isprime(p)                   Nat.Prime p.toNat
  abstract curve group         any `AddCommGroup G`:  ed_add -> +, ed_mul(n,P) -> n • P, ed_neg -> -, ed_O -> 0,
                               ed_insub(P) -> (L : ℤ) • P = 0, with the hypothesis `Nat.Prime L` (Pratt certificate, certs/)
  generic SPAKE2 group         the same (`gadd`, `gmul`, the group id argument is dropped, `insub` hypotheses are dropped
                               on the Lean side = the Lean statement is stronger)
  coordinate vocabulary        G := Curve (EdwardsGroup.lean): ed_x(P) -> (P.1.1.val : ℤ), ed_y(P) -> (P.1.2.val : ℤ),
                               ed_diff_ok(A,B) -> (A - B).1.1 ≠ 0 ∧ (A - B).1.2 ≠ 0, ed_xrecover(y) -> spake_xrecover y (the generated
                               mirror of the real function), ed_oncurve(x,y) -> spake_isoncurve x y (generated mirror)
"""
import z3
from . import theory, sym

# argument sorts of each schema: i = Int, P = curve point, g = group id (dropped), E = element of the generic group
SIG = {
    "spake2_agree": "giiiEEE", "powmod_mul": "iiii", "powmod_pow": "iiii", "powmod_exp_mul": "iiii", "powmod_base_one": "ii",
    "powmod_zero": "iii", "fermat": "ii", "prime_ge_two": "i", "prime_mul_nonzero": "iii",
    "ed_mul_zero": "P", "ed_mul_step": "iP", "ed_mul_mod": "iP", "ed_insub_def": "P", "ed_insub_add": "PP", "ed_insub_mul": "iP",
    "ed_insub_O": "", "ed_prime_order": "iP", "ed_ladder_diff": "iP", "ed_add_zero": "P", "ed_add_comm": "PP", "ed_neg_mul": "P",
    "ed_neg_def": "P", "ed_mul_one": "P", "ed_mul_mul": "iiP", "ed_mul_O": "i", "ed_neg_O": "", "ed_insub_neg": "P",
    "ed_same_y": "PP", "ed_xrecover_complete": "iP", "ed_enc_injective": "PP",
}
COORD = {"ed_same_y", "ed_ladder_diff", "ed_xrecover_complete", "ed_enc_injective"}      # need the concrete curve (G := Curve)
VARNAMES = {"i": ["a", "b", "c", "e"], "P": ["P", "R", "T"], "E": ["G0", "M", "N"], "g": ["gid"]}


class BridgeError(Exception):
    pass


def _lit(n):
    return "(%d : ℤ)" % n if n >= 0 else "(-%d : ℤ)" % -n


def to_lean(e, names, coord):
    """z3 term -> Lean term (string).  names: z3 constant name -> Lean variable"""
    from . import spec_ed as E
    K = z3
    if z3.is_int_value(e):
        v = e.as_long()
        if v == E.L:
            return "(Lc : ℤ)"
        if v == E.L - 1:
            return "((Lc : ℤ) - 1)"
        if v == E.Q:
            return "(Q : ℤ)"
        return _lit(v)
    if z3.is_const(e) and e.decl().kind() == z3.Z3_OP_UNINTERPRETED:
        n = e.decl().name()
        if n in names:
            return names[n]
        if n == "ed_O":
            return "(0 : G)"
        raise BridgeError("constant %s" % n)
    k = e.decl().kind()
    ch = [to_lean(c, names, coord) for c in e.children()]
    if k == K.Z3_OP_TRUE:
        return "True"
    if k == K.Z3_OP_FALSE:
        return "False"
    if k == K.Z3_OP_AND:
        return "(" + " ∧ ".join(ch) + ")"
    if k == K.Z3_OP_OR:
        return "(" + " ∨ ".join(ch) + ")"
    if k == K.Z3_OP_NOT:
        return "(¬ %s)" % ch[0]
    if k == K.Z3_OP_IMPLIES:
        return "(%s → %s)" % (ch[0], ch[1])
    if k == K.Z3_OP_EQ:
        if z3.is_bool(e.children()[0]):
            return "(%s ↔ %s)" % (ch[0], ch[1])
        return "(%s = %s)" % (ch[0], ch[1])
    if k == K.Z3_OP_DISTINCT and len(ch) == 2:
        return "(%s ≠ %s)" % (ch[0], ch[1])
    if k == K.Z3_OP_ITE:
        return "(if %s then %s else %s)" % (ch[0], ch[1], ch[2])
    if k in (K.Z3_OP_LE, K.Z3_OP_LT, K.Z3_OP_GE, K.Z3_OP_GT):
        return "(%s %s %s)" % (ch[0], {K.Z3_OP_LE: "≤", K.Z3_OP_LT: "<", K.Z3_OP_GE: "≥", K.Z3_OP_GT: ">"}[k], ch[1])
    if k == K.Z3_OP_ADD:
        return "(" + " + ".join(ch) + ")"
    if k == K.Z3_OP_SUB:
        return "(" + " - ".join(ch) + ")"
    if k == K.Z3_OP_UMINUS:
        return "(-%s)" % ch[0]
    if k == K.Z3_OP_MUL:
        return "(" + " * ".join(ch) + ")"
    if k == K.Z3_OP_IDIV:
        return "(%s / %s)" % (ch[0], ch[1])
    if k == K.Z3_OP_MOD:
        return "(%s %% %s)" % (ch[0], ch[1])
    if k == K.Z3_OP_UNINTERPRETED:
        n = e.decl().name()
        if n == "powmod":
            return "(%s ^ (%s).toNat %% %s)" % (ch[0], ch[1], ch[2])
        if n == "isprime":
            return "(Nat.Prime (%s).toNat)" % ch[0]
        if n in ("ed_add",):
            return "(%s + %s)" % (ch[0], ch[1])
        if n == "gadd":
            return "(%s + %s)" % (ch[1], ch[2])
        if n == "ed_mul":
            return "(%s • %s)" % (ch[0], ch[1])
        if n == "gmul":
            return "(%s • %s)" % (ch[1], ch[2])
        if n == "ed_neg":
            return "(-%s)" % ch[0]
        if n == "ed_insub":
            return "((Lc : ℤ) • %s = 0)" % ch[0]
        if n == "insub":
            return "True"          # closure hypotheses of the generic group are not needed by the Lean theorem
        if coord:
            if n == "ed_x":
                return "((%s).1.1.val : ℤ)" % ch[0]
            if n == "ed_y":
                return "((%s).1.2.val : ℤ)" % ch[0]
            if n == "ed_diff_ok":
                return "((%s - %s).1.1 ≠ 0 ∧ (%s - %s).1.2 ≠ 0)" % (ch[0], ch[1], ch[0], ch[1])
            if n == "ed_xrecover":
                return "(spake_xrecover %s)" % ch[0]
            if n == "ed_oncurve":
                return "(spake_isoncurve %s %s)" % (ch[0], ch[1])
        raise BridgeError("symbol %s" % n)
    raise BridgeError("operator %s" % e.decl().name())


def statement(name):
    """(lean text of `def Bridge.stmt_<name> : Prop := ...`, coord?)"""
    from . import spec_ed as E, spec_sym as S
    sig = SIG[name]
    coord = name in COORD
    args, binders, names = [], [], {}
    cnt = {}
    for s in sig:
        i = cnt.get(s, 0)
        cnt[s] = i + 1
        vn = VARNAMES[s][i]
        zn = "bridge_%s_%s" % (name, vn)
        if s in ("i", "g"):
            args.append(z3.Int(zn))
            if s == "i":
                binders.append("(%s : ℤ)" % vn)
        elif s == "P":
            args.append(z3.Const(zn, E.EPt))
            binders.append("(%s : G)" % vn)
        else:
            args.append(z3.Const(zn, S.Elt))
            binders.append("(%s : G)" % vn)
        names[zn] = vn
    f = theory.instantiate(name, args)
    body = to_lean(f, names, coord)
    if coord:
        head = "∀ (hQ : Fact (Nat.Prime Q)) (hL : Nat.Prime Lc), ∀ %s, " % " ".join(b.replace(": G)", ": Curve)") for b in binders) if binders else ""
        body = body.replace("(0 : G)", "(0 : Curve)")
    else:
        if "P" in sig or "E" in sig or "(0 : G)" in body:
            head = "∀ {G : Type} [AddCommGroup G] (hL : Nat.Prime Lc)" + ((", ∀ " + " ".join(binders)) if binders else "") + ", "
        else:
            head = "∀ " + " ".join(binders) + ", "
    return "def stmt_%s : Prop :=\n  %s%s\n" % (name, head, body), coord


def generate():
    """the generated statements, split in the part that needs only Algebra.lean and the part that needs the Edwards text"""
    from . import spec_ed as E
    hdr = "-- GENERATED on every run by pyvc/leanbridge.py from the lemma schemas of pyvc/theory.py (the z3 instances, printed); do not edit\n"
    hdr += "def Lc : ℕ := %d\n\nnamespace Bridge\n" % E.L
    abstract, coord, errors = "", "", {}
    for name in sorted(SIG):
        if name not in theory.LEMMAS or not theory.LEMMAS[name].proved:
            continue
        try:
            t, c = statement(name)
            if c:
                coord += t + "\n"
            else:
                abstract += t + "\n"
        except Exception as e:
            errors[name] = "%s: %s" % (type(e).__name__, e)
    return hdr, abstract, coord, errors


if __name__ == "__main__":
    h, a, c, e = generate()
    print(h + a + "\n-- needs the curve\n" + c + "end Bridge")
    print("-- errors:", e)


def assemble(repo=None, proofs=True, part="curve"):
    """the complete Lean text of one of the two bridge files:
    part="abstract": Algebra.lean (audit section dropped) + the generated statements that need no curve + BridgeProofsAbstract.lean
                     - independent of /repo's sources;
    part="curve":    Edwards text (header, generated mirror of the real functions, proofs, group law) + Algebra.lean + ALL generated
                     statements + BridgeProofsAbstract.lean + BridgeProofsCurve.lean"""
    import os, re
    from . import leanback
    D = leanback.LEAN_DIR
    alg = open(os.path.join(D, "Algebra.lean")).read().split("/-! Axiom audit")[0]
    hdr, abstract, coord, errors = generate()
    strip = lambda t: re.sub(r"^import .*$", "", t, flags=re.M)
    # the primality hypotheses of the statements (hL, hQ) are themselves Lean theorems: Primes text generated from the Pratt
    # certificates (pyvc/leanprimes.py), then two closing theorems
    from . import leanprimes
    primes = leanprimes.generate()
    close_L = "\n/-! closing: the hypothesis `hL` of every statement is a theorem -/\ntheorem Bridge.Lc_prime : Nat.Prime Lc := by unfold Lc; exact prime_L\n"
    close_Q = "theorem Bridge.Q_prime : Fact (Nat.Prime Q) := ⟨by unfold Q; exact prime_Q⟩\n"
    if part == "abstract":
        imports = sorted(set(re.findall(r"^import .*$", alg + "\n" + primes, re.M)))
        text = "\n".join(imports) + "\nset_option linter.unusedVariables false\n" + strip(primes) + "\n" + strip(alg) + "\n" + hdr + abstract + "end Bridge\n"
        if proofs:
            text += "\n" + open(os.path.join(D, "BridgeProofsAbstract.lean")).read() + close_L
        return text, {k: v for k, v in errors.items() if k not in COORD}
    from .repo import oracle, Oracle, Repo
    repo = repo or Repo()
    vals = {}
    for n in ("d", "I", "Q"):
        r = oracle().req(op="global", module="spake2.ed25519_basic", name=n)
        vals[n] = Oracle.dec(r["value"]) if r.get("ok") else None
    gen, gerrors = leanback.generate_defs(repo, vals)
    ed = open(os.path.join(D, "EdwardsHeader.lean")).read() + "\n" + gen + "\n" + open(os.path.join(D, "EdwardsProofs.lean")).read() + "\n" \
        + open(os.path.join(D, "EdwardsExtra.lean")).read() + "\n" + open(os.path.join(D, "EdwardsGroup.lean")).read()
    imports = sorted(set(re.findall(r"^import .*$", ed + "\n" + alg + "\n" + primes, re.M)))
    text = "\n".join(imports) + "\n" + strip(ed) + "\n" + strip(primes) + "\n" + strip(alg) + "\n" + hdr + abstract + coord + "end Bridge\n"
    if proofs:
        text += "\n" + open(os.path.join(D, "BridgeProofsAbstract.lean")).read() + "\n" + open(os.path.join(D, "BridgeProofsCurve.lean")).read() + close_L + close_Q
    errors.update({"gen:" + k: v for k, v in gerrors.items()})
    return text, errors
