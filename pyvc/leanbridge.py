"""Bridge between the SMT side and the Lean side of a T1 lemma schema.

For every lemma schema of pyvc/theory.py the *very function that produces the z3 instance used in proofs* is called on
fresh constants and the resulting z3 term is pretty-printed as a Lean proposition (`def Bridge.stmt_<name> : Prop`).
lean/SpakeTheory/BridgeProofs.lean (static) proves `theorem bridge_<name> : Bridge.stmt_<name>` from the theorems of
Algebra.lean / Edwards*.lean.  So what z3 is told and what Lean proved is one text, generated on every run; what remains
by inspection is the vocabulary table below (a dozen symbols) and nothing else.

Vocabulary (z3 symbol -> Lean term), all over ℤ:
  +, -, *, numerals            the same
  div, mod (SMT-LIB: Euclidean) `/`, `%` on ℤ (Lean 4: `Int.ediv` / `Int.emod`, also Euclidean - the same functions)
  powmod(x,e,m)                x ^ e.toNat % m       (every schema guards e >= 0)
  isprime(p)                   Nat.Prime p.toNat
  abstract curve group         any `AddCommGroup G`:  ed_add -> +, ed_mul(n,P) -> n • P, ed_neg -> -, ed_O -> 0,
                               ed_insub(P) -> (L : ℤ) • P = 0, with the hypothesis `Nat.Prime L` (Pratt certificate, certs/)
  generic SPAKE2 group         the same (`gadd`, `gmul`, the group id argument is dropped, `insub` hypotheses are dropped
                               on the Lean side = the Lean statement is stronger)
  coordinate vocabulary        G := Curve (EdwardsGroup.lean): ed_x(P) -> (P.1.1.val : ℤ), ed_y(P) -> (P.1.2.val : ℤ),
                               ed_diff_ok(A,B) -> (A - B).1.1 ≠ 0 ∧ (A - B).1.2 ≠ 0, ed_xrecover(y) -> spake_xrecover y (the generated
                               mirror of the real function), ed_oncurve(x,y) -> spake_isoncurve x y (generated mirror),
                               ed_valid -> Valid, ed_valid3 -> Valid3 (EdwardsProofs.lean), ed_pt(X,Y,Z) -> edPt X Y Z, ed_aff(x,y) -> edAff x y,
                               ed_B -> edB (BridgeVocab.lean: the Curve point with those coordinates, 0 if they are not on the curve)

Contracts of the coordinate-level functions (contracts/ed25519.py, back end `lean`) are bridged the same way: their `requires` /
`ensures` clause texts are printed over the generated mirror `spake_<function>` (`Bridge.cstmt_<function>`) and proved in
BridgeProofsCurve.lean (`Bridge.cbridge_<function>`) from the theorems of EdwardsProofs.lean.
"""
import z3
from . import theory, sym

# argument sorts of each schema: i = Int, P = curve point, g = group id (dropped), E = element of the generic group
SIG = {
    "spake2_agree": "giiiEEE", "powmod_mul": "iiii", "powmod_pow": "iiii", "powmod_exp_mul": "iiii", "powmod_base_one": "ii",
    "powmod_zero": "iii", "fermat": "ii", "prime_ge_two": "i", "prime_mul_nonzero": "iii",
    "ed_mul_zero": "P", "ed_mul_step": "iP", "ed_mul_mod": "iP", "ed_insub_def": "P", "ed_insub_add": "PP", "ed_insub_mul": "iP",
    "ed_insub_O": "", "ed_prime_order": "iP", "ed_ladder_diff": "iP", "ed_add_zero": "P", "ed_add_comm": "PP", "ed_neg_mul": "P",
    "ed_neg_def": "P", "ed_mul_one": "P", "ed_mul_mul": "iiP", "ed_mul_O": "i", "ed_neg_O": "", "ed_insub_neg": "P",
    "ed_same_y": "PP", "ed_xrecover_complete": "iP", "ed_enc_injective": "PP",
    "voc_O_coords": "", "voc_coords_range": "P", "voc_valid_reduced": "iiii", "voc_B_def": "", "voc_point_on_curve": "P",
    "voc_point_aff": "P", "voc_point_ext": "PP", "voc_aff_O": "", "voc_valid_def": "iiii", "voc_valid3_def": "iii", "voc_pt_affine": "iii",
}
COORD = {"ed_same_y", "ed_ladder_diff", "ed_xrecover_complete", "ed_enc_injective", "voc_O_coords", "voc_coords_range", "voc_valid_reduced",
         "voc_B_def", "voc_point_on_curve", "voc_point_aff", "voc_point_ext", "voc_aff_O", "voc_valid_def", "voc_valid3_def", "voc_pt_affine"}      # need the concrete curve (G := Curve)
VARNAMES = {"i": ["a", "b", "c", "e"], "P": ["P", "R", "T"], "E": ["G0", "M", "N"], "g": ["gid"]}


class BridgeError(Exception):
    pass


def _lit(n):
    return "(%d : ℤ)" % n if n >= 0 else "(-%d : ℤ)" % -n


def to_lean(e, names, coord):
    """z3 term -> Lean term (string).  names: z3 constant name -> Lean variable"""
    from . import spec_ed as E
    K = z3
    if z3.is_int_value(e):
        v = e.as_long()
        if v == E.L:
            return "(Lc : ℤ)"
        if v == E.L - 1:
            return "((Lc : ℤ) - 1)"
        if v == E.Q:
            return "(Q : ℤ)"
        if v == E.Q - 2:
            return "((Q : ℤ) - 2)"
        if E.D[0] is not None and v == E.D[0]:
            return "spake_d"
        return _lit(v)
    if z3.is_const(e) and e.decl().kind() == z3.Z3_OP_UNINTERPRETED:
        n = e.decl().name()
        if n in names:
            return names[n]
        if n == "ed_O":
            return "(0 : G)"
        if n == "ed_B" and coord:
            return "edB"
        raise BridgeError("constant %s" % n)
    k = e.decl().kind()
    ch = [to_lean(c, names, coord) for c in e.children()]
    if k == K.Z3_OP_TRUE:
        return "True"
    if k == K.Z3_OP_FALSE:
        return "False"
    if k == K.Z3_OP_AND:
        return "(" + " ∧ ".join(ch) + ")"
    if k == K.Z3_OP_OR:
        return "(" + " ∨ ".join(ch) + ")"
    if k == K.Z3_OP_NOT:
        return "(¬ %s)" % ch[0]
    if k == K.Z3_OP_IMPLIES:
        return "(%s → %s)" % (ch[0], ch[1])
    if k == K.Z3_OP_EQ:
        if z3.is_bool(e.children()[0]):
            return "(%s ↔ %s)" % (ch[0], ch[1])
        return "(%s = %s)" % (ch[0], ch[1])
    if k == K.Z3_OP_DISTINCT and len(ch) == 2:
        return "(%s ≠ %s)" % (ch[0], ch[1])
    if k == K.Z3_OP_ITE:
        return "(if %s then %s else %s)" % (ch[0], ch[1], ch[2])
    if k in (K.Z3_OP_LE, K.Z3_OP_LT, K.Z3_OP_GE, K.Z3_OP_GT):
        return "(%s %s %s)" % (ch[0], {K.Z3_OP_LE: "≤", K.Z3_OP_LT: "<", K.Z3_OP_GE: "≥", K.Z3_OP_GT: ">"}[k], ch[1])
    if k == K.Z3_OP_ADD:
        return "(" + " + ".join(ch) + ")"
    if k == K.Z3_OP_SUB:
        return "(" + " - ".join(ch) + ")"
    if k == K.Z3_OP_UMINUS:
        return "(-%s)" % ch[0]
    if k == K.Z3_OP_MUL:
        return "(" + " * ".join(ch) + ")"
    if k == K.Z3_OP_IDIV:
        return "(%s / %s)" % (ch[0], ch[1])
    if k == K.Z3_OP_MOD:
        return "(%s %% %s)" % (ch[0], ch[1])
    if k == K.Z3_OP_UNINTERPRETED:
        n = e.decl().name()
        if n == "powmod":
            return "(%s ^ (%s).toNat %% %s)" % (ch[0], ch[1], ch[2])
        if n == "isprime":
            return "(Nat.Prime (%s).toNat)" % ch[0]
        if n in ("ed_add",):
            return "(%s + %s)" % (ch[0], ch[1])
        if n == "gadd":
            return "(%s + %s)" % (ch[1], ch[2])
        if n == "ed_mul":
            return "(%s • %s)" % (ch[0], ch[1])
        if n == "gmul":
            return "(%s • %s)" % (ch[1], ch[2])
        if n == "ed_neg":
            return "(-%s)" % ch[0]
        if n == "ed_insub":
            return "((Lc : ℤ) • %s = 0)" % ch[0]
        if n == "insub":
            return "True"          # closure hypotheses of the generic group are not needed by the Lean theorem
        if coord:
            if n == "ed_x":
                return "((%s).1.1.val : ℤ)" % ch[0]
            if n == "ed_y":
                return "((%s).1.2.val : ℤ)" % ch[0]
            if n == "ed_diff_ok":
                return "((%s - %s).1.1 ≠ 0 ∧ (%s - %s).1.2 ≠ 0)" % (ch[0], ch[1], ch[0], ch[1])
            if n == "ed_xrecover":
                return "(spake_xrecover %s)" % ch[0]
            if n == "ed_oncurve":
                return "(spake_isoncurve %s %s)" % (ch[0], ch[1])
            if n == "ed_valid":
                return "(Valid %s %s %s %s)" % tuple(ch)
            if n == "ed_valid3":
                return "(Valid3 %s %s %s)" % tuple(ch)
            if n == "ed_pt":
                return "(edPt %s %s %s)" % tuple(ch)
            if n == "ed_aff":
                return "(edAff %s %s)" % tuple(ch)
        raise BridgeError("symbol %s" % n)
    raise BridgeError("operator %s" % e.decl().name())


def statement(name):
    """(lean text of `def Bridge.stmt_<name> : Prop := ...`, coord?)"""
    from . import spec_ed as E, spec_sym as S
    sig = SIG[name]
    coord = name in COORD
    args, binders, names = [], [], {}
    cnt = {}
    for s in sig:
        i = cnt.get(s, 0)
        cnt[s] = i + 1
        vn = VARNAMES[s][i]
        zn = "bridge_%s_%s" % (name, vn)
        if s in ("i", "g"):
            args.append(z3.Int(zn))
            if s == "i":
                binders.append("(%s : ℤ)" % vn)
        elif s == "P":
            args.append(z3.Const(zn, E.EPt))
            binders.append("(%s : G)" % vn)
        else:
            args.append(z3.Const(zn, S.Elt))
            binders.append("(%s : G)" % vn)
        names[zn] = vn
    f = theory.instantiate(name, args)
    body = to_lean(f, names, coord)
    if coord:
        head = "∀ (hQ : Fact (Nat.Prime Q)) (hL : Nat.Prime Lc), " + (("∀ %s, " % " ".join(b.replace(": G)", ": Curve)") for b in binders)) if binders else "")
        body = body.replace("(0 : G)", "(0 : Curve)")
    else:
        if "P" in sig or "E" in sig or "(0 : G)" in body:
            head = "∀ {G : Type} [AddCommGroup G] (hL : Nat.Prime Lc)" + ((", ∀ " + " ".join(binders)) if binders else "") + ", "
        else:
            head = "∀ " + " ".join(binders) + ", "
    return "def stmt_%s : Prop :=\n  %s%s\n" % (name, head, body), coord


# ---- contracts of the Lean-backed functions --------------------------------------------------------------------------------------
import ast as _ast


class _ClausePrinter:
    """Python clause expression (contract language) -> Lean, over integer components of the tuple parameters"""

    def __init__(self, comps, result):
        self.comps = comps          # parameter name -> list of Lean component names
        self.result = result        # list of Lean terms for the components of `result` (or a single term)

    def tup(self, e):
        """components of a tuple-valued expression"""
        if isinstance(e, _ast.Name) and e.id in self.comps:
            return self.comps[e.id]
        if isinstance(e, _ast.Name) and e.id == "result" and isinstance(self.result, list):
            return self.result
        raise BridgeError("tuple expression %s" % _ast.unparse(e))

    def term(self, e):
        if isinstance(e, _ast.Constant) and isinstance(e.value, int) and not isinstance(e.value, bool):
            return _lit(e.value)
        if isinstance(e, _ast.Name):
            if e.id == "Q":
                return "(Q : ℤ)"
            if e.id == "result" and not isinstance(self.result, list):
                return self.result
            if e.id in self.comps and len(self.comps[e.id]) == 1:
                return self.comps[e.id][0]
            raise BridgeError("name %s" % e.id)
        if isinstance(e, _ast.Subscript) and isinstance(e.slice, _ast.Constant):
            return self.tup(e.value)[e.slice.value]
        if isinstance(e, _ast.Call) and isinstance(e.func, _ast.Attribute) and isinstance(e.func.value, _ast.Name) and e.func.value.id == "spec":
            f, a = e.func.attr, e.args
            if f == "ed_pt":
                return "(edPt %s %s %s)" % tuple(self.tup(a[0])[:3])
            if f == "ed_aff":
                return "(edAff %s %s)" % (self.term(a[0]), self.term(a[1]))
            if f == "ed_add":
                return "(%s + %s)" % (self.term(a[0]), self.term(a[1]))
            if f == "ed_O":
                return "(0 : Curve)"
            if f == "ed_x":
                return "((%s).1.1.val : ℤ)" % self.term(a[0])
            if f == "ed_y":
                return "((%s).1.2.val : ℤ)" % self.term(a[0])
            raise BridgeError("spec term %s" % f)
        raise BridgeError("term %s" % _ast.unparse(e))

    def prop(self, e):
        if isinstance(e, _ast.BoolOp):
            return "(" + (" ∧ " if isinstance(e.op, _ast.And) else " ∨ ").join(self.prop(v) for v in e.values) + ")"
        if isinstance(e, _ast.UnaryOp) and isinstance(e.op, _ast.Not):
            return "(¬ %s)" % self.prop(e.operand)
        if isinstance(e, _ast.Name) and e.id == "result" and not isinstance(self.result, list):
            return self.result
        if isinstance(e, _ast.Compare) and len(e.ops) == 1:
            l, r = e.left, e.comparators[0]
            op = {_ast.Eq: "=", _ast.NotEq: "≠", _ast.Lt: "<", _ast.LtE: "≤", _ast.Gt: ">", _ast.GtE: "≥"}[type(e.ops[0])]
            lp, rp = self.is_prop(l), self.is_prop(r)
            if lp or rp:
                if op != "=":
                    raise BridgeError("comparison of propositions")
                return "(%s ↔ %s)" % (self.prop(l), self.prop(r))
            return "(%s %s %s)" % (self.term(l), op, self.term(r))
        if isinstance(e, _ast.Call) and isinstance(e.func, _ast.Name) and e.func.id == "implies":
            return "(%s → %s)" % (self.prop(e.args[0]), self.prop(e.args[1]))
        if isinstance(e, _ast.Call) and isinstance(e.func, _ast.Attribute) and isinstance(e.func.value, _ast.Name) and e.func.value.id == "spec":
            f, a = e.func.attr, e.args
            if f == "ed_valid":
                return "(Valid %s %s %s %s)" % tuple(self.tup(a[0]))
            if f == "ed_valid3":
                return "(Valid3 %s %s %s)" % tuple(self.tup(a[0])[:3])
            if f == "ed_oncurve":
                return "(spake_isoncurve %s %s)" % (self.term(a[0]), self.term(a[1]))
            if f == "ed_diff_ok":
                x, y = self.term(a[0]), self.term(a[1])
                return "((%s - %s).1.1 ≠ 0 ∧ (%s - %s).1.2 ≠ 0)" % (x, y, x, y)
            raise BridgeError("spec predicate %s" % f)
        raise BridgeError("proposition %s" % _ast.unparse(e))

    def is_prop(self, e):
        if isinstance(e, (_ast.Compare, _ast.BoolOp)):
            return True
        if isinstance(e, _ast.Name) and e.id == "result" and not isinstance(self.result, list) and self.result == "r":
            return self.result_is_prop
        return isinstance(e, _ast.Call) and isinstance(e.func, _ast.Attribute) and e.func.attr in ("ed_valid", "ed_valid3", "ed_oncurve", "ed_diff_ok")

    result_is_prop = False


def contract_statement(reg, repo, qual):
    """`def cstmt_<fn> : Prop` : for all integer arguments, requires -> (let r := spake_<fn> args; all ensures clauses)"""
    from . import leanback, leangen
    c = reg.get(qual)
    fn = qual.split(".")[-1]
    gf = {g[0]: g for g in leanback.GEN_FUNCS}[fn]
    m = repo.modules["ed25519_basic"]
    node = m.functions[fn].node
    comps, binders = {}, []
    for a in node.args.args:
        k = gf[1].get(a.arg, 1)
        names = ["%s_%d" % (leangen.lname(a.arg), i) for i in range(k)] if k > 1 else [leangen.lname(a.arg)]
        comps[a.arg] = names
        binders += names
    rt = gf[2]
    n_res = rt.count("×") + 1
    if rt == "Prop":
        result = "r"
    elif n_res == 1:
        result = "r"
    else:
        result = ["r" + ".2" * i + (".1" if i < n_res - 1 else "") for i in range(n_res)]
    pr = _ClausePrinter(comps, result)
    pr.result_is_prop = rt == "Prop"
    pre = [pr.prop(cl.expr_ast) for cl in c.pre]
    post = []
    for cl in c.post:
        if cl.when_ast is not None:
            post.append("(%s → %s)" % (pr.prop(cl.when_ast), pr.prop(cl.expr_ast)))
        else:
            post.append(pr.prop(cl.expr_ast))
    if c.exc or not post:
        raise BridgeError("contract shape of %s" % qual)
    body = "let r := spake_%s %s; (%s)" % (fn, " ".join(binders), " ∧ ".join(post))
    for h in reversed(pre):
        body = "%s → (%s)" % (h, body)
    return "def cstmt_%s : Prop :=\n  ∀ (hQ : Fact (Nat.Prime Q)) (%s : ℤ), %s\n" % (fn, " ".join(binders), body)


def contract_statements(repo=None):
    from .contracts import load_all
    from .repo import Repo
    repo = repo or Repo()
    reg = load_all()
    out, errors, names = "", {}, []
    for q, c in sorted(reg.contracts.items()):
        if getattr(c, "lean_theorem", None) and not c.abstract_flag:
            try:
                out += contract_statement(reg, repo, q) + "\n"
                names.append(q.split(".")[-1])
            except Exception as e:
                errors["contract:" + q] = "%s: %s" % (type(e).__name__, e)
    return out, errors, names


def generate():
    """the generated statements, split in the part that needs only Algebra.lean and the part that needs the Edwards text"""
    from . import spec_ed as E
    if E.D[0] is None:
        # the module's own (unreduced) curve constant d, as the verifier reads it; printed as `spake_d`
        from .repo import oracle, Oracle
        r = oracle().req(op="global", module="spake2.ed25519_basic", name="d")
        if r.get("ok"):
            E.D[0] = Oracle.dec(r["value"])
    hdr = "-- GENERATED on every run by pyvc/leanbridge.py from the lemma schemas of pyvc/theory.py (the z3 instances, printed); do not edit\n"
    hdr += "def Lc : ℕ := %d\n\nnamespace Bridge\n" % E.L
    abstract, coord, errors = "", "", {}
    for name in sorted(SIG):
        if name not in theory.LEMMAS or not theory.LEMMAS[name].proved:
            continue
        try:
            t, c = statement(name)
            if c:
                coord += t + "\n"
            else:
                abstract += t + "\n"
        except Exception as e:
            errors[name] = "%s: %s" % (type(e).__name__, e)
    return hdr, abstract, coord, errors


if __name__ == "__main__":
    h, a, c, e = generate()
    print(h + a + "\n-- needs the curve\n" + c + "end Bridge")
    print("-- errors:", e)


def assemble(repo=None, proofs=True, part="curve"):
    """the complete Lean text of one of the two bridge files:
    part="abstract": Algebra.lean (audit section dropped) + the generated statements that need no curve + BridgeProofsAbstract.lean
                     - independent of /repo's sources;
    part="curve":    Edwards text (header, generated mirror of the real functions, proofs, group law) + Algebra.lean + ALL generated
                     statements + BridgeProofsAbstract.lean + BridgeProofsCurve.lean"""
    import os, re
    from . import leanback
    D = leanback.LEAN_DIR
    alg = open(os.path.join(D, "Algebra.lean")).read().split("/-! Axiom audit")[0]
    hdr, abstract, coord, errors = generate()
    strip = lambda t: re.sub(r"^import .*$", "", t, flags=re.M)
    # the primality hypotheses of the statements (hL, hQ) are themselves Lean theorems: Primes text generated from the Pratt
    # certificates (pyvc/leanprimes.py), then two closing theorems
    from . import leanprimes
    primes = leanprimes.generate()
    close_L = "\n/-! closing: the hypothesis `hL` of every statement is a theorem -/\ntheorem Bridge.Lc_prime : Nat.Prime Lc := by unfold Lc; exact prime_L\n"
    close_Q = "theorem Bridge.Q_prime : Fact (Nat.Prime Q) := ⟨by unfold Q; exact prime_Q⟩\n"
    if part == "abstract":
        imports = sorted(set(re.findall(r"^import .*$", alg + "\n" + primes, re.M)))
        text = "\n".join(imports) + "\nset_option linter.unusedVariables false\n" + strip(primes) + "\n" + strip(alg) + "\n" + hdr + abstract + "end Bridge\n"
        if proofs:
            text += "\n" + open(os.path.join(D, "BridgeProofsAbstract.lean")).read() + close_L
        return text, {k: v for k, v in errors.items() if k not in COORD}
    from .repo import oracle, Oracle, Repo
    repo = repo or Repo()
    vals = {}
    for n in ("d", "I", "Q"):
        r = oracle().req(op="global", module="spake2.ed25519_basic", name=n)
        vals[n] = Oracle.dec(r["value"]) if r.get("ok") else None
    gen, gerrors = leanback.generate_defs(repo, vals)
    ed = open(os.path.join(D, "EdwardsHeader.lean")).read() + "\n" + gen + "\n" + open(os.path.join(D, "EdwardsProofs.lean")).read() + "\n" \
        + open(os.path.join(D, "EdwardsExtra.lean")).read() + "\n" + open(os.path.join(D, "EdwardsGroup.lean")).read()
    imports = sorted(set(re.findall(r"^import .*$", ed + "\n" + alg + "\n" + primes, re.M)))
    cst, cerrors, cnames = contract_statements(repo)
    errors.update(cerrors)
    vocab = open(os.path.join(D, "BridgeVocab.lean")).read() if os.path.exists(os.path.join(D, "BridgeVocab.lean")) else ""
    text = "\n".join(imports) + "\n" + strip(ed) + "\n" + strip(primes) + "\n" + strip(alg) + "\n" + strip(vocab) + "\n" + hdr + abstract + coord + cst + "end Bridge\n"
    if proofs:
        text += "\n" + open(os.path.join(D, "BridgeProofsAbstract.lean")).read() + "\n" + open(os.path.join(D, "BridgeProofsCurve.lean")).read() + close_L + close_Q
    errors.update({"gen:" + k: v for k, v in gerrors.items()})
    return text, errors
