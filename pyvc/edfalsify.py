"""Concrete falsification of the coordinate-level Ed25519 functions against an independent affine reference
(spec/concrete.py), used only when the Lean proof of a generated function no longer goes through."""
from .repo import oracle, Oracle

CODE = r'''
import random
from spake2 import ed25519_basic as E
import spec.concrete as S
rng = random.Random(seed)
Q = 2**255-19
def rand_point():
    while True:
        y = rng.randrange(Q)
        p = S.ed_decompress_y(y)
        if p is not None:
            return p
def ext(p):
    z = rng.randrange(1, Q)
    return ((p[0]*z) % Q, (p[1]*z) % Q, z, (p[0]*p[1]*z) % Q)
def aff(t):
    zi = pow(t[2], Q-2, Q)
    return ((t[0]*zi) % Q, (t[1]*zi) % Q)
special = S.ed_small_order_points()
result = None
for i in range(trials):
    p1 = special[i % len(special)] if i < 2*len(special) else rand_point()
    p2 = special[(i // len(special)) % len(special)] if i < len(special)**2 else rand_point()
    if fn == "double_element":
        got = E.double_element(ext(p1)); want = S.ed_add_affine(p1, p1); inp = [p1]
    elif fn == "add_elements":
        got = E.add_elements(ext(p1), ext(p2)); want = S.ed_add_affine(p1, p2); inp = [p1, p2]
    elif fn == "_add_elements_nonunfied":
        d = S.ed_add_affine(p1, (( -p2[0]) % Q, p2[1]))
        if d[0] == 0 or d[1] == 0:
            continue
        got = E._add_elements_nonunfied(ext(p1), ext(p2)); want = S.ed_add_affine(p1, p2); inp = [p1, p2]
    elif fn == "xform_affine_to_extended":
        got = E.xform_affine_to_extended(p1); want = p1; inp = [p1]
    elif fn == "xform_extended_to_affine":
        t = ext(p1); g = E.xform_extended_to_affine(t); got = (g[0], g[1], 1, 0); want = p1; inp = [t]
    elif fn == "is_extended_zero":
        t = ext(p1); ok = (bool(E.is_extended_zero(t)) == (p1 == (0, 1)))
        if not ok:
            result = {"fn": fn, "input": [str(x) for x in t]}; break
        continue
    else:
        break
    bad = (got[2] % Q == 0) or aff(got) != want or any(not (0 <= c < Q) for c in got)
    if fn in ("double_element", "add_elements", "_add_elements_nonunfied", "xform_affine_to_extended") and not bad:
        bad = (got[3] * got[2] - got[0] * got[1]) % Q != 0
    if bad:
        result = {"fn": fn, "affine_inputs": [[str(c) for c in p] for p in inp], "got": [str(c) for c in got], "want_affine": [str(c) for c in want]}
        break
'''


def falsify(qual, trials=400, seed=0):
    fn = qual.split(".")[-1]
    r = oracle().req(op="exec", code=CODE, env={"fn": Oracle.enc(fn), "trials": Oracle.enc(trials), "seed": Oracle.enc(seed)})
    if not r.get("ok"):
        raise RuntimeError("falsifier failed: %s" % r.get("error"))
    if r.get("value") is not None:
        return Oracle.dec(r["value"])
    return None
