"""Differential scenarios: the real classes against the independent reference (spec/reference.py) on concrete inputs.

Two uses, both BOUNDED and labelled so: (1) replay - when a session-level obligation is refuted, look for a concrete
failing scenario on the real code; (2) thorough tier - a bounded cross-check that the spec vocabulary the contracts
are written in (and the reference) agree with the real code on edge inputs."""
import os
from .repo import oracle, Oracle

VERIF = os.path.dirname(os.path.dirname(os.path.abspath(__file__)))

CODE = r'''
import json, random, itertools
from spake2 import groups, params as P_, spake2 as S2, ed25519_group, ed25519_basic as E
from spake2.parameters.all import ParamsEd25519, Params1024, Params2048, Params3072
import spec.reference as R, spec.concrete as C
rng = random.Random(seed)
CLS = {"A": S2.SPAKE2_A, "B": S2.SPAKE2_B, "S": S2.SPAKE2_Symmetric}
PEER = {"A": "B", "B": "A", "S": "S"}
def toy(p, q, g):
    return ("toy%d" % p, P_._Params(groups.IntegerGroup(p, q, g)), R.Params(R.IntGroup(p, q, g)))
SETS = [toy(23, 11, 2), toy(47, 23, 2), toy(2027, 1013, 4), ("Ed25519", ParamsEd25519, R.Params(R.EdGroup()))]
if big:
    pub = json.load(open(verif + "/certs/published.json"))
    for n, ps in (("1024", Params1024), ("2048", Params2048), ("3072", Params3072)):
        g = pub["groups"]["I" + n]
        SETS.append((n, ps, R.Params(R.IntGroup(int(g["p"]), int(g["q"]), int(g["g"])))))
def ent_for(x, q):
    return lambda n: x.to_bytes(n, "big")
def outcome(f, *a):
    try:
        return ("ok", f(*a))
    except S2.OffSides: return ("OffSides", None)
    except S2.ReflectionThwarted: return ("Reflection", None)
    except S2.OnlyCallStartOnce: return ("StartOnce", None)
    except S2.OnlyCallFinishOnce: return ("FinishOnce", None)
    except S2.SerializedTooEarly: return ("TooEarly", None)
    except S2.WrongSideSerialized: return ("WrongSide", None)
    except S2.WrongGroupError: return ("WrongGroup", None)
    except Exception as e: return ("raise", type(e).__name__)
def ref_outcome(sess, m, own_side):
    side, body = m[0:1], m[1:]
    role = sess.role
    if role in "AB":
        if side not in (b"A", b"B") or side == role.encode(): return ("OffSides", None)
    else:
        if side in (b"A", b"B"): return ("OffSides", None)
        if side != b"S": return ("raise", "AssertionError")
    try:
        return ("ok", sess.key(m))
    except ValueError as e:
        return ("Reflection", None) if str(e) == "reflection" else ("raise", "decode")
def norm(o):
    return (o[0], o[1]) if o[0] == "ok" else (o[0] if o[0] != "raise" else "raise", None)
mismatch = None
count = 0
def report(kind, **kw):
    global mismatch
    if mismatch is None:
        mismatch = dict(kind=kind, **{k: (v.hex() if isinstance(v, bytes) else v) for k, v in kw.items()})
def s_sessions():
    global count
    pws = [b"", b"password", bytes(range(70)), b"\x00\xff"]
    for name, ps, rp in SETS:
        g, rg = ps.group, rp.group
        q = rg.q
        scalars = [0, 1, 2, q - 1, q // 2] + [rng.randrange(q) for _ in range(rounds)]
        for role in "ABS":
            for x in scalars:
                pw = rng.choice(pws)
                ids = (b"idS\x01",) if role == "S" else (rng.choice([b"", b"alice"]), rng.choice([b"", b"bob\x00"]))
                kw = dict(idSymmetric=ids[0]) if role == "S" else dict(idA=ids[0], idB=ids[1])
                mk = lambda: CLS[role](pw, params=ps, entropy_f=ent_for(x, q), **kw)
                ref = R.Session(role, pw, ids, rp, x)
                s = mk()
                if outcome(s.serialize)[0] != "TooEarly": report("serialize-before-start", set=name, role=role)
                o = outcome(s.start)
                count += 1
                if o != ("ok", ref.message()): report("start-message", set=name, role=role, x=x, pw=pw, got=str(o)[:200], want=ref.message())
                if outcome(s.start)[0] != "StartOnce": report("second-start", set=name, role=role)
                try:
                    d = json.loads(s.serialize().decode("ascii"))
                    if d != ref.state(): report("state-dict", set=name, role=role, x=x, got=json.dumps(d)[:300], want=json.dumps(ref.state())[:300])
                except Exception as e:
                    report("serialize-raises", set=name, role=role, x=x, exc=type(e).__name__)
                y = rng.choice(scalars)
                peer = R.Session(PEER[role], pw, ids, rp, y)
                honest = peer.message()
                own = ref.message()
                el = honest[1:]
                msgs = [honest, own, PEER[role].encode() + own[1:], honest[:-1], honest + b"\x00", honest + honest[1:], b"", honest[0:1],
                        b"C" + el, b"S" + el, b"A" + el, b"B" + el, PEER[role].encode() + rg.enc(rg.identity),
                        PEER[role].encode() + rg.enc(rg.base()), PEER[role].encode() + bytes(len(el)), PEER[role].encode() + b"\xff" * len(el),
                        honest[0:1] + bytes([el[0] ^ 1]) + el[1:], honest[0:1] + el[:-1] + bytes([el[-1] ^ 0x80])]
                if name == "Ed25519":
                    msgs += [PEER[role].encode() + m for m in (bytes.fromhex("01" + "00" * 30 + "80"), (2**255 - 18).to_bytes(32, "little"),
                                                                bytes.fromhex("00" * 32), bytes.fromhex("ec" + "ff" * 30 + "7f"))]
                for m in msgs:
                    for restored in (False, True):
                        s = mk(); s.start()
                        if restored:
                            try:
                                s = CLS[role].from_serialized(s.serialize(), params=ps)
                            except Exception as e:
                                report("restore-raises", set=name, role=role, x=x, exc=type(e).__name__); continue
                        got, want = norm(outcome(s.finish, m)), norm(ref_outcome(ref, m, role))
                        count += 1
                        if got != want:
                            report("finish-outcome", set=name, role=role, x=x, y=y, pw=pw, message=m, restored=restored, got=str(got)[:120], want=str(want)[:120])
                        if norm(outcome(s.finish, m))[0] != "FinishOnce": report("second-finish", set=name, role=role, message=m)
                        try:
                            d2 = json.loads(s.serialize().decode("ascii"))
                            if d2 != ref.state(): report("state-after-finish", set=name, role=role, x=x, message=m, got=json.dumps(d2)[:300], want=json.dumps(ref.state())[:300])
                        except Exception as e:
                            report("serialize-after-finish-raises", set=name, role=role, x=x, exc=type(e).__name__)
        if mismatch: break

# ---------------------------------------------------------------------------------------------------------------------
# further suites (each reports the first mismatch it finds)
# ---------------------------------------------------------------------------------------------------------------------
import os as _os
class SuiteTimeout(Exception):
    pass
def _alarm(signum, frame):
    raise SuiteTimeout("suite exceeded its wall-clock budget (possibly a non-terminating call of the real code)")
def suite(fn):
    import signal
    try:
        signal.signal(signal.SIGALRM, _alarm)
        signal.alarm(900 if big else 240)
        try:
            fn()
        finally:
            signal.alarm(0)
    except Exception as e:
        import traceback
        report("suite-error:" + fn.__name__, exc=type(e).__name__, msg=str(e)[:200], tb=traceback.format_exc()[-400:])

def s_util():
    from spake2 import util
    for m in list(range(0, 520)) + [2**16 - 1, 2**16, 2**24 - 1, 2**24, 2**64 - 1, 2**64]:
        nb = max(1, (m.bit_length() + 7) // 8)
        for n in sorted(set([0, 1, m // 2, m - 1 if m else 0, m, m + 1, 2 * m + 1, 256 ** nb - 1, 256 ** nb])):
            o = outcome(util.number_to_bytes, n, m)
            want = ("ok", n.to_bytes(nb, "big")) if 0 <= n <= m else ("raise", "ValueError")
            if (o[0], o[1] if o[0] == "ok" else None) != (want[0], want[1] if want[0] == "ok" else None):
                report("number_to_bytes", n=n, maxval=m, got=str(o)[:100], want=str(want)[:100]); return
            if 0 <= n <= m and util.bytes_to_number(n.to_bytes(nb, "big")) != n:
                report("bytes_to_number", n=n); return
    # rejection sampling: exhaustive over one-block inputs for small widths, against the reference sampler
    for width in list(range(1, 40)) + [255, 256, 257, 300, 511, 512, 1000, 65535]:
        nb = max(1, (width.bit_length() + 7) // 8)
        k = (width.bit_length() or 1) - 8 * (nb - 1)
        firsts = range(256) if nb == 1 else [x for x in (0, 1, 2 ** k - 1, 2 ** k, 255, rng.randrange(256)) if x < 256]
        for f in firsts:
            for rest in ([b""] if nb == 1 else [bytes(nb - 1), b"\xff" * (nb - 1), bytes(rng.randrange(256) for _ in range(nb - 1))]):
                blocks = [bytes([f]) + rest, bytes(nb)]      # second block: always accepted (0)
                calls = []
                def ent(n, blocks=blocks, calls=calls):
                    calls.append(n)
                    return blocks[min(len(calls) - 1, 1)]
                got = util.unbiased_randrange(3, 3 + width, ent)
                cand = ((f % (1 << k)) << (8 * (nb - 1))) + int.from_bytes(rest, "big")
                want = 3 + (cand if cand < width else 0)
                if got != want or any(c != nb for c in calls) or len(calls) != (1 if cand < width else 2):
                    report("unbiased_randrange", start=3, stop=3 + width, first_block=blocks[0], got=got, want=want, calls=str(calls)); return

def s_entropy():
    # the scalar comes only from entropy_f: os.urandom must never be touched by a session with its own entropy function
    real = _os.urandom
    touched = []
    def trap(n):
        touched.append(n); return real(n)
    _os.urandom = trap
    try:
        for name, ps, rp in SETS:
            q = rp.group.q
            nb = (q.bit_length() + 7) // 8
            streams = [bytes(64), b"\xff" * 64, (q).to_bytes(64, "big"), (q + 1).to_bytes(64, "big"), (q - 1).to_bytes(64, "big")]
            for st in streams:
                for role in "ABS":
                    calls = []
                    def ent(n, st=st, calls=calls):
                        calls.append(n)
                        blk = st[-n:] if len(calls) == 1 else bytes(n)
                        return blk
                    s = CLS[role](b"pw", params=ps, entropy_f=ent)
                    s.start()
                    blks = [st[-c:] if i == 0 else bytes(c) for i, c in enumerate(calls)]
                    it = iter(blks)
                    want = rp.group.random_scalar(lambda n: next(it))
                    got = rp.group.b2s(bytes.fromhex(json.loads(s.serialize().decode())["xy_scalar"]))
                    if got != want or touched:
                        report("scalar-from-entropy", set=name, role=role, stream=st, got=got, want=want, os_urandom_calls=str(touched)); return
    finally:
        _os.urandom = real

def s_params_mix():
    # several parameter sets over the SAME group, different seeds; interleaved sessions; restore under fresh-but-equal
    # and under different parameters (catches caches keyed too coarsely)
    for gname, libg, refg in [("toy2027", groups.IntegerGroup(2027, 1013, 4), R.IntGroup(2027, 1013, 4)), ("Ed25519", ed25519_group.Ed25519Group, R.EdGroup())]:
        seedsets = [(b"M", b"N", b"symmetric"), (b"M2", b"N", b"symmetric"), (b"M", b"N2", b"symmetric"), (b"M", b"N", b"S2"), (b"MN", b"", b"symmetric"), (b"", b"MN", b"symmetric")]
        libps = [P_._Params(libg, M=a, N=b, S=c) for a, b, c in seedsets]
        refps = [R.Params(refg, M=a, N=b, S=c) for a, b, c in seedsets]
        q = refg.q
        for order in ("SAB", "ABS", "BSA"):
            blobs = {}
            for i, (lp, rp) in enumerate(zip(libps, refps)):
                for role in order:
                    x = 5 + i
                    ids = (b"i",) if role == "S" else (b"a", b"bb")
                    kw = dict(idSymmetric=ids[0]) if role == "S" else dict(idA=ids[0], idB=ids[1])
                    s = CLS[role](b"pw", params=lp, entropy_f=ent_for(x, q), **kw)
                    ref = R.Session(role, b"pw", ids, rp, x)
                    m = s.start()
                    if m != ref.message():
                        report("start-message-with-custom-seeds", group=gname, seeds=str(seedsets[i]), role=role, order=order, got=m, want=ref.message()); return
                    d = json.loads(s.serialize().decode())
                    if d != ref.state():
                        report("state-with-custom-seeds", group=gname, seeds=str(seedsets[i]), role=role, order=order, got=json.dumps(d)[:200], want=json.dumps(ref.state())[:200]); return
                    blobs[(i, role)] = (s.serialize(), ref)
                    peer = R.Session(PEER[role], b"pw", ids, rp, 777)
                    if norm(outcome(s.finish, peer.message())) != ("ok", ref.key(peer.message())):
                        report("key-with-custom-seeds", group=gname, seeds=str(seedsets[i]), role=role, order=order); return
            for (i, role), (blob, ref) in blobs.items():
                for j in range(len(libps)):
                    fresh = P_._Params(libg, M=seedsets[j][0], N=seedsets[j][1], S=seedsets[j][2])
                    for target in (libps[j], fresh):
                        o = outcome(CLS[role].from_serialized, blob, target)
                        samefp = R.Session(role, b"pw", ref.ids, refps[j], ref.x).fingerprint() == ref.fingerprint()
                        if samefp:
                            ok = o[0] == "ok" and o[1].outbound_message == ref.message()[1:]
                        else:
                            ok = o[0] == "WrongGroup"
                        if not ok:
                            report("restore-under-other-params", group=gname, saved=str(seedsets[i]), restored=str(seedsets[j]), role=role, fresh=(target is fresh), got=str(o[0]), same_fingerprint=samefp); return
        for r1 in "ABS":
            for r2 in "ABS":
                blob, ref = blobs[(0, r1)]
                o = outcome(CLS[r2].from_serialized, blob, libps[0])
                want_ok = (r1 == r2)
                if (o[0] == "ok") != want_ok:
                    report("restore-under-other-role", group=gname, saved=r1, restored=r2, got=str(o[0])); return

def s_elements():
    # the element API against independent arithmetic, including edge operands
    tg, trg = groups.IntegerGroup(2027, 1013, 4), R.IntGroup(2027, 1013, 4)
    for g, rg, name in [(tg, trg, "toy2027"), (groups.I1024, None, "I1024")]:
        if rg is None:
            pub_ = json.load(open(verif + "/certs/published.json"))["groups"]["I1024"]
            rg = R.IntGroup(int(pub_["p"]), int(pub_["q"]), int(pub_["g"]))
        q = rg.q
        B = g.Base
        for n in [0, 1, -1, 2, q - 1, q, q + 1, -q, 2 * q + 3, (q + 1) // 2, 2 ** 20]:
            e = B.scalarmult(n)
            if e.to_bytes() != rg.enc(rg.mul(n, rg.base())):
                report("int-scalarmult", group=name, n=n); return
            f = e.add(B)
            if f.to_bytes() != rg.enc(rg.add(rg.mul(n, rg.base()), rg.base())):
                report("int-add", group=name, n=n); return
            if not (B.scalarmult(n + 1) == f) or (B.scalarmult(n + 1) != f):
                report("int-equality", group=name, n=n); return
            if n % q != 0 and g.bytes_to_element(e.to_bytes()).to_bytes() != e.to_bytes():
                report("int-roundtrip", group=name, n=n); return
        over = [(rg.p + m).to_bytes(rg.esize, "big") for m in (1, rg.base(), rg.mul(5, rg.base())) if rg.p + m < 256 ** rg.esize]
        for bad in over + [b"", rg.enc(1)[:-1], rg.enc(1) + b"\x00", b"\x00" + rg.enc(rg.base()), bytes(rg.esize), (rg.p).to_bytes(rg.esize, "big"), (rg.p - 1).to_bytes(rg.esize, "big"), (2).to_bytes(rg.esize, "big") if pow(2, q, rg.p) != 1 else bytes(rg.esize)]:
            if outcome(g.bytes_to_element, bad)[0] == "ok":
                report("int-decode-accepts", group=name, encoding=bad); return
        for i in [0, 1, q - 1]:
            if g.bytes_to_scalar(g.scalar_to_bytes(i)) != i or len(g.scalar_to_bytes(i)) != rg.ssize or g.scalar_to_bytes(i) != rg.s2b(i):
                report("int-scalar-codec", group=name, i=i); return
    for bad in [(23, 11, 5), (23, 11, 22), (2027, 1013, 2026)]:
        if outcome(groups.IntegerGroup, *bad)[0] == "ok" and pow(bad[2], bad[1], bad[0]) != 1:
            report("constructor-accepts-bad-generator", p=bad[0], q=bad[1], g=bad[2]); return
    # Ed25519
    eg = R.EdGroup()
    Bp = C.ed_base()
    def lib_pt(e):
        return eg_dec_any(e.to_bytes())
    def eg_dec_any(b):
        v = int.from_bytes(b, "little"); y = v & ((1 << 255) - 1); p = C.ed_decompress_y(y); x = p[0]
        if (x & 1) != (v >> 255): x = C.ED_Q - x
        return (x % C.ED_Q, y)
    small = C.ed_small_order_points()
    elems = [("Base", E.Base, Bp), ("Zero", E.Zero, (0, 1))]
    for n in [2, 3, 5, C.ED_L - 1, (C.ED_L + 1) // 2]:
        elems.append(("Base*%d" % n, E.Base.scalarmult(n), C.ed_mul_affine(n, Bp)))
    for nm, e, p in elems:
        if e.to_bytes() != C.ed_encode(p):
            report("ed-encoding", elem=nm); return
    for (n1, e1, p1), (n2, e2, p2) in itertools.product(elems, elems):
        s = e1.add(e2)
        if s.to_bytes() != C.ed_encode(C.ed_add_affine(p1, p2)):
            report("ed-add", a=n1, b=n2); return
        if not hasattr(s, "negate") or outcome(s.scalarmult, -3)[0] != "ok":
            report("ed-add-closure", a=n1, b=n2, cls=type(s).__name__); return
        if (e1 == e2) != (p1 == p2) or (e1 != e2) != (p1 != p2):
            report("ed-equality", a=n1, b=n2); return
        rt = E.bytes_to_element(e1.to_bytes()) if p1 != (0, 1) else e1      # same point, other projective scaling / class
        s2 = rt.add(e2.scalarmult(1))
        if s2.to_bytes() != C.ed_encode(C.ed_add_affine(p1, p2)):
            report("ed-add-other-representation", a=n1, b=n2); return
        d = e1.subtract(e2) if hasattr(e1, "subtract") and hasattr(e2, "negate") else None
        if d is not None and d.to_bytes() != C.ed_encode(C.ed_add_affine(p1, ((-p2[0]) % C.ED_Q, p2[1]))):
            report("ed-subtract", a=n1, b=n2); return
    for nm, e, p in elems:
        for n in [0, 1, -1, 2, 8, C.ED_L - 1, C.ED_L, C.ED_L + 1, -C.ED_L, 2 ** 20]:
            r = e.scalarmult(n)
            if r.to_bytes() != C.ed_encode(C.ed_mul_affine(n % C.ED_L, p)):
                report("ed-scalarmult", elem=nm, n=n); return
        if hasattr(e, "negate") and e.negate().to_bytes() != C.ed_encode(((-p[0]) % C.ED_Q, p[1])):
            report("ed-negate", elem=nm); return
    # unknown-group elements: small-order and mixed-order points through the real decoder
    for sp in small:
        enc_ = C.ed_encode(sp)
        u = E.bytes_to_unknown_group_element(enc_)
        for n in [0, 1, 2, 4, 8, 3]:
            if u.scalarmult(n).to_bytes() != C.ed_encode(C.ed_mul_affine(n, sp)):
                report("ed-small-order-scalarmult", point=enc_, n=n); return
        for sp2 in small + [Bp]:
            v = E.bytes_to_unknown_group_element(C.ed_encode(sp2))
            if u.add(v).to_bytes() != C.ed_encode(C.ed_add_affine(sp, sp2)):
                report("ed-small-order-add", a=enc_, b=C.ed_encode(sp2)); return
        mixed = C.ed_add_affine(sp, Bp)
        for cand in [enc_, C.ed_encode(mixed)] if sp != (0, 1) else [enc_]:
            if outcome(E.bytes_to_element, cand)[0] == "ok":
                report("ed-decode-accepts", encoding=cand); return
    noncanon = [bytes.fromhex("01" + "00" * 30 + "80"), (2**255 - 18).to_bytes(32, "little"), (2**255 - 18 + 2**255).to_bytes(32, "little"),
                C.ed_encode(Bp) + b"\x00", C.ed_encode(Bp)[:-1], b"", (C.ED_Q + Bp[1] if C.ED_Q + Bp[1] < 2**255 else 0).to_bytes(32, "little")]
    for cand in noncanon:
        if outcome(E.bytes_to_element, cand)[0] == "ok":
            report("ed-decode-accepts", encoding=cand); return
    for i in [0, 1, C.ED_L - 1]:
        if E.bytes_to_scalar(E.scalar_to_bytes(i)) != i or E.scalar_to_bytes(i) != i.to_bytes(32, "little"):
            report("ed-scalar-codec", i=i); return

def s_derivations():
    pub_ = json.load(open(verif + "/certs/published.json"))["groups"]
    gs = [(groups.IntegerGroup(2027, 1013, 4), R.IntGroup(2027, 1013, 4), "toy2027"), (ed25519_group.Ed25519Group, R.EdGroup(), "Ed25519"),
          (groups.I1024, R.IntGroup(*[int(pub_["I1024"][k]) for k in "pqg"]), "I1024"), (groups.I3072, R.IntGroup(*[int(pub_["I3072"][k]) for k in "pqg"]), "I3072")]
    words = [b"", b"M", b"N", b"symmetric", b"pw", b"\x00", bytes(range(64)), bytes(range(65)), b"x" * 200]
    for rounds_ in range(2):
        for g, rg, name in gs:
            for w in words:
                if g.password_to_scalar(w) != rg.password_to_scalar(w):
                    report("password_to_scalar", group=name, pw=w, pass_=rounds_); return
                try:
                    e = g.arbitrary_element(w).to_bytes()
                except AssertionError:
                    e = None
                want = rg.arbitrary_element(w)
                if e is not None and e != rg.enc(want):
                    report("arbitrary_element", group=name, seed=w, pass_=rounds_); return
                if e is None and want not in (0, 1, rg.identity):
                    report("arbitrary_element-raises", group=name, seed=w); return

def s_ae_long_runs():
    # Ed25519 try-and-increment: seeds whose derived y is followed by a long run of non-curve values (found with the
    # reference alone, cheap), then compared on the real function
    picks = []
    for i in range(4000):
        seed = b"seed-%d" % i
        y = int.from_bytes(C.hkdf(seed, b"", b"SPAKE2 arbitrary element", 48), "big") % C.ED_Q
        k = 0
        while C.ed_decompress_y((y + k) % C.ED_Q) is None:
            k += 1
        picks.append((k, seed))
    picks.sort(reverse=True)
    rg = R.EdGroup()
    for k, seed in picks[:12] + picks[2000:2004]:
        o = outcome(E.arbitrary_element, seed)
        want = rg.enc(rg.arbitrary_element(seed))
        if o[0] != "ok" or o[1].to_bytes() != want:
            report("ed-arbitrary_element-long-run", seed=seed, increments=k, got=str(o[0])); return
        try:
            P_._Params(ed25519_group.Ed25519Group, M=seed)
        except Exception as e:
            report("params-with-long-run-seed", seed=seed, exc=type(e).__name__); return


for f in [x for x in (s_util, s_derivations, s_ae_long_runs, s_elements, s_entropy, s_params_mix, s_sessions) if not only or x.__name__ in only]:
    if mismatch is None:
        suite(f)

result = {"mismatch": mismatch, "count": count}
'''


def run(rounds=2, big=False, seed=0, only=()):
    # the suites have their own wall-clock alarm (240 s each, 900 s each when big); the request limit must not cut them short
    r = oracle().req(_timeout=(7 * 900 + 60) if big else (7 * 240 + 60), op="exec", code=CODE, env={"rounds": Oracle.enc(rounds), "big": Oracle.enc(big), "seed": Oracle.enc(seed), "verif": Oracle.enc(VERIF), "only": Oracle.enc(list(only))})
    if not r.get("ok"):
        return {"error": r.get("error"), "tb": r.get("tb")}
    return Oracle.dec(r["value"])


def replayer(pid, qual, o, repo):
    seed = int(os.environ.get("VERIF_SEED", "0"))
    from .props import SUITES_FOR
    r = run(rounds=2, big=False, seed=seed, only=SUITES_FOR.get(pid) or [])
    if r.get("mismatch"):
        return dict(kind="scenario: real classes vs independent reference", confirmed=True, failing_scenario=r["mismatch"], scenarios_tried=r.get("count"))
    return dict(kind="scenario: real classes vs independent reference", confirmed=False, scenarios_tried=r.get("count"), error=r.get("error"))
