"""Symbolic values and the T0 library model (SMT declarations + eagerly instantiated axioms).

Everything in this file is *specification vocabulary and builtin semantics*; nothing here
mirrors a function of /repo.  See DESIGN.md 3.1.
"""
import itertools
import z3

Int = z3.IntSort()
Bool = z3.BoolSort()
B = z3.DeclareSort("Bytes")

# ---- T0 function symbols ---------------------------------------------------------------
blen = z3.Function("blen", B, Int)            # len(b)
bval = z3.Function("bval", B, Int)            # int.from_bytes(b, "big")
mkb = z3.Function("mkb", Int, Int, B)         # the byte string with given length and big-endian value
cat = z3.Function("cat", B, B, B)             # a + b
take = z3.Function("take", B, Int, B)         # b[:k]
drop = z3.Function("drop", B, Int, B)         # b[k:]
rev = z3.Function("rev", B, B)                # b[::-1]
sha256 = z3.Function("sha256", B, B)
hkdf = z3.Function("hkdf", B, B, B, Int, B)   # HKDF-SHA256(ikm, salt, info, length)
hexl = z3.Function("hexl", B, B)              # binascii.hexlify(b)  (also the ascii text of the hex str)
unhex = z3.Function("unhex", B, B)            # binascii.unhexlify on hex text
ishex = z3.Function("ishex", B, Bool)         # unhexlify accepts
hexfmt = z3.Function("hexfmt", Int, Int, B)   # ("%0<w>x" % n).encode("ascii")
decstr = z3.Function("decstr", Int, B)        # str(n).encode("ascii")
hd = z3.Function("hd", Int, Int)              # number of hex digits of n>0
p2 = z3.Function("p2", Int, Int)              # 2**k, k>=0
bl = z3.Function("bl", Int, Int)              # int.bit_length
powmod = z3.Function("powmod", Int, Int, Int, Int)  # pow(x,e,m)  for e>=0, m>0
blt = z3.Function("blt", B, B, Bool)          # bytes.__lt__ (lexicographic)
ent = z3.Function("ent", Int, Int, Int, B)    # ent(stream, k, n): k-th answer of entropy stream when asked for n bytes
band = z3.Function("band", Int, Int, Int)     # a & b for a,b >= 0
head = z3.Function("head", B, Int)            # b[0]
jsonenc = z3.Function("jsonenc", Int, B)      # json text of symbolic dict #i (only used as an opaque carrier)


def IV(n):
    return z3.IntVal(n)


class Facts:
    """Axiom instances (universally true statements about created terms)."""

    def __init__(self):
        self.facts = []
        self.seen = set()
        self.kinds = {}          # kind -> list of argument tuples
        self.used_axioms = set()
        self.bytes_terms = {}
        self.pending_pairs = True

    def add(self, f, ax=None):
        if isinstance(f, bool):
            if not f:
                raise AssertionError("false fact (%s)" % ax)
            return
        k = f.get_id()
        if k in self.seen:
            return
        self.seen.add(k)
        self.facts.append(f)
        if ax:
            self.used_axioms.add(ax)

    def reg(self, kind, *args):
        lst = self.kinds.setdefault(kind, [])
        key = tuple(a.get_id() if hasattr(a, "get_id") else a for a in args)
        for k, _ in lst:
            if k == key:
                return False
        lst.append((key, args))
        return True

    def items(self, kind):
        return [a for _, a in self.kinds.get(kind, [])]


FACTS = Facts()


RESET_HOOKS = []      # per-path state of other modules (reset together with the fact store)


def reset_facts():
    global FACTS
    for h in RESET_HOOKS:
        h()
    FACTS = Facts()
    _fresh_counter.clear()
    _ABS_CACHE.clear()
    _KNOWN_LEN.clear()
    _ATOMS.clear()
    del _ABS_SIDE[:]
    _ABS_SIDE_SEEN.clear()
    return FACTS


_fresh_counter = {}


def fresh(prefix, sort=Int):
    n = _fresh_counter.get(prefix, 0)
    _fresh_counter[prefix] = n + 1
    return z3.Const("%s!%d" % (prefix, n), sort)


def simp(t):
    return z3.simplify(t)


def as_const_int(t):
    if isinstance(t, int) and not isinstance(t, bool):
        return t
    if isinstance(t, bool):
        return None
    if z3.is_int_value(t):
        return t.as_long()
    s = z3.simplify(t)
    if z3.is_int_value(s):
        return s.as_long()
    return None


# ---- powers of two -------------------------------------------------------------------------
def P2(k):
    """2**k as a term; literal when k is a numeral."""
    c = as_const_int(k)
    if c is not None:
        if c < 0:
            c = 0  # callers guard k>=0; keep total
        return IV(2 ** c)
    k = simp(k)
    t = p2(k)
    if FACTS.reg("p2", k):
        FACTS.add(z3.Implies(k >= 0, t >= 1), "p2-pos")
        for c in (0, 1, 2, 3, 4, 5, 6, 7, 8, 16):
            FACTS.add(z3.Implies(k == c, t == 2 ** c), "p2-small")
            FACTS.add(z3.Implies(k >= c, t >= 2 ** c), "p2-mono")
        others = [k2 for (k2,) in FACTS.items("p2") if k2 is not k]
        if len(others) <= 24:
            for k2 in others:
                _p2_pair(k, k2)
    return t


def _p2_pair(a, b):
    ta, tb = p2(a), p2(b)
    FACTS.add(z3.Implies(z3.And(a >= 0, a <= b), ta <= tb), "p2-mono")
    FACTS.add(z3.Implies(z3.And(b >= 0, b <= a), tb <= ta), "p2-mono")
    FACTS.add(z3.Implies(z3.And(a >= 0, a < b), 2 * ta <= tb), "p2-mono-strict")
    FACTS.add(z3.Implies(z3.And(b >= 0, b < a), 2 * tb <= ta), "p2-mono-strict")
    FACTS.add(z3.Implies(a == b, ta == tb), "p2-fun")


def p2_add_law(a, b):
    """2**(a+b) == 2**a * 2**b  (explicit, because it is nonlinear)."""
    FACTS.add(z3.Implies(z3.And(a >= 0, b >= 0), P2(a + b) == P2(a) * P2(b)), "p2-add")


def P256(n):
    c = as_const_int(n)
    if c is not None:
        return IV(256 ** max(c, 0))
    return P2(simp(8 * n))


def BL(n):
    c = as_const_int(n)
    if c is not None:
        return IV(abs(c).bit_length())
    n = simp(n)
    t = bl(n)
    if FACTS.reg("bl", n):
        FACTS.add(z3.Implies(n == 0, t == 0), "bl-zero")
        FACTS.add(t >= 0, "bl-nonneg")
        FACTS.add(z3.Implies(n > 0, z3.And(t >= 1, P2(t - 1) <= n, n < P2(t))), "bl-def")
        FACTS.add(z3.Implies(n < 0, z3.And(t >= 1, P2(t - 1) <= -n, -n < P2(t))), "bl-def-neg")
        for (m,) in FACTS.items("bl"):
            if m is n:
                continue
            FACTS.add(z3.Implies(z3.And(0 <= n, n <= m), bl(n) <= bl(m)), "bl-mono")
            FACTS.add(z3.Implies(z3.And(0 <= m, m <= n), bl(m) <= bl(n)), "bl-mono")
    return t


def bl_bound(n, k):
    """n < 2**k  <=>  bl(n) <= k   for n >= 0, k >= 0 (explicit instance)."""
    FACTS.add(z3.Implies(z3.And(n >= 0, k >= 0), (n < P2(k)) == (BL(n) <= k)), "bl-bound")


def HD(n):
    n = simp(n)
    t = hd(n)
    if FACTS.reg("hd", n):
        FACTS.add(z3.Implies(n > 0, z3.And(t >= 1, P2(4 * (t - 1)) <= n, n < P2(4 * t))), "hd-def")
        FACTS.add(z3.Implies(n == 0, t == 1), "hd-zero")
    return t


# ---- bytes ---------------------------------------------------------------------------------
def regb(t):
    """Register a Bytes term: well-formedness facts."""
    if FACTS.reg("bytes", t):
        FACTS.add(blen(t) >= 0, "bytes-wf")
        FACTS.add(bval(t) >= 0, "bytes-wf")
        kl = _known_len(t)
        if kl is not None:
            FACTS.add(bval(t) < 256 ** kl, "bytes-wf")
    return t


def wf_upper(t):
    """bval(t) < 256**blen(t): instantiated on demand (it creates a 2**k term)"""
    if FACTS.reg("bytes-upper", t):
        FACTS.add(bval(t) < P256(blen(t)), "bytes-wf")
    return t


def lit_bytes(b):
    t = mkb(IV(len(b)), IV(int.from_bytes(b, "big")))
    if FACTS.reg("lit", t):
        FACTS.add(blen(t) == len(b), "mkb")
        FACTS.add(bval(t) == int.from_bytes(b, "big"), "mkb")
        FACTS.reg("bytes", t)
        if len(b) >= 1:
            FACTS.add(head(t) == b[0], "head-lit")
        FACTS.reg("litval", t, b)
    return t


def mk_bytes(l, v):
    """bytes of length l and value v; meaningful when 0 <= v < 256**l (guarded)."""
    l = l if not isinstance(l, int) else IV(l)
    v = v if not isinstance(v, int) else IV(v)
    lc, vc = as_const_int(l), as_const_int(v)
    if lc is not None and vc is not None and lc >= 0 and 0 <= vc < 256 ** lc:
        return lit_bytes(vc.to_bytes(lc, "big"))
    t = mkb(simp(l), simp(v))
    if FACTS.reg("mkb", t):
        FACTS.add(z3.Implies(z3.And(l >= 0, v >= 0, v < P256(l)), z3.And(blen(t) == l, bval(t) == v)), "mkb")
        regb(t)
        wf_upper(t)
    return t


def beq(a, b):
    """a == b on bytes, with the extensionality instance for this pair."""
    if a.eq(b):
        return z3.BoolVal(True)
    FACTS.add(z3.Implies(z3.And(blen(a) == blen(b), bval(a) == bval(b)), a == b), "bytes-ext")
    return a == b


def concat(a, b):
    t = cat(a, b)
    if FACTS.reg("cat", a, b):
        regb(a); regb(b)
        FACTS.add(blen(t) == blen(a) + blen(b), "cat-len")
        lb = as_const_int(simp(blen(b)))
        if lb is None:
            # length known from facts?  try literal structure
            lb = _known_len(b)
        if lb is not None:
            FACTS.add(bval(t) == bval(a) * (256 ** lb) + bval(b), "cat-val")
        FACTS.add(z3.Implies(blen(a) == 0, t == b), "cat-empty")
        FACTS.add(z3.Implies(blen(b) == 0, t == a), "cat-empty")
        FACTS.add(z3.Implies(blen(a) >= 1, head(t) == head(a)), "head-cat")
        regb(t)
        for (c, d) in FACTS.items("cat"):
            if c is a and d is b:
                continue
            t2 = cat(c, d)
            FACTS.add(z3.Implies(z3.And(t == t2, blen(a) == blen(c)), z3.And(a == c, b == d)), "cat-inj")
            FACTS.add(z3.Implies(z3.And(a == c, b == d), t == t2), "cat-fun")
    return t


_KNOWN_LEN = {}


def set_known_len(t, n):
    _KNOWN_LEN[t.get_id()] = (t, n)
    if n is not None and FACTS.reg("bytes-upper", t):
        FACTS.add(bval(t) < 256 ** n, "bytes-wf")


def _known_len(t):
    e = _KNOWN_LEN.get(t.get_id())
    if e is not None:
        return e[1]
    if z3.is_app(t) and t.decl().name() == "mkb":
        return as_const_int(t.arg(0))
    if z3.is_app(t) and t.decl().name() == "sha256":
        return 32
    return None


def concat_many(parts):
    parts = list(parts)
    if not parts:
        return lit_bytes(b"")
    t = parts[-1]
    for p in reversed(parts[:-1]):
        t = concat(p, t)
    return t


def btake(s, k):
    kc = as_const_int(k)
    k = IV(k) if isinstance(k, int) else simp(k)
    t = take(s, k)
    if FACTS.reg("take", s, k):
        regb(s)
        d = drop(s, k)
        FACTS.add(z3.Implies(z3.And(0 <= k, k <= blen(s)),
                             z3.And(blen(t) == k, blen(d) == blen(s) - k, s == concat(t, d))), "take-drop")
        FACTS.add(z3.Implies(k >= blen(s), z3.And(t == s, blen(d) == 0)), "take-drop-over")
        FACTS.add(z3.Implies(z3.And(k >= 1, blen(s) >= 1), head(t) == head(s)), "head-take")
        regb(t); regb(d)
        if kc is not None and 0 <= kc <= 4096:
            # a prefix of at most kc bytes: its value is below 256**kc (the general bound goes through the symbol 2**(8*len))
            FACTS.add(z3.And(blen(t) <= kc, bval(t) < 256 ** kc), "take-bound")
            FACTS.add(z3.And(blen(rev(t)) <= kc, bval(rev(t)) < 256 ** kc, bval(rev(t)) >= 0), "take-bound")
        if kc is not None and kc >= 0:
            set_known_len(d, None)
    return t


def bdrop(s, k):
    k = IV(k) if isinstance(k, int) else simp(k)
    btake(s, k)
    return drop(s, k)


def brev(s):
    t = rev(s)
    if FACTS.reg("rev", s):
        regb(s)
        FACTS.add(blen(t) == blen(s), "rev-len")
        FACTS.add(rev(t) == s, "rev-invol")
        for (tt, b) in FACTS.items("litval"):
            if tt.eq(s):
                FACTS.add(t == lit_bytes(b[::-1]), "rev-lit")
        regb(t)
        for (s2,) in FACTS.items("rev"):
            if s2 is not s:
                FACTS.add((rev(s) == rev(s2)) == (s == s2), "rev-inj")
    return t


def SHA(x):
    t = sha256(x)
    if FACTS.reg("sha", x):
        regb(x)
        FACTS.add(blen(t) == 32, "sha-len")
        regb(t)
        set_known_len(t, 32)
    return t


def sha_injective():
    """M-sha (T2): instantiate injectivity of sha256 on all pairs of hashed terms."""
    xs = [a[0] for a in FACTS.items("sha")]
    for x, y in itertools.combinations(xs, 2):
        FACTS.add(z3.Implies(sha256(x) == sha256(y), x == y), "M-sha")


def HKDF(ikm, salt, info, n):
    n = IV(n) if isinstance(n, int) else simp(n)
    t = hkdf(ikm, salt, info, n)
    if FACTS.reg("hkdf", ikm, salt, info, n):
        FACTS.add(z3.Implies(n >= 0, blen(t) == n), "hkdf-len")
        regb(t)
        nc = as_const_int(n)
        if nc is not None:
            set_known_len(t, nc)
    return t


def HEXL(b):
    t = hexl(b)
    if FACTS.reg("hexl", b):
        regb(b)
        FACTS.add(blen(t) == 2 * blen(b), "hexl-len")
        FACTS.add(ishex(t), "hexl-ishex")
        FACTS.add(unhex(t) == b, "unhex-hexl")
        regb(t)
        for (b2,) in FACTS.items("hexl"):
            if b2 is not b:
                FACTS.add((hexl(b) == hexl(b2)) == (b == b2), "hexl-inj")
    return t


def UNHEX(x):
    t = unhex(x)
    if FACTS.reg("unhex", x):
        regb(x)
        FACTS.add(z3.Implies(ishex(x), z3.And(2 * blen(t) == blen(x), hexl(t) == x)), "unhex-def")
        HEXL(t)
        regb(t)
    return t


def HEXFMT(w, n):
    """("%0<w>x" % n) as ascii text."""
    w = IV(w) if isinstance(w, int) else simp(w)
    n = IV(n) if isinstance(n, int) else simp(n)
    t = hexfmt(w, n)
    if FACTS.reg("hexfmt", w, n):
        regb(t)
        half = fresh("half")
        FACTS.add(z3.Or(w == 2 * half, w == 2 * half + 1), "int-div2")
        fits = z3.And(n >= 0, n < P2(simp(4 * w)), w >= 1)
        FACTS.add(z3.Implies(z3.And(fits, w == 2 * half), t == HEXL(mk_bytes(half, n))), "hexfmt-fit-even")
        FACTS.add(z3.Implies(z3.And(fits, w == 2 * half + 1), z3.And(blen(t) == w, z3.Not(ishex(t)))), "hexfmt-fit-odd")
        # does not fit in the field width: as many digits as needed
        dg = HD(n)
        half2 = fresh("half")
        FACTS.add(z3.Or(dg == 2 * half2, dg == 2 * half2 + 1), "int-div2")
        big = z3.And(n >= 0, w >= 0, n >= P2(simp(4 * w)))
        FACTS.add(z3.Implies(z3.And(big, dg == 2 * half2), t == HEXL(mk_bytes(half2, n))), "hexfmt-big-even")
        FACTS.add(z3.Implies(z3.And(big, dg == 2 * half2 + 1), z3.And(blen(t) == dg, z3.Not(ishex(t)))), "hexfmt-big-odd")
        FACTS.add(z3.Implies(n < 0, z3.Not(ishex(t))), "hexfmt-neg")
    return t


def BLT(a, b):
    t = blt(a, b)
    if FACTS.reg("blt", a, b):
        FACTS.add(z3.Implies(blen(a) == blen(b), t == (bval(a) < bval(b))), "blt-eqlen")
        FACTS.add(z3.Not(z3.And(t, blt(b, a))), "blt-asym")
        FACTS.add(z3.Or(t, blt(b, a), beq(a, b)), "blt-total")
        FACTS.add(z3.Implies(a == b, z3.Not(t)), "blt-irrefl")
    return t


def BAND_MASK(x, j):
    """x & (2**j - 1) == x % 2**j for x>=0, j>=0."""
    return x % P2(j)


def POWMOD(x, e, m):
    xc, ec, mc = as_const_int(x), as_const_int(e), as_const_int(m)
    if xc is not None and ec is not None and mc is not None and ec >= 0 and mc > 0:
        return IV(pow(xc, ec, mc))
    x = IV(x) if isinstance(x, int) else simp(x)
    e = IV(e) if isinstance(e, int) else simp(e)
    m = IV(m) if isinstance(m, int) else simp(m)
    if ec is not None and 2 <= ec <= 4:
        # pow(x, 2, m) is x*x % m: small literal exponents are unfolded (audited: "powmod-small")
        r = x
        for _ in range(ec - 1):
            r = r * x
        if mc is not None and mc > 0:
            return simp(r % m)
    t = powmod(x, e, m)
    if FACTS.reg("powmod", x, e, m):
        FACTS.add(z3.Implies(z3.And(m > 0, e >= 0), z3.And(t >= 0, t < m)), "powmod-range")
        FACTS.add(z3.Implies(z3.And(m > 1, e == 0), t == 1), "powmod-zero")
        FACTS.add(z3.Implies(z3.And(m > 0, e == 1), t == x % m), "powmod-one")
        FACTS.add(z3.Implies(z3.And(m > 0, e >= 0), t == powmod(x % m, e, m)), "powmod-base-mod")
    return t


def ENT(stream, k, n):
    t = ent(stream, IV(k) if isinstance(k, int) else k, IV(n) if isinstance(n, int) else simp(n))
    if FACTS.reg("ent", t):
        FACTS.add(z3.Implies(n >= 0, blen(t) == n) if not isinstance(n, int) else blen(t) == n, "A-entropy")
        regb(t)
        if isinstance(n, int):
            set_known_len(t, n)
    return t


def HEAD(s):
    t = head(s)
    if FACTS.reg("head", s):
        regb(s)
        wf_upper(s)
        FACTS.add(z3.Implies(blen(s) >= 1, z3.And(t >= 0, t <= 255)), "head-range")
        tl = bdrop(s, 1)
        # s = [head] + tail
        FACTS.add(z3.Implies(blen(s) >= 1, bval(s) == t * P256(blen(s) - 1) + bval(tl)), "head-tail-val")
    return t


# ---- nonlinear abstraction ---------------------------------------------------------------------------------------------------
# Products of two non-numeral terms and div/mod by a non-numeral are replaced by uninterpreted functions (consistently).
# The abstraction only forgets facts, so `unsat` of the abstracted query implies `unsat` of the original one; a `sat`
# answer of the abstracted query is NOT a counterexample.
mulU = z3.Function("mulU", Int, Int, Int)
divU = z3.Function("divU", Int, Int, Int)
modU = z3.Function("modU", Int, Int, Int)
_ABS_CACHE = {}
_ABS_SIDE = []
_ABS_SIDE_SEEN = set()


def abstract_nl(e):
    """nonlinear abstraction with a canonical polynomial normal form: every integer arithmetic term is expanded into
    sum(coeff * monomial); a monomial of degree >= 2 becomes a (sorted, left-nested) mulU chain.  So algebraically equal
    ways of writing a product (distribution, association, order) abstract to the same term."""
    k = e.get_id()
    r = _ABS_CACHE.get(k)
    if r is not None:
        return r[1]
    if not z3.is_app(e) or e.num_args() == 0:
        _ABS_CACHE[k] = (e, e)
        return e
    kind = e.decl().kind()
    if z3.is_int(e) and kind in (z3.Z3_OP_MUL, z3.Z3_OP_ADD, z3.Z3_OP_SUB, z3.Z3_OP_UMINUS):
        poly = _to_poly(e)
        out = _from_poly(poly) if poly is not None else None
        if out is None:
            out = e.decl()(*[abstract_nl(a) for a in e.children()])
        _ABS_CACHE[k] = (e, out)
        return out
    args = [abstract_nl(a) for a in e.children()]
    out = None
    if kind in (z3.Z3_OP_IDIV, z3.Z3_OP_MOD) and not z3.is_int_value(args[1]):
        a, b = args
        out = (divU if kind == z3.Z3_OP_IDIV else modU)(a, b)
        dv, md = divU(a, b), modU(a, b)
        key = (a.get_id(), b.get_id())
        if key not in _ABS_SIDE_SEEN:
            _ABS_SIDE_SEEN.add(key)
            # true facts about floor division by a positive divisor, stated over the abstraction
            _ABS_SIDE.append(z3.Implies(b > 0, z3.And(md >= 0, md < b, a == mulU(*sorted([b, dv], key=lambda t: t.get_id())) + md)))
            _ABS_SIDE.append(z3.Implies(z3.And(b > 0, a >= 0), z3.And(dv >= 0, dv <= a)))
            _ABS_SIDE.append(z3.Implies(z3.And(b > 0, a < 0), dv < 0))
            _ABS_SIDE.append(z3.Implies(z3.And(b > 0, a >= b), dv >= 1))
            _ABS_SIDE.append(z3.Implies(z3.And(b > 0, a >= 0, a < b), z3.And(dv == 0, md == a)))
    if out is None:
        out = e.decl()(*args) if any(a.get_id() != b.get_id() for a, b in zip(args, e.children())) else e
    _ABS_CACHE[k] = (e, out)
    return out


_POLY_LIMIT = 400


def _to_poly(e):
    """integer term -> {monomial (sorted tuple of atom ids): coeff}, atoms in _ATOMS; None if it grows too large"""
    if z3.is_int_value(e):
        c = e.as_long()
        return {(): c} if c else {}
    if z3.is_app(e) and z3.is_int(e):
        kind = e.decl().kind()
        if kind == z3.Z3_OP_ADD:
            acc = {}
            for ch in e.children():
                p = _to_poly(ch)
                if p is None:
                    return None
                for m, c in p.items():
                    acc[m] = acc.get(m, 0) + c
            return {m: c for m, c in acc.items() if c}
        if kind == z3.Z3_OP_SUB:
            ch = e.children()
            acc = _to_poly(ch[0])
            if acc is None:
                return None
            acc = dict(acc)
            for x in ch[1:]:
                p = _to_poly(x)
                if p is None:
                    return None
                for m, c in p.items():
                    acc[m] = acc.get(m, 0) - c
            return {m: c for m, c in acc.items() if c}
        if kind == z3.Z3_OP_UMINUS:
            p = _to_poly(e.arg(0))
            return None if p is None else {m: -c for m, c in p.items()}
        if kind == z3.Z3_OP_MUL:
            acc = {(): 1}
            for ch in e.children():
                p = _to_poly(ch)
                if p is None:
                    return None
                nxt = {}
                for m1, c1 in acc.items():
                    for m2, c2 in p.items():
                        m = tuple(sorted(m1 + m2))
                        nxt[m] = nxt.get(m, 0) + c1 * c2
                if len(nxt) > _POLY_LIMIT:
                    return None
                acc = {m: c for m, c in nxt.items() if c}
            return acc
    # atom: anything else (variables, uninterpreted applications, mod/div, ite ...), abstracted recursively
    a = abstract_nl(e) if (z3.is_app(e) and e.num_args() > 0) else e
    _ATOMS[a.get_id()] = a
    return {(a.get_id(),): 1}


_ATOMS = {}


def _from_poly(poly):
    terms = []
    for m in sorted(poly):
        c = poly[m]
        if not m:
            terms.append(IV(c))
            continue
        acc = _ATOMS[m[0]]
        for i in m[1:]:
            a_, b_ = acc, _ATOMS[i]
            acc = mulU(a_, b_)
            key = ("mul", a_.get_id(), b_.get_id())
            if key not in _ABS_SIDE_SEEN:
                _ABS_SIDE_SEEN.add(key)
                # true facts about multiplication, stated over the abstraction
                _ABS_SIDE.append(z3.Implies(a_ == 1, acc == b_))
                _ABS_SIDE.append(z3.Implies(b_ == 1, acc == a_))
                _ABS_SIDE.append(z3.Implies(z3.Or(a_ == 0, b_ == 0), acc == 0))
                _ABS_SIDE.append(z3.Implies(z3.And(a_ > 0, b_ > 0), z3.And(acc >= a_, acc >= b_)))
                _ABS_SIDE.append(z3.Implies(z3.And(a_ >= 0, b_ >= 0), acc >= 0))
                _ABS_SIDE.append(z3.Implies(z3.And(a_ != 0, b_ != 0), acc != 0))
        terms.append(acc if c == 1 else IV(c) * acc)
    if not terms:
        return IV(0)
    out = terms[0]
    for t in terms[1:]:
        out = out + t
    return out
