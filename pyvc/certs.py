"""Pratt primality certificates: n is prime iff there is a witness w with w^(n-1) = 1 (mod n) and
w^((n-1)/p) != 1 (mod n) for every prime p | n-1, where the factorisation of n-1 is complete and every factor is
itself certified (recursively; numbers < 1000 are checked by trial division)."""
import os, json

VERIF = os.path.dirname(os.path.dirname(os.path.abspath(__file__)))


def small_prime(n):
    if n < 2:
        return False
    i = 2
    while i * i <= n:
        if n % i == 0:
            return False
        i += 1
    return True


def check(c, count=None):
    count = count if count is not None else [0]
    n = int(c["n"])
    count[0] += 1
    if "witness" not in c:
        return n < 1000 and small_prime(n)
    w = int(c["witness"])
    prod = 1
    for sub, e in c["factors"]:
        p = int(sub["n"])
        if not check(sub, count):
            return False
        prod *= p ** e
        if pow(w, (n - 1) // p, n) == 1:
            return False
    return prod == n - 1 and pow(w, n - 1, n) == 1


def certified_prime(name, expected_value):
    """returns (ok, detail)"""
    p = os.path.join(VERIF, "certs", "pratt_%s.json" % name)
    if not os.path.exists(p):
        return False, "no certificate file for %s" % name
    c = json.load(open(p))
    if int(c["n"]) != expected_value:
        return False, "certificate is for a different number"
    cnt = [0]
    ok = check(c, cnt)
    return ok, "Pratt certificate tree with %d nodes verified" % cnt[0] if ok else "certificate INVALID"


def miller_rabin(n, rounds=64, seed=0):
    """probabilistic (labelled so wherever used)"""
    import random
    if n < 2:
        return False
    for p in (2, 3, 5, 7, 11, 13, 17, 19, 23, 29, 31, 37):
        if n % p == 0:
            return n == p
    d, s = n - 1, 0
    while d % 2 == 0:
        d //= 2
        s += 1
    rng = random.Random(seed)
    for a in [2, 3, 5, 7, 11, 13, 17, 19, 23, 29, 31, 37] + [rng.randrange(2, n - 1) for _ in range(rounds)]:
        x = pow(a, d, n)
        if x in (1, n - 1):
            continue
        for _ in range(s - 1):
            x = pow(x, 2, n)
            if x == n - 1:
                break
        else:
            return False
    return True
