"""Value domain of the symbolic executor."""
import z3
from . import sym


class Unsupported(Exception):
    """Construct outside the supported subset: verdict undecided, never a pass."""


class Raise(Exception):
    """A (symbolic) Python exception propagating through the interpreted code."""

    def __init__(self, exc, where=None):
        Exception.__init__(self, exc)
        self.exc = exc          # exception class name, e.g. 'ValueError', 'spake2.OffSides'
        self.where = where


class PathEnd(Exception):
    """Path ends without a function outcome (loop back edge, infeasible assumption)."""

    def __init__(self, kind):
        Exception.__init__(self, kind)
        self.kind = kind


class SInt:
    __slots__ = ("t",)

    def __init__(self, t):
        self.t = t

    def __repr__(self):
        return "SInt(%s)" % self.t


class SBool:
    __slots__ = ("t",)

    def __init__(self, t):
        self.t = t

    def __repr__(self):
        return "SBool(%s)" % self.t


class SBytes:
    __slots__ = ("t",)

    def __init__(self, t):
        self.t = sym.regb(t)

    def __repr__(self):
        return "SBytes(%s)" % self.t


class SStr:
    """A str whose ASCII encoding is the Bytes term t."""
    __slots__ = ("t",)

    def __init__(self, t):
        self.t = sym.regb(t)

    def __repr__(self):
        return "SStr(%s)" % self.t


class SFrac:
    """Result of int / int (true division), kept exact."""
    __slots__ = ("num", "den")

    def __init__(self, num, den):
        self.num = num
        self.den = den


class SByteList:
    """list of ints in 0..255, isomorphic to the Bytes term t."""
    __slots__ = ("t",)

    def __init__(self, t):
        self.t = sym.regb(t)


class SMapList:
    """[f(b) for b in <bytelist>] : element-wise image of a byte list; elem is the symbolic
    result for the generic element var."""
    __slots__ = ("src", "var", "elem")

    def __init__(self, src, var, elem):
        self.src, self.var, self.elem = src, var, elem


class SObj:
    __slots__ = ("oid",)

    def __init__(self, oid):
        self.oid = oid

    def __repr__(self):
        return "SObj(%s)" % self.oid

    def __eq__(self, o):
        return isinstance(o, SObj) and o.oid == self.oid

    def __hash__(self):
        return hash(self.oid)


class SFunc:
    """A repository function value (possibly bound)."""
    __slots__ = ("finfo", "self_val", "closure", "static")

    def __init__(self, finfo, self_val=None, closure=None):
        self.finfo, self.self_val, self.closure, self.static = finfo, self_val, closure, False


class SSuper:
    """super() / super(C, obj): attribute lookup continues after class `after` in its own MRO, bound to `bound`"""
    __slots__ = ("bound", "after")

    def __init__(self, bound, after):
        self.bound, self.after = bound, after


class SClass:
    __slots__ = ("cinfo",)

    def __init__(self, cinfo):
        self.cinfo = cinfo


class SBuiltin:
    """A modelled builtin / library callable (T0)."""
    __slots__ = ("name", "bound")

    def __init__(self, name, bound=None):
        self.name, self.bound = name, bound

    def __repr__(self):
        return "SBuiltin(%s)" % self.name


class SModule:
    __slots__ = ("name",)

    def __init__(self, name):
        self.name = name


class SEntropy:
    """Abstract entropy function (A-entropy): behaves like os.urandom; stream id."""
    __slots__ = ("stream", "forbidden", "pattern", "count")

    def __init__(self, stream, forbidden=False):
        self.stream, self.forbidden, self.pattern, self.count = stream, forbidden, None, 0


class SOpaque:
    """Opaque library object (hash object, HKDF object, json-carrying bytes...)."""
    __slots__ = ("kind", "data")

    def __init__(self, kind, data=None):
        self.kind, self.data = kind, data

    def __repr__(self):
        return "SOpaque(%s)" % self.kind


class SPoint:
    """Spec-level value: abstract group element (uninterpreted sort) or other spec term."""
    __slots__ = ("t",)

    def __init__(self, t):
        self.t = t


def is_sym(v):
    return isinstance(v, (SInt, SBool, SBytes, SStr, SFrac, SByteList, SPoint))


def I(v):
    """value -> z3 Int"""
    if isinstance(v, bool):
        return sym.IV(1 if v else 0)
    if isinstance(v, int):
        return sym.IV(v)
    if isinstance(v, SInt):
        return v.t
    if isinstance(v, SBool):
        return z3.If(v.t, sym.IV(1), sym.IV(0))
    raise Unsupported("expected int, got %r" % (v,))


def Bt(v):
    """value -> z3 Bytes term"""
    if isinstance(v, (bytes, bytearray)):
        return sym.lit_bytes(bytes(v))
    if isinstance(v, SBytes):
        return v.t
    raise Unsupported("expected bytes, got %r" % (v,))


def St(v):
    """str value -> Bytes term of its ascii encoding"""
    if isinstance(v, str):
        return sym.lit_bytes(v.encode("ascii"))
    if isinstance(v, SStr):
        return v.t
    raise Unsupported("expected str, got %r" % (v,))


def Bo(v):
    """value -> z3 Bool (no python truthiness conversion)"""
    if isinstance(v, bool):
        return z3.BoolVal(v)
    if isinstance(v, SBool):
        return v.t
    raise Unsupported("expected bool, got %r" % (v,))


def mkint(t):
    c = sym.as_const_int(t)
    if c is not None:
        return c
    return SInt(t)


def mkbool(t):
    if isinstance(t, bool):
        return t
    s = z3.simplify(t)
    if z3.is_true(s):
        return True
    if z3.is_false(s):
        return False
    return SBool(t)


def isintlike(v):
    return (isinstance(v, int)) or isinstance(v, (SInt, SBool))


def isbyteslike(v):
    return isinstance(v, (bytes, SBytes))


def isstrlike(v):
    return isinstance(v, (str, SStr))
