import sys, time
from .repo import Repo, oracle
from .contracts import load_all
from .vc import Verifier
from . import spec_sym


def main(quals):
    repo = Repo()
    reg = load_all()
    v = Verifier(repo, reg, spec_sym)
    if not quals:
        quals = list(reg.contracts)
    for q in quals:
        if reg.get(q).abstract_flag:
            continue
        rep = v.verify(q)
        print("== %s: paths=%d obligations=%d time=%.2fs solver=%.2fs %s" % (q, rep.paths, len(rep.obligations), rep.time, rep.solver_time, "OK" if rep.ok() else "NOT-OK"))
        for o in rep.obligations:
            if (o.kind != "canary" and o.status != "discharged") or (o.kind == "canary" and not rep.canary_status()[o.clause.name]):
                print("   ", o.status, o.name, o.extra, o.model)
            elif "-v" in sys.argv:
                print("   ", o.status, o.name, "%.3f" % o.time, o.core)
        for u in rep.unsupported:
            print("    UNSUPPORTED", u)
        for e in rep.errors:
            print("    ERROR", e)
        if "-p" in sys.argv:
            for po in rep.path_outcomes:
                print("    path", po)
    oracle().close()


if __name__ == "__main__":
    main([a for a in sys.argv[1:] if not a.startswith("-")])
