"""Bounded audit of the T0 library model against real CPython (DESIGN.md 3.1).

Every axiom schema that pyvc/sym.py and pyvc/lib.py instantiate is restated here as a plain Python predicate over
concrete operands and executed under /venv/bin/python (the interpreter that runs the repository) exhaustively on
small operands and on random large ones.  A refuted axiom is a CHECKER FAULT (exit 3), never a verdict.
This is a bounded test OF THE MODEL and is reported as such."""
import json
from .repo import oracle, Oracle

CODE = r'''
import binascii, hashlib, json, random, math, itertools
from cryptography.hazmat.primitives.kdf import hkdf
from cryptography.hazmat.primitives import hashes
rng = random.Random(seed)
failures, counts = [], {}
def chk(name, cond, *witness):
    counts[name] = counts.get(name, 0) + 1
    if not cond and len(failures) < 20:
        failures.append([name, [repr(w)[:80] for w in witness]])
def be(b): return int.from_bytes(b, "big")
small_bytes = [bytes(t) for n in range(0, 3) for t in itertools.product([0, 1, 0x7f, 0x80, 0xff], repeat=n)]
rand_bytes = [bytes(rng.randrange(256) for _ in range(rng.choice([1, 2, 3, 7, 8, 31, 32, 33, 48, 64]))) for _ in range(N)]
ints = list(range(0, 300)) + [2**k + d for k in (8, 15, 16, 31, 32, 63, 64, 127, 255, 256, 1023) for d in (-1, 0, 1)] + [rng.getrandbits(rng.choice([9, 17, 70, 260, 1100])) for _ in range(N)]
for n in ints:
    b = n.bit_length()
    chk("bl-def", (n == 0 and b == 0) or (n > 0 and 2 ** (b - 1) <= n < 2 ** b), n)
    chk("bl-def-neg", (-n).bit_length() == b, n)
    for k in (0, 1, 7, 8, 9, 64):
        chk("bl-bound", (n < 2 ** k) == (b <= k), n, k)
    chk("int-and-1", (n & 1) == n % 2 and ((-n) & 1) == (-n) % 2, n)
    for j in range(0, 10):
        chk("band-lowmask", (n & (2 ** j - 1)) == n % 2 ** j and ((2 ** j - 1) & n) == n % 2 ** j, n, j)
        chk("band-bit", (n & 2 ** j) == ((n // 2 ** j) % 2) * 2 ** j, n, j)
        chk("shift", (n << j) == n * 2 ** j and (n >> j) == n // 2 ** j and ((-n) >> j) == (-n) // 2 ** j, n, j)
    h = "%x" % n
    chk("hd-def", (n == 0 and len(h) == 1) or (n > 0 and 16 ** (len(h) - 1) <= n < 16 ** len(h)), n)
    for w in (1, 2, 3, 4, 8, 64):
        s = ("%0" + str(w) + "x") % n
        if n < 16 ** w:
            if w % 2 == 0:
                chk("hexfmt-fit-even", s.encode("ascii") == binascii.hexlify(n.to_bytes(w // 2, "big")), n, w)
            else:
                ok = len(s) == w
                try:
                    binascii.unhexlify(s); ok = False
                except binascii.Error:
                    pass
                chk("hexfmt-fit-odd", ok, n, w)
        else:
            d = len("%x" % n)
            if d % 2 == 0:
                chk("hexfmt-big-even", s.encode("ascii") == binascii.hexlify(n.to_bytes(d // 2, "big")), n, w)
            else:
                ok = len(s) == d
                try:
                    binascii.unhexlify(s); ok = False
                except binascii.Error:
                    pass
                chk("hexfmt-big-odd", ok, n, w)
        if n > 0:
            sneg = ("%0" + str(w) + "x") % (-n)
            ok = True
            try:
                binascii.unhexlify(sneg); ok = False
            except (binascii.Error, ValueError):
                pass
            chk("hexfmt-neg", ok, -n, w)
    chk("decstr", str(n) == "%d" % n, n)
    for w in (1, 2, 7, 64):
        chk("hexfmt-star-width", ("%0*x" % (w, n)) == (("%0" + str(w) + "x") % n) and ("%0*x" % (w, -n)) == (("%0" + str(w) + "x") % -n), n, w)
    for w in (0, 1, 2, 5, 8):
        chk("zfill-hexfmt", ("%x" % n).zfill(w) == ("%0" + str(max(w, 1)) + "x") % n and ("%x" % -n).zfill(w) == ("%0" + str(max(w, 1)) + "x") % -n, n, w)
    if n < 2 ** 52:
        for den in (8,):
            chk("A-float-ceil", math.ceil(n / den) == -((-n) // den), n)
for b in small_bytes + rand_bytes:
    chk("bytes-wf", 0 <= be(b) < 256 ** len(b), b)
    chk("mkb", len(b) == 0 or be(b).to_bytes(len(b), "big") == b, b)
    hx = binascii.hexlify(b)
    chk("hexl-len", len(hx) == 2 * len(b), b)
    chk("unhex-accepts-ascii-str", binascii.unhexlify(hx.decode("ascii")) == b, b)
    chk("unhex-hexl", binascii.unhexlify(hx) == b and bytes.fromhex(hx.decode("ascii")) == b and b.hex().encode("ascii") == hx, b)
    chk("hexl-ascii", all(0x30 <= c <= 0x39 or 0x61 <= c <= 0x66 for c in hx), b)
    if len(b):
        chk("int-hex", int(hx, 16) == be(b) and int(hx.decode("ascii"), 16) == be(b), b)
        chk("head-tail-val", be(b) == b[0] * 256 ** (len(b) - 1) + be(b[1:]) and 0 <= b[0] <= 255, b)
        chk("list-iter-bytes", list(iter(b)) == [x for x in b] and bytes(list(iter(b))) == b, b)
        chk("from-bytes-of-int-list", int.from_bytes(list(b), "big") == be(b) and int.from_bytes(list(b), "little") == int.from_bytes(b, "little"), b)
        chk("join-map-hex2", "".join(["%02x" % x for x in b]) == hx.decode("ascii"), b)
    else:
        ok = False
        try:
            int(hx, 16)
        except ValueError:
            ok = True
        chk("int-empty", ok)
    chk("rev", b[::-1][::-1] == b and len(b[::-1]) == len(b) and int.from_bytes(b[::-1], "big") == int.from_bytes(b, "little"), b)
    chk("sha-len", len(hashlib.sha256(b).digest()) == 32 and hashlib.sha256(b).hexdigest().encode() == binascii.hexlify(hashlib.sha256(b).digest()), b)
    for k in (0, 1, 2, 32, 40):
        chk("take-drop", b[:k] + b[k:] == b and len(b[:k]) == min(k, len(b)) and b[0:1] == b[:1], b, k)
        chk("slice-general", b[1:k] == b[1:][:max(k - 1, 0)], b, k)
    for c in small_bytes[:12] + rand_bytes[:4]:
        chk("cat-len-val", len(b + c) == len(b) + len(c) and be(b + c) == be(b) * 256 ** len(c) + be(c), b, c)
        chk("bytes-ext", (b == c) == (len(b) == len(c) and be(b) == be(c)), b, c)
        chk("blt", (len(b) != len(c)) or ((b < c) == (be(b) < be(c))), b, c)
        chk("blt-total", (b < c) or (c < b) or b == c, b, c)
        chk("sorted2", sorted([b, c]) == ([c, b] if c < b else [b, c]), b, c)
        chk("join", b"".join([b, c, b]) == b + c + b, b, c)
        chk("minmax-bytes", min(b, c) == (c if c < b else b) and max(b, c) == (c if b < c else b) and min([b, c]) == min(b, c), b, c)
for _ in range(min(N, 60)):
    ikm = bytes(rng.randrange(256) for _ in range(rng.choice([0, 1, 8, 100])))
    info = rng.choice([b"SPAKE2 pw", b"SPAKE2 arbitrary element", b""])
    n = rng.choice([1, 16, 32, 48, 144, 400])
    o1 = hkdf.HKDF(algorithm=hashes.SHA256(), length=n, salt=b"", info=info).derive(ikm)
    o2 = hkdf.HKDF(algorithm=hashes.SHA256(), length=n, salt=b"", info=info).derive(ikm)
    chk("hkdf-len-deterministic", len(o1) == n and o1 == o2, ikm, n)
ok = False
try:
    hkdf.HKDF(algorithm=hashes.SHA256(), length=255 * 32 + 1, salt=b"", info=b"").derive(b"x")
except ValueError:
    ok = True
chk("hkdf-too-long-raises-ValueError", ok)
for _ in range(min(N, 200)):
    x, e, m = rng.getrandbits(70), rng.getrandbits(9), rng.getrandbits(40) + 1
    chk("powmod", pow(x, e, m) == (x ** e) % m and 0 <= pow(x, e, m) < m and pow(x, e, m) == pow(x % m, e, m), x, e, m)
    chk("powmod-small", all(pow(x - 2 ** 69, k, m) == ((x - 2 ** 69) ** k) % m for k in (2, 3, 4)), x, m)
    a, bq = rng.getrandbits(64) - 2 ** 63, rng.getrandbits(20) + 1
    chk("floor-divmod", a == bq * (a // bq) + a % bq and 0 <= a % bq < bq, a, bq)
d = {"k%d" % i: "%02x" % i for i in range(5)}
chk("json-roundtrip", json.loads(json.dumps(d)) == d and json.loads(json.dumps(d, indent=3, sort_keys=True)) == d)
chk("json-ascii", all(0x20 <= c <= 0x7e for c in json.dumps({"a": "é\x00z"}).encode("ascii")))
result = {"failures": failures, "counts": counts}
'''


def run(n=200, seed=0):
    r = oracle().req(op="exec", code=CODE, env={"N": Oracle.enc(n), "seed": Oracle.enc(seed)})
    if not r.get("ok"):
        return {"ok": False, "error": r.get("error"), "tb": r.get("tb")}
    v = Oracle.dec(r["value"])
    return {"ok": not v["failures"], "failures": v["failures"], "instances": sum(v["counts"].values()), "schemas": sorted(v["counts"])}
