import Mathlib.NumberTheory.LegendreSymbol.Basic
import Mathlib.Tactic
set_option autoImplicit false
set_option linter.style.nameCheck false
set_option linter.unusedVariables false
-- GENERATED on every run from /repo/src/spake2/ed25519_basic.py by pyvc/leangen.py; do not edit
def Q : ℕ := 2^255 - 19
def spake_d : ℤ := (-4513249062541557337682894930092624173785641285191125241628941591882900924598840740 : ℤ)
def spake_I : ℤ := (19681161376707505956807079304988542015446066515923890162744021073123829784752 : ℤ)

def spake_inv (x : ℤ) : ℤ :=
  ((x ^ (((Q : ℤ) - (2 : ℤ))).toNat) % (Q : ℤ))

def spake_double_element (X1 Y1 Z1 _u_3 : ℤ) : ℤ × ℤ × ℤ × ℤ :=
  let A := (X1 * X1)
  let B := (Y1 * Y1)
  let C := (((2 : ℤ) * Z1) * Z1)
  let D := ((-A) % (Q : ℤ))
  let J := ((X1 + Y1) % (Q : ℤ))
  let E := ((((J * J) - A) - B) % (Q : ℤ))
  let G := ((D + B) % (Q : ℤ))
  let F := ((G - C) % (Q : ℤ))
  let H := ((D - B) % (Q : ℤ))
  let X3 := ((E * F) % (Q : ℤ))
  let Y3 := ((G * H) % (Q : ℤ))
  let Z3 := ((F * G) % (Q : ℤ))
  let T3 := ((E * H) % (Q : ℤ))
  (X3, Y3, Z3, T3)

def spake_add_elements (X1 Y1 Z1 T1 X2 Y2 Z2 T2 : ℤ) : ℤ × ℤ × ℤ × ℤ :=
  let A := (((Y1 - X1) * (Y2 - X2)) % (Q : ℤ))
  let B := (((Y1 + X1) * (Y2 + X2)) % (Q : ℤ))
  let C := (((T1 * ((2 : ℤ) * spake_d)) * T2) % (Q : ℤ))
  let D := (((Z1 * (2 : ℤ)) * Z2) % (Q : ℤ))
  let E := ((B - A) % (Q : ℤ))
  let F := ((D - C) % (Q : ℤ))
  let G := ((D + C) % (Q : ℤ))
  let H := ((B + A) % (Q : ℤ))
  let X3 := ((E * F) % (Q : ℤ))
  let Y3 := ((G * H) % (Q : ℤ))
  let T3 := ((E * H) % (Q : ℤ))
  let Z3 := ((F * G) % (Q : ℤ))
  (X3, Y3, Z3, T3)

def spake__add_elements_nonunfied (X1 Y1 Z1 T1 X2 Y2 Z2 T2 : ℤ) : ℤ × ℤ × ℤ × ℤ :=
  let A := (((Y1 - X1) * (Y2 + X2)) % (Q : ℤ))
  let B := (((Y1 + X1) * (Y2 - X2)) % (Q : ℤ))
  let C := (((Z1 * (2 : ℤ)) * T2) % (Q : ℤ))
  let D := (((T1 * (2 : ℤ)) * Z2) % (Q : ℤ))
  let E := ((D + C) % (Q : ℤ))
  let F := ((B - A) % (Q : ℤ))
  let G := ((B + A) % (Q : ℤ))
  let H := ((D - C) % (Q : ℤ))
  let X3 := ((E * F) % (Q : ℤ))
  let Y3 := ((G * H) % (Q : ℤ))
  let Z3 := ((F * G) % (Q : ℤ))
  let T3 := ((E * H) % (Q : ℤ))
  (X3, Y3, Z3, T3)

def spake_xform_affine_to_extended (x y : ℤ) : ℤ × ℤ × ℤ × ℤ :=
  ((x % (Q : ℤ)), (y % (Q : ℤ)), (1 : ℤ), ((x * y) % (Q : ℤ)))

def spake_xform_extended_to_affine (x y z _u_3 : ℤ) : ℤ × ℤ :=
  (((x * (spake_inv z)) % (Q : ℤ)), ((y * (spake_inv z)) % (Q : ℤ)))

def spake_is_extended_zero (X Y Z T : ℤ) : Prop :=
  let Y := (Y % (Q : ℤ))
  let Z := (Z % (Q : ℤ))
  ((X = (0 : ℤ)) ∧ (Y = Z) ∧ (Y ≠ (0 : ℤ)))

def spake_isoncurve (P_0 P_1 : ℤ) : Prop :=
  let x := P_0
  let y := P_1
  (((((((-x) * x) + (y * y)) - (1 : ℤ)) - ((((spake_d * x) * x) * y) * y)) % (Q : ℤ)) = (0 : ℤ))

/-! # Part 0: number-theoretic facts about the literals -/

/-- the base field -/
abbrev F : Type := ZMod Q

/-- square-and-multiply, fuel-bounded (structural on the fuel) so the kernel can evaluate it -/
def powMod (m : ℕ) : ℕ → ℕ → ℕ → ℕ
  | 0, _, _ => 1 % m
  | fuel + 1, b, e =>
    if e = 0 then 1 % m
    else
      let h := powMod m fuel (b * b % m) (e / 2)
      if e % 2 = 1 then (b * h) % m else h

theorem powMod_eq (m : ℕ) : ∀ (fuel b e : ℕ), e < 2 ^ fuel → powMod m fuel b e = b ^ e % m := by
  intro fuel
  induction fuel with
  | zero =>
    intro b e he
    have : e = 0 := by simpa using he
    subst this; simp [powMod]
  | succ n ih =>
    intro b e he
    unfold powMod
    by_cases h0 : e = 0
    · subst h0; simp
    · rw [if_neg h0]
      have hlt : e / 2 < 2 ^ n := by
        rw [pow_succ] at he; omega
      have hrec := ih (b * b % m) (e / 2) hlt
      simp only [hrec]
      have hpow : (b * b % m) ^ (e / 2) % m = (b * b) ^ (e / 2) % m := by
        rw [Nat.pow_mod, Nat.mod_mod, ← Nat.pow_mod]
      rw [hpow]
      by_cases h1 : e % 2 = 1
      · rw [if_pos h1]
        have he2 : b ^ e = b * (b * b) ^ (e / 2) := by
          conv_lhs => rw [show e = 2 * (e / 2) + 1 by omega]
          ring
        rw [he2, Nat.mul_mod_mod]
      · rw [if_neg h1]
        have he2 : b ^ e = (b * b) ^ (e / 2) := by
          conv_lhs => rw [show e = 2 * (e / 2) by omega]
          ring
        rw [he2]

theorem Q_pos : 0 < Q := by decide +kernel
theorem Q_gt_two : 2 < Q := by decide +kernel

/-- `spake_d` reduced mod `Q`, as a natural number -/
def dNat : ℕ := (spake_d % (Q : ℤ)).toNat

theorem dNat_cast : ((dNat : ℕ) : ℤ) = spake_d % (Q : ℤ) := by
  unfold dNat
  exact Int.toNat_of_nonneg (Int.emod_nonneg _ (by exact_mod_cast Q_pos.ne'))

theorem d_euler_nat : powMod Q 256 dNat (Q / 2) = Q - 1 := by decide +kernel
theorem Q_half_lt : Q / 2 < 2 ^ 256 := by decide +kernel
theorem I_sq_int : (spake_I ^ 2 + 1) % (Q : ℤ) = 0 := by decide +kernel
theorem d_times_int : (spake_d * 121666 + 121665) % (Q : ℤ) = 0 := by decide +kernel

section FieldFacts
variable [Fact (Nat.Prime Q)]

/-- the curve constant in the field -/
def dF : F := ((spake_d : ℤ) : F)
/-- a square root of −1 -/
def iF : F := ((spake_I : ℤ) : F)

theorem F_two_ne_zero : (2 : F) ≠ 0 := by
  intro h
  have h' : ((2 : ℕ) : F) = 0 := by exact_mod_cast h
  rw [ZMod.natCast_eq_zero_iff] at h'
  exact absurd (Nat.le_of_dvd (by norm_num) h') (not_le.mpr Q_gt_two)

theorem I_sq : ((spake_I : ℤ) : F) ^ 2 = -1 := by
  have h : (((spake_I ^ 2 + 1) % (Q : ℤ) : ℤ) : F) = ((0 : ℤ) : F) := by rw [I_sq_int]
  rw [ZMod.intCast_mod] at h
  push_cast at h
  linear_combination h

theorem d_times : dF * 121666 = -121665 := by
  have h : (((spake_d * 121666 + 121665) % (Q : ℤ) : ℤ) : F) = ((0 : ℤ) : F) := by rw [d_times_int]
  rw [ZMod.intCast_mod] at h
  push_cast at h
  unfold dF
  linear_combination h

theorem dF_eq_dNat : dF = ((dNat : ℕ) : F) := by
  have : (((dNat : ℕ) : ℤ) : F) = dF := by rw [dNat_cast, ZMod.intCast_mod]; rfl
  rw [← this]; push_cast; rfl

theorem d_euler : dF ^ (Q / 2) = -1 := by
  have h := powMod_eq Q 256 dNat (Q / 2) Q_half_lt
  rw [d_euler_nat] at h
  have h2 : (((dNat ^ (Q / 2) % Q : ℕ)) : F) = ((Q - 1 : ℕ) : F) := by rw [← h]
  rw [ZMod.natCast_mod, Nat.cast_pow, ← dF_eq_dNat] at h2
  rw [h2, Nat.cast_sub (Nat.one_le_of_lt Q_gt_two), ZMod.natCast_self]
  simp

theorem d_nonsquare : ∀ r : F, r * r ≠ dF := by
  intro r hr
  have hd0 : dF ≠ 0 := by
    intro h0
    have := d_euler
    rw [h0, zero_pow (by decide +kernel : Q / 2 ≠ 0)] at this
    exact absurd this.symm (by simp)
  have hsq : IsSquare dF := ⟨r, hr.symm⟩
  have h1 := (ZMod.euler_criterion Q hd0).mp hsq
  rw [d_euler] at h1
  apply F_two_ne_zero
  linear_combination -h1

end FieldFacts

/-! # Part 1: algebra of the a = −1 twisted Edwards law over an arbitrary field -/
section Generic
variable {K : Type*} [Field K]

/-- DESIGN.md Appendix A.1: `e = d·x1·x2·y1·y2` cannot satisfy `e² = 1` on curve points. -/
theorem edwards_complete_core (d i x1 y1 x2 y2 : K)
    (h2ne : (2:K) ≠ 0)
    (hi : i*i = -1) (hd : ∀ r : K, r*r ≠ d)
    (h1 : -(x1*x1) + y1*y1 = 1 + d*x1*x1*y1*y1)
    (h2 : -(x2*x2) + y2*y2 = 1 + d*x2*x2*y2*y2)
    (e : K) (he : e = d*x1*x2*y1*y2) (hee : e*e = 1) : False := by
  have hx1 : x1 ≠ 0 := by
    rintro rfl; simp at he; subst he; simp at hee
  have hy1 : y1 ≠ 0 := by
    rintro rfl; simp at he; subst he; simp at hee
  have key (s : K) (hs : s*s = 1) :
      (i*x1 + s*e*y1)^2 = d*x1^2*y1^2*(i*x2 + s*y2)^2 := by
    have h3 : d*x1^2*y1^2*(-(x2*x2) + y2*y2) = -(x1*x1) + y1*y1 := by
      rw [h2, h1]
      have : d*x1^2*y1^2*(d*x2*x2*y2*y2) = e*e := by rw [he]; ring
      linear_combination this + hee
    have hi2 : i^2 = -1 := by rw [pow_two]; exact hi
    have hs2 : s^2 = 1 := by rw [pow_two]; exact hs
    have he2 : e^2 = 1 := by rw [pow_two]; exact hee
    linear_combination (x1^2 - d*x1^2*y1^2*x2^2) * hi2 + (y1^2*e^2 - d*x1^2*y1^2*y2^2) * hs2
      + y1^2 * he2 - h3 + (2*i*x1*s*y1) * he
  have hp := key 1 (by ring)
  have hm := key (-1) (by ring)
  by_cases hz : i*x2 + 1*y2 = 0
  · by_cases hz' : i*x2 + (-1)*y2 = 0
    · have hy2 : y2 = 0 := by
        have : (2:K)*y2 = 0 := by linear_combination hz - hz'
        rcases mul_eq_zero.mp this with h | h
        · exact absurd h h2ne
        · exact h
      subst hy2; simp at he; subst he; simp at hee
    · apply hd ((i*x1 + (-1)*e*y1) / (x1*y1*(i*x2 + (-1)*y2)))
      have hne : x1*y1*(i*x2 + (-1)*y2) ≠ 0 := mul_ne_zero (mul_ne_zero hx1 hy1) hz'
      rw [div_mul_div_comm, div_eq_iff (mul_ne_zero hne hne)]
      linear_combination hm
  · apply hd ((i*x1 + 1*e*y1) / (x1*y1*(i*x2 + 1*y2)))
    have hne : x1*y1*(i*x2 + 1*y2) ≠ 0 := mul_ne_zero (mul_ne_zero hx1 hy1) hz
    rw [div_mul_div_comm, div_eq_iff (mul_ne_zero hne hne)]
    linear_combination hp

/-- The hypotheses on the field constants, bundled. -/
structure CurveConsts (d i : K) : Prop where
  two_ne : (2:K) ≠ 0
  i_sq : i*i = -1
  d_nsq : ∀ r : K, r*r ≠ d

theorem complete_generic {d i : K} (hc : CurveConsts d i) {x1 y1 x2 y2 : K}
    (h1 : -x1^2 + y1^2 = 1 + d*x1^2*y1^2)
    (h2 : -x2^2 + y2^2 = 1 + d*x2^2*y2^2) :
    1 + d*x1*x2*y1*y2 ≠ 0 ∧ 1 - d*x1*x2*y1*y2 ≠ 0 := by
  have h1' : -(x1*x1) + y1*y1 = 1 + d*x1*x1*y1*y1 := by linear_combination h1
  have h2' : -(x2*x2) + y2*y2 = 1 + d*x2*x2*y2*y2 := by linear_combination h2
  constructor
  · intro h
    exact edwards_complete_core d i x1 y1 x2 y2 hc.two_ne hc.i_sq hc.d_nsq h1' h2' _ rfl
      (by linear_combination (d*x1*x2*y1*y2 - 1) * h)
  · intro h
    exact edwards_complete_core d i x1 y1 x2 y2 hc.two_ne hc.i_sq hc.d_nsq h1' h2' _ rfl
      (by linear_combination (-(d*x1*x2*y1*y2) - 1) * h)

/-- closure of the addition law (certificate from sympy, DESIGN.md A.3) -/
theorem closed_generic {d x1 y1 x2 y2 : K}
    (h1 : -x1^2 + y1^2 = 1 + d*x1^2*y1^2)
    (h2 : -x2^2 + y2^2 = 1 + d*x2^2*y2^2)
    (hp : 1 + d*x1*x2*y1*y2 ≠ 0) (hm : 1 - d*x1*x2*y1*y2 ≠ 0) :
    -((x1*y2 + x2*y1) / (1 + d*x1*x2*y1*y2))^2 + ((y1*y2 + x1*x2) / (1 - d*x1*x2*y1*y2))^2
      = 1 + d * ((x1*y2 + x2*y1) / (1 + d*x1*x2*y1*y2))^2
              * ((y1*y2 + x1*x2) / (1 - d*x1*x2*y1*y2))^2 := by
  have hpoly : -(x1*y2 + x2*y1)^2 * (1 - d*x1*x2*y1*y2)^2
        + (y1*y2 + x1*x2)^2 * (1 + d*x1*x2*y1*y2)^2
      = (1 + d*x1*x2*y1*y2)^2 * (1 - d*x1*x2*y1*y2)^2
        + d * (x1*y2 + x2*y1)^2 * (y1*y2 + x1*x2)^2 := by
    linear_combination
      (d^3*x1^2*x2^4*y1^2*y2^4 - d^2*x1^2*x2^4*y2^4 + d^2*x2^4*y1^2*y2^4 - d^2*x2^4*y2^4
        - d*x1^2*x2^4*y2^2 + d*x1^2*x2^2*y2^4 + d*x2^4*y1^2*y2^2 - 2*d*x2^4*y2^4
        - d*x2^2*y1^2*y2^4 - 2*d*x2^2*y2^2 - 2*x2^4*y2^2 + x2^4 + 2*x2^2*y2^4
        - 4*x2^2*y2^2 + y2^4) * h1
      + (d*x1^4*x2^2*y2^2 + 2*d*x1^2*x2^2*y2^2 + d*x2^2*y1^4*y2^2 - 2*d*x2^2*y1^2*y2^2
        + d*x2^2*y2^2 + 2*x1^2*x2^2*y2^2 - x1^2*x2^2 + x1^2*y2^2 - 2*x2^2*y1^2*y2^2
        + x2^2*y1^2 + 2*x2^2*y2^2 - x2^2 - y1^2*y2^2 + y2^2 + 1) * h2
  rw [← sub_eq_zero]
  have key : ∀ a b n1 n2 : K, a ≠ 0 → b ≠ 0 →
      -(n1/a)^2 + (n2/b)^2 - (1 + d*(n1/a)^2*(n2/b)^2)
        = (-n1^2*b^2 + n2^2*a^2 - (a^2*b^2 + d*n1^2*n2^2)) / (a^2*b^2) := by
    intro a b n1 n2 ha hb; field_simp
  rw [key _ _ _ _ hp hm, hpoly, sub_self, zero_div]

/-- projective ↔ affine curve equation -/
theorem proj_iff {d X Y Z : K} (hZ : Z ≠ 0) :
    (-(X/Z)^2 + (Y/Z)^2 = 1 + d*(X/Z)^2*(Y/Z)^2) ↔
    ((-X^2 + Y^2) * Z^2 = Z^4 + d*X^2*Y^2) := by
  constructor
  · intro h
    have : ((-X^2 + Y^2) * Z^2 - (Z^4 + d*X^2*Y^2))
        = Z^4 * (-(X/Z)^2 + (Y/Z)^2 - (1 + d*(X/Z)^2*(Y/Z)^2)) := by field_simp
    rw [← sub_eq_zero, this, h, sub_self, mul_zero]
  · intro h
    have : (-(X/Z)^2 + (Y/Z)^2 - (1 + d*(X/Z)^2*(Y/Z)^2))
        = ((-X^2 + Y^2) * Z^2 - (Z^4 + d*X^2*Y^2)) / Z^4 := by field_simp
    rw [← sub_eq_zero, this, h, sub_self, zero_div]

end Generic
