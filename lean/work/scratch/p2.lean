
section FieldFacts
variable [Fact (Nat.Prime Q)]

/-- the curve constant in the field -/
def dF : F := ((spake_d : ℤ) : F)
/-- a square root of −1 -/
def iF : F := ((spake_I : ℤ) : F)

theorem F_two_ne_zero : (2 : F) ≠ 0 := by
  intro h
  have h' : ((2 : ℕ) : F) = 0 := by exact_mod_cast h
  rw [ZMod.natCast_eq_zero_iff] at h'
  exact absurd (Nat.le_of_dvd (by norm_num) h') (not_le.mpr Q_gt_two)

theorem I_sq : ((spake_I : ℤ) : F) ^ 2 = -1 := by
  have h : (((spake_I ^ 2 + 1) % (Q : ℤ) : ℤ) : F) = ((0 : ℤ) : F) := by rw [I_sq_int]
  rw [ZMod.intCast_mod] at h
  push_cast at h
  linear_combination h

theorem d_times : dF * 121666 = -121665 := by
  have h : (((spake_d * 121666 + 121665) % (Q : ℤ) : ℤ) : F) = ((0 : ℤ) : F) := by rw [d_times_int]
  rw [ZMod.intCast_mod] at h
  push_cast at h
  unfold dF
  linear_combination h

theorem dF_eq_dNat : dF = ((dNat : ℕ) : F) := by
  have : (((dNat : ℕ) : ℤ) : F) = dF := by rw [dNat_cast, ZMod.intCast_mod]; rfl
  rw [← this]; push_cast; rfl

theorem d_euler : dF ^ (Q / 2) = -1 := by
  have h := powMod_eq Q 256 dNat (Q / 2) Q_half_lt
  rw [d_euler_nat] at h
  have h2 : (((dNat ^ (Q / 2) % Q : ℕ)) : F) = ((Q - 1 : ℕ) : F) := by rw [← h]
  rw [ZMod.natCast_mod, Nat.cast_pow, ← dF_eq_dNat] at h2
  rw [h2, Nat.cast_sub (Nat.one_le_of_lt Q_gt_two), ZMod.natCast_self]
  simp

theorem d_nonsquare : ∀ r : F, r * r ≠ dF := by
  intro r hr
  have hd0 : dF ≠ 0 := by
    intro h0
    have := d_euler
    rw [h0, zero_pow (by decide +kernel : Q / 2 ≠ 0)] at this
    exact absurd this.symm (by simp)
  have hsq : IsSquare dF := ⟨r, hr.symm⟩
  have h1 := (ZMod.euler_criterion Q hd0).mp hsq
  rw [d_euler] at h1
  apply F_two_ne_zero
  linear_combination -h1

end FieldFacts
