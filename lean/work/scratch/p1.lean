/-! # Part 0: number-theoretic facts about the literals -/

/-- the base field -/
abbrev F : Type := ZMod Q

/-- square-and-multiply, fuel-bounded (structural on the fuel) so the kernel can evaluate it -/
def powMod (m : ℕ) : ℕ → ℕ → ℕ → ℕ
  | 0, _, _ => 1 % m
  | fuel + 1, b, e =>
    if e = 0 then 1 % m
    else
      let h := powMod m fuel (b * b % m) (e / 2)
      if e % 2 = 1 then (b * h) % m else h

theorem powMod_eq (m : ℕ) : ∀ (fuel b e : ℕ), e < 2 ^ fuel → powMod m fuel b e = b ^ e % m := by
  intro fuel
  induction fuel with
  | zero =>
    intro b e he
    have : e = 0 := by simpa using he
    subst this; simp [powMod]
  | succ n ih =>
    intro b e he
    unfold powMod
    by_cases h0 : e = 0
    · subst h0; simp
    · rw [if_neg h0]
      have hlt : e / 2 < 2 ^ n := by
        rw [pow_succ] at he; omega
      have hrec := ih (b * b % m) (e / 2) hlt
      simp only [hrec]
      have hpow : (b * b % m) ^ (e / 2) % m = (b * b) ^ (e / 2) % m := by
        rw [Nat.pow_mod, Nat.mod_mod, ← Nat.pow_mod]
      rw [hpow]
      by_cases h1 : e % 2 = 1
      · rw [if_pos h1]
        have he2 : b ^ e = b * (b * b) ^ (e / 2) := by
          conv_lhs => rw [show e = 2 * (e / 2) + 1 by omega]
          ring
        rw [he2, Nat.mul_mod_mod]
      · rw [if_neg h1]
        have he2 : b ^ e = (b * b) ^ (e / 2) := by
          conv_lhs => rw [show e = 2 * (e / 2) by omega]
          ring
        rw [he2]

theorem Q_pos : 0 < Q := by decide +kernel
theorem Q_gt_two : 2 < Q := by decide +kernel

/-- `spake_d` reduced mod `Q`, as a natural number -/
def dNat : ℕ := (spake_d % (Q : ℤ)).toNat

theorem dNat_cast : ((dNat : ℕ) : ℤ) = spake_d % (Q : ℤ) := by
  unfold dNat
  exact Int.toNat_of_nonneg (Int.emod_nonneg _ (by exact_mod_cast Q_pos.ne'))

theorem d_euler_nat : powMod Q 256 dNat (Q / 2) = Q - 1 := by decide +kernel
theorem Q_half_lt : Q / 2 < 2 ^ 256 := by decide +kernel
theorem I_sq_int : (spake_I ^ 2 + 1) % (Q : ℤ) = 0 := by decide +kernel
theorem d_times_int : (spake_d * 121666 + 121665) % (Q : ℤ) = 0 := by decide +kernel
