import Mathlib.Tactic
def Q : ℕ := 2^255 - 19
def f (X Y Z T : ℤ) : Prop :=
  let Y := (Y % (Q : ℤ))
  let Z := (Z % (Q : ℤ))
  ((Y = Z) ∧ (X = (0 : ℤ)) ∧ (Y ≠ (0 : ℤ)))
example (X Y Z T : ℤ) : f X Y Z T ↔ (X = 0 ∧ Y % (Q:ℤ) = Z % (Q:ℤ) ∧ Y % (Q:ℤ) ≠ 0) := by
  simp only [f]
  generalize Y % (Q:ℤ) = a; generalize Z % (Q:ℤ) = b
  trace_state
  constructor
  · rintro ⟨h1, h2, h3⟩; exact ⟨h2, h1, h3⟩
  · rintro ⟨h1, h2, h3⟩; exact ⟨h2, h1, h3⟩
example (a b X : ℤ) : a = b ∧ X = 0 ∧ a ≠ 0 ↔ X = 0 ∧ a = b ∧ a ≠ 0 := by
  tauto
