
section Main2
variable [Fact (Nat.Prime Q)]

theorem pt_oncurve {X Y Z : ℤ} (h : Valid3 X Y Z) : OnCurve (pt X Y Z) := by
  obtain ⟨-, -, -, -, -, -, hZ, hC⟩ := h
  simp only [OnCurve, pt]
  exact (proj_iff hZ).mpr hC

theorem Valid.toValid3 {X Y Z T : ℤ} (h : Valid X Y Z T) : Valid3 X Y Z := by
  obtain ⟨a, b, c, d, e, f, -, -, hZ, -, hC⟩ := h
  exact ⟨a, b, c, d, e, f, hZ, hC⟩

theorem enc_injective_core {p q : F × F} (hp : OnCurve p) (hq : OnCurve q) (hy : p.2 = q.2) :
    p.1 = q.1 ∨ p.1 = -q.1 := by
  simp only [OnCurve] at hp hq
  rw [hy] at hp
  have hfac : (p.1 - q.1) * (p.1 + q.1) * (-1 - dF * q.2^2) = 0 := by
    linear_combination hp - hq
  rcases mul_eq_zero.mp hfac with h | h
  · rcases mul_eq_zero.mp h with h | h
    · left; exact sub_eq_zero.mp h
    · right; exact eq_neg_of_add_eq_zero_left h
  · exfalso
    have hy0 : q.2 ≠ 0 := by
      intro h0; rw [h0] at h; simp at h
    apply d_nonsquare (iF / q.2)
    have hi : iF * iF = -1 := curveConsts.i_sq
    rw [div_mul_div_comm, hi, div_eq_iff (mul_ne_zero hy0 hy0)]
    linear_combination h

theorem xform_affine_correct {x y : ℤ} (h : spake_isoncurve x y) :
    let r := spake_xform_affine_to_extended x y
    Valid r.1 r.2.1 r.2.2.1 r.2.2.2 ∧ pt r.1 r.2.1 r.2.2.1 = ((x:F), (y:F)) := by
  intro r
  have hcurve : -(x:F)*x + y*y - 1 - dF*x*x*y*y = 0 := by
    simp only [spake_isoncurve] at h
    have h' := congrArg (Int.cast : ℤ → F) h
    rw [ZMod.intCast_mod] at h'
    simp only [dF]
    push_cast at h'
    linear_combination h'
  have hX : ((r.1 : ℤ) : F) = x := by
    simp only [r, spake_xform_affine_to_extended]; push_cast [ZMod.intCast_mod]; ring
  have hY : ((r.2.1 : ℤ) : F) = y := by
    simp only [r, spake_xform_affine_to_extended]; push_cast [ZMod.intCast_mod]; ring
  have hZ : ((r.2.2.1 : ℤ) : F) = 1 := by
    simp only [r, spake_xform_affine_to_extended]; push_cast [ZMod.intCast_mod]; ring
  have hT : ((r.2.2.2 : ℤ) : F) = x*y := by
    simp only [r, spake_xform_affine_to_extended]; push_cast [ZMod.intCast_mod]; ring
  refine ⟨⟨?_, ?_, ?_, ?_, ?_, ?_, ?_, ?_, ?_, ?_, ?_⟩, ?_⟩
  · simp only [r, spake_xform_affine_to_extended]; exact Int.emod_nonneg _ Q_ne_zero_int
  · simp only [r, spake_xform_affine_to_extended]; exact Int.emod_lt_of_pos _ Q_pos_int
  · simp only [r, spake_xform_affine_to_extended]; exact Int.emod_nonneg _ Q_ne_zero_int
  · simp only [r, spake_xform_affine_to_extended]; exact Int.emod_lt_of_pos _ Q_pos_int
  · simp only [r, spake_xform_affine_to_extended]; exact zero_le_one
  · simp only [r, spake_xform_affine_to_extended]; exact Q_gt_one_int
  · simp only [r, spake_xform_affine_to_extended]; exact Int.emod_nonneg _ Q_ne_zero_int
  · simp only [r, spake_xform_affine_to_extended]; exact Int.emod_lt_of_pos _ Q_pos_int
  · rw [hZ]; exact one_ne_zero
  · rw [hT, hZ, hX, hY]; ring
  · rw [hZ, hX, hY]; linear_combination hcurve
  · simp only [pt]; rw [hX, hY, hZ, div_one, div_one]

theorem int_eq_zero_of_cast {X : ℤ} (h0 : 0 ≤ X) (h1 : X < Q) (h : (X:F) = 0) : X = 0 := by
  rw [ZMod.intCast_zmod_eq_zero_iff_dvd] at h
  exact Int.eq_zero_of_dvd_of_nonneg_of_lt h0 h1 h

theorem is_extended_zero_correct {X Y Z T : ℤ} (h : Valid X Y Z T) :
    (spake_is_extended_zero X Y Z T ↔ pt X Y Z = eO) := by
  obtain ⟨hX0, hX1, hY0, hY1, hZ0, hZ1, -, -, hZ, -, -⟩ := h
  simp only [spake_is_extended_zero, pt, eO, Prod.mk.injEq]
  constructor
  · rintro ⟨hx, hyz, -⟩
    have hyz' : (Y:F) = Z := by
      have := congrArg (Int.cast : ℤ → F) hyz
      simpa only [ZMod.intCast_mod] using this
    refine ⟨?_, ?_⟩
    · rw [hx]; simp
    · rw [hyz']; exact div_self hZ
  · rintro ⟨hx, hy⟩
    have hx' : (X:F) = 0 := by
      rcases div_eq_zero_iff.mp hx with h | h
      · exact h
      · exact absurd h hZ
    have hy' : (Y:F) = Z := by
      rw [div_eq_one_iff_eq hZ] at hy; exact hy
    have hmod : Y % (Q:ℤ) = Z % (Q:ℤ) := (ZMod.intCast_eq_intCast_iff Y Z Q).mp hy'
    refine ⟨int_eq_zero_of_cast hX0 hX1 hx', hmod, ?_⟩
    intro h0
    apply hZ
    rw [← hy', ← ZMod.intCast_mod Y Q, h0]; simp

theorem spake_inv_cast {z : ℤ} (hz : (z:F) ≠ 0) : ((spake_inv z : ℤ) : F) = (z:F)⁻¹ := by
  have hn : ((Q:ℤ) - 2).toNat = Q - 2 := by
    have := Q_gt_two; omega
  simp only [spake_inv]
  rw [ZMod.intCast_mod, hn]
  push_cast
  have h1 : (z:F)^(Q-1) = 1 := ZMod.pow_card_sub_one_eq_one hz
  have h2 : (z:F)^(Q-2) * z = 1 := by
    rw [← pow_succ, show Q - 2 + 1 = Q - 1 by have := Q_gt_two; omega]; exact h1
  exact eq_inv_of_mul_eq_one_left h2

theorem xform_extended_correct {X Y Z T : ℤ} (h : Valid X Y Z T) :
    let r := spake_xform_extended_to_affine X Y Z T
    0 ≤ r.1 ∧ r.1 < Q ∧ 0 ≤ r.2 ∧ r.2 < Q ∧ ((r.1:F), (r.2:F)) = pt X Y Z := by
  intro r
  obtain ⟨-, -, -, -, -, -, -, -, hZ, -, -⟩ := h
  have hX : ((r.1 : ℤ) : F) = X * (Z:F)⁻¹ := by
    simp only [r, spake_xform_extended_to_affine]
    push_cast [ZMod.intCast_mod]; rw [spake_inv_cast hZ]
  have hY : ((r.2 : ℤ) : F) = Y * (Z:F)⁻¹ := by
    simp only [r, spake_xform_extended_to_affine]
    push_cast [ZMod.intCast_mod]; rw [spake_inv_cast hZ]
  refine ⟨?_, ?_, ?_, ?_, ?_⟩
  · simp only [r, spake_xform_extended_to_affine]; exact Int.emod_nonneg _ Q_ne_zero_int
  · simp only [r, spake_xform_extended_to_affine]; exact Int.emod_lt_of_pos _ Q_pos_int
  · simp only [r, spake_xform_extended_to_affine]; exact Int.emod_nonneg _ Q_ne_zero_int
  · simp only [r, spake_xform_extended_to_affine]; exact Int.emod_lt_of_pos _ Q_pos_int
  · simp only [pt]; rw [hX, hY, div_eq_mul_inv, div_eq_mul_inv]

end Main2
