
section Generic2
variable {K : Type*} [Field K]

/-- unified extended addition (add-2008-hwcd-3), result polynomials -/
theorem add_generic {d i : K} (hc : CurveConsts d i)
    {X1 Y1 Z1 T1 X2 Y2 Z2 T2 X3 Y3 Z3 T3 : K}
    (hZ1 : Z1 ≠ 0) (hT1 : T1*Z1 = X1*Y1) (hC1 : (-X1^2+Y1^2)*Z1^2 = Z1^4 + d*X1^2*Y1^2)
    (hZ2 : Z2 ≠ 0) (hT2 : T2*Z2 = X2*Y2) (hC2 : (-X2^2+Y2^2)*Z2^2 = Z2^4 + d*X2^2*Y2^2)
    (hX3 : X3 = (2*(X1*Y2+X2*Y1)) * (2*Z1*Z2 - 2*d*T1*T2))
    (hY3 : Y3 = (2*Z1*Z2 + 2*d*T1*T2) * (2*(Y1*Y2+X1*X2)))
    (hZ3 : Z3 = (2*Z1*Z2 - 2*d*T1*T2) * (2*Z1*Z2 + 2*d*T1*T2))
    (hT3 : T3 = (2*(X1*Y2+X2*Y1)) * (2*(Y1*Y2+X1*X2))) :
    Z3 ≠ 0 ∧ T3*Z3 = X3*Y3 ∧ ((-X3^2+Y3^2)*Z3^2 = Z3^4 + d*X3^2*Y3^2) ∧
    X3/Z3 = ((X1/Z1)*(Y2/Z2) + (X2/Z2)*(Y1/Z1)) / (1 + d*(X1/Z1)*(X2/Z2)*(Y1/Z1)*(Y2/Z2)) ∧
    Y3/Z3 = ((Y1/Z1)*(Y2/Z2) + (X1/Z1)*(X2/Z2)) / (1 - d*(X1/Z1)*(X2/Z2)*(Y1/Z1)*(Y2/Z2)) := by
  have hT1' : T1 = X1*Y1/Z1 := eq_div_of_mul_eq hZ1 hT1
  have hT2' : T2 = X2*Y2/Z2 := eq_div_of_mul_eq hZ2 hT2
  have hA1 := (proj_iff (d := d) hZ1).mpr hC1
  have hA2 := (proj_iff (d := d) hZ2).mpr hC2
  obtain ⟨hp, hm⟩ := complete_generic hc hA1 hA2
  have h2 := hc.two_ne
  set x1 := X1/Z1 with hx1
  set y1 := Y1/Z1 with hy1
  set x2 := X2/Z2 with hx2
  set y2 := Y2/Z2 with hy2
  set e := d*x1*x2*y1*y2 with he
  have hc0 : 2*Z1*Z2 ≠ 0 := mul_ne_zero (mul_ne_zero h2 hZ1) hZ2
  have hF : 2*Z1*Z2 - 2*d*T1*T2 = 2*Z1*Z2*(1 - e) := by
    rw [hT1', hT2', he, hx1, hx2, hy1, hy2]; field_simp
  have hG : 2*Z1*Z2 + 2*d*T1*T2 = 2*Z1*Z2*(1 + e) := by
    rw [hT1', hT2', he, hx1, hx2, hy1, hy2]; field_simp
  have hE : 2*(X1*Y2+X2*Y1) = 2*Z1*Z2*(x1*y2 + x2*y1) := by
    rw [hx1, hx2, hy1, hy2]; field_simp
  have hH : 2*(Y1*Y2+X1*X2) = 2*Z1*Z2*(y1*y2 + x1*x2) := by
    rw [hx1, hx2, hy1, hy2]; field_simp
  rw [hF, hE] at hX3
  rw [hG, hH] at hY3
  rw [hF, hG] at hZ3
  have hZ3ne : Z3 ≠ 0 := by
    rw [hZ3]; exact mul_ne_zero (mul_ne_zero hc0 hm) (mul_ne_zero hc0 hp)
  have hxq : X3/Z3 = (x1*y2 + x2*y1) / (1 + e) := by
    rw [div_eq_div_iff hZ3ne hp, hX3, hZ3]; ring
  have hyq : Y3/Z3 = (y1*y2 + x1*x2) / (1 - e) := by
    rw [div_eq_div_iff hZ3ne hm, hY3, hZ3]; ring
  refine ⟨hZ3ne, ?_, ?_, hxq, hyq⟩
  · rw [hT3, hZ3, hX3, hY3, hE, hH]; ring
  · rw [← proj_iff hZ3ne, hxq, hyq]
    exact closed_generic hA1 hA2 hp hm

end Generic2
