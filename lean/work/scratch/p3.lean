
/-! # Part 1: algebra of the a = −1 twisted Edwards law over an arbitrary field -/
section Generic
variable {K : Type*} [Field K]

/-- DESIGN.md Appendix A.1: `e = d·x1·x2·y1·y2` cannot satisfy `e² = 1` on curve points. -/
theorem edwards_complete_core (d i x1 y1 x2 y2 : K)
    (h2ne : (2:K) ≠ 0)
    (hi : i*i = -1) (hd : ∀ r : K, r*r ≠ d)
    (h1 : -(x1*x1) + y1*y1 = 1 + d*x1*x1*y1*y1)
    (h2 : -(x2*x2) + y2*y2 = 1 + d*x2*x2*y2*y2)
    (e : K) (he : e = d*x1*x2*y1*y2) (hee : e*e = 1) : False := by
  have hx1 : x1 ≠ 0 := by
    rintro rfl; simp at he; subst he; simp at hee
  have hy1 : y1 ≠ 0 := by
    rintro rfl; simp at he; subst he; simp at hee
  have key (s : K) (hs : s*s = 1) :
      (i*x1 + s*e*y1)^2 = d*x1^2*y1^2*(i*x2 + s*y2)^2 := by
    have h3 : d*x1^2*y1^2*(-(x2*x2) + y2*y2) = -(x1*x1) + y1*y1 := by
      rw [h2, h1]
      have : d*x1^2*y1^2*(d*x2*x2*y2*y2) = e*e := by rw [he]; ring
      linear_combination this + hee
    have hi2 : i^2 = -1 := by rw [pow_two]; exact hi
    have hs2 : s^2 = 1 := by rw [pow_two]; exact hs
    have he2 : e^2 = 1 := by rw [pow_two]; exact hee
    linear_combination (x1^2 - d*x1^2*y1^2*x2^2) * hi2 + (y1^2*e^2 - d*x1^2*y1^2*y2^2) * hs2
      + y1^2 * he2 - h3 + (2*i*x1*s*y1) * he
  have hp := key 1 (by ring)
  have hm := key (-1) (by ring)
  by_cases hz : i*x2 + 1*y2 = 0
  · by_cases hz' : i*x2 + (-1)*y2 = 0
    · have hy2 : y2 = 0 := by
        have : (2:K)*y2 = 0 := by linear_combination hz - hz'
        rcases mul_eq_zero.mp this with h | h
        · exact absurd h h2ne
        · exact h
      subst hy2; simp at he; subst he; simp at hee
    · apply hd ((i*x1 + (-1)*e*y1) / (x1*y1*(i*x2 + (-1)*y2)))
      have hne : x1*y1*(i*x2 + (-1)*y2) ≠ 0 := mul_ne_zero (mul_ne_zero hx1 hy1) hz'
      rw [div_mul_div_comm, div_eq_iff (mul_ne_zero hne hne)]
      linear_combination hm
  · apply hd ((i*x1 + 1*e*y1) / (x1*y1*(i*x2 + 1*y2)))
    have hne : x1*y1*(i*x2 + 1*y2) ≠ 0 := mul_ne_zero (mul_ne_zero hx1 hy1) hz
    rw [div_mul_div_comm, div_eq_iff (mul_ne_zero hne hne)]
    linear_combination hp

/-- The hypotheses on the field constants, bundled. -/
structure CurveConsts (d i : K) : Prop where
  two_ne : (2:K) ≠ 0
  i_sq : i*i = -1
  d_nsq : ∀ r : K, r*r ≠ d

theorem complete_generic {d i : K} (hc : CurveConsts d i) {x1 y1 x2 y2 : K}
    (h1 : -x1^2 + y1^2 = 1 + d*x1^2*y1^2)
    (h2 : -x2^2 + y2^2 = 1 + d*x2^2*y2^2) :
    1 + d*x1*x2*y1*y2 ≠ 0 ∧ 1 - d*x1*x2*y1*y2 ≠ 0 := by
  have h1' : -(x1*x1) + y1*y1 = 1 + d*x1*x1*y1*y1 := by linear_combination h1
  have h2' : -(x2*x2) + y2*y2 = 1 + d*x2*x2*y2*y2 := by linear_combination h2
  constructor
  · intro h
    exact edwards_complete_core d i x1 y1 x2 y2 hc.two_ne hc.i_sq hc.d_nsq h1' h2' _ rfl
      (by linear_combination (d*x1*x2*y1*y2 - 1) * h)
  · intro h
    exact edwards_complete_core d i x1 y1 x2 y2 hc.two_ne hc.i_sq hc.d_nsq h1' h2' _ rfl
      (by linear_combination (-(d*x1*x2*y1*y2) - 1) * h)

/-- closure of the addition law (certificate from sympy, DESIGN.md A.3) -/
theorem closed_generic {d x1 y1 x2 y2 : K}
    (h1 : -x1^2 + y1^2 = 1 + d*x1^2*y1^2)
    (h2 : -x2^2 + y2^2 = 1 + d*x2^2*y2^2)
    (hp : 1 + d*x1*x2*y1*y2 ≠ 0) (hm : 1 - d*x1*x2*y1*y2 ≠ 0) :
    -((x1*y2 + x2*y1) / (1 + d*x1*x2*y1*y2))^2 + ((y1*y2 + x1*x2) / (1 - d*x1*x2*y1*y2))^2
      = 1 + d * ((x1*y2 + x2*y1) / (1 + d*x1*x2*y1*y2))^2
              * ((y1*y2 + x1*x2) / (1 - d*x1*x2*y1*y2))^2 := by
  have hpoly : -(x1*y2 + x2*y1)^2 * (1 - d*x1*x2*y1*y2)^2
        + (y1*y2 + x1*x2)^2 * (1 + d*x1*x2*y1*y2)^2
      = (1 + d*x1*x2*y1*y2)^2 * (1 - d*x1*x2*y1*y2)^2
        + d * (x1*y2 + x2*y1)^2 * (y1*y2 + x1*x2)^2 := by
    linear_combination
      (d^3*x1^2*x2^4*y1^2*y2^4 - d^2*x1^2*x2^4*y2^4 + d^2*x2^4*y1^2*y2^4 - d^2*x2^4*y2^4
        - d*x1^2*x2^4*y2^2 + d*x1^2*x2^2*y2^4 + d*x2^4*y1^2*y2^2 - 2*d*x2^4*y2^4
        - d*x2^2*y1^2*y2^4 - 2*d*x2^2*y2^2 - 2*x2^4*y2^2 + x2^4 + 2*x2^2*y2^4
        - 4*x2^2*y2^2 + y2^4) * h1
      + (d*x1^4*x2^2*y2^2 + 2*d*x1^2*x2^2*y2^2 + d*x2^2*y1^4*y2^2 - 2*d*x2^2*y1^2*y2^2
        + d*x2^2*y2^2 + 2*x1^2*x2^2*y2^2 - x1^2*x2^2 + x1^2*y2^2 - 2*x2^2*y1^2*y2^2
        + x2^2*y1^2 + 2*x2^2*y2^2 - x2^2 - y1^2*y2^2 + y2^2 + 1) * h2
  rw [← sub_eq_zero]
  have key : ∀ a b n1 n2 : K, a ≠ 0 → b ≠ 0 →
      -(n1/a)^2 + (n2/b)^2 - (1 + d*(n1/a)^2*(n2/b)^2)
        = (-n1^2*b^2 + n2^2*a^2 - (a^2*b^2 + d*n1^2*n2^2)) / (a^2*b^2) := by
    intro a b n1 n2 ha hb; field_simp
  rw [key _ _ _ _ hp hm, hpoly, sub_self, zero_div]

/-- projective ↔ affine curve equation -/
theorem proj_iff {d X Y Z : K} (hZ : Z ≠ 0) :
    (-(X/Z)^2 + (Y/Z)^2 = 1 + d*(X/Z)^2*(Y/Z)^2) ↔
    ((-X^2 + Y^2) * Z^2 = Z^4 + d*X^2*Y^2) := by
  constructor
  · intro h
    have : ((-X^2 + Y^2) * Z^2 - (Z^4 + d*X^2*Y^2))
        = Z^4 * (-(X/Z)^2 + (Y/Z)^2 - (1 + d*(X/Z)^2*(Y/Z)^2)) := by field_simp
    rw [← sub_eq_zero, this, h, sub_self, mul_zero]
  · intro h
    have : (-(X/Z)^2 + (Y/Z)^2 - (1 + d*(X/Z)^2*(Y/Z)^2))
        = ((-X^2 + Y^2) * Z^2 - (Z^4 + d*X^2*Y^2)) / Z^4 := by field_simp
    rw [← sub_eq_zero, this, h, sub_self, zero_div]

end Generic
