
/-! # Part 2: the curve over `F = ZMod Q` and the int-level mirrors -/
theorem Q_ne_zero_int : (Q : ℤ) ≠ 0 := by exact_mod_cast Q_pos.ne'
theorem Q_pos_int : 0 < (Q : ℤ) := by exact_mod_cast Q_pos
theorem Q_gt_one_int : 1 < (Q : ℤ) := by exact_mod_cast (lt_trans (by norm_num) Q_gt_two : 1 < Q)

section Main
variable [Fact (Nat.Prime Q)]

def Valid (X Y Z T : ℤ) : Prop :=
  0 ≤ X ∧ X < Q ∧ 0 ≤ Y ∧ Y < Q ∧ 0 ≤ Z ∧ Z < Q ∧ 0 ≤ T ∧ T < Q ∧
  ((Z:F) ≠ 0) ∧ ((T:F) * (Z:F) = (X:F) * (Y:F)) ∧
  ((-(X:F)^2 + (Y:F)^2) * (Z:F)^2 = (Z:F)^4 + dF * (X:F)^2 * (Y:F)^2)

def Valid3 (X Y Z : ℤ) : Prop :=
  0 ≤ X ∧ X < Q ∧ 0 ≤ Y ∧ Y < Q ∧ 0 ≤ Z ∧ Z < Q ∧
  ((Z:F) ≠ 0) ∧
  ((-(X:F)^2 + (Y:F)^2) * (Z:F)^2 = (Z:F)^4 + dF * (X:F)^2 * (Y:F)^2)

def pt (X Y Z : ℤ) : F × F := ((X:F) / (Z:F), (Y:F) / (Z:F))
def OnCurve (p : F × F) : Prop := -p.1^2 + p.2^2 = 1 + dF * p.1^2 * p.2^2
def eadd (p q : F × F) : F × F :=
  ((p.1*q.2 + q.1*p.2) / (1 + dF*p.1*q.1*p.2*q.2), (p.2*q.2 + p.1*q.1) / (1 - dF*p.1*q.1*p.2*q.2))
def eneg (p : F × F) : F × F := (-p.1, p.2)
def eO : F × F := (0, 1)

theorem curveConsts : CurveConsts dF iF :=
  ⟨F_two_ne_zero, by have := I_sq; unfold iF; linear_combination this, d_nonsquare⟩

theorem edwards_complete {p q : F × F} (hp : OnCurve p) (hq : OnCurve q) :
    1 + dF*p.1*q.1*p.2*q.2 ≠ 0 ∧ 1 - dF*p.1*q.1*p.2*q.2 ≠ 0 :=
  complete_generic curveConsts hp hq

theorem eadd_closed {p q : F × F} (hp : OnCurve p) (hq : OnCurve q) : OnCurve (eadd p q) := by
  obtain ⟨h1, h2⟩ := edwards_complete hp hq
  have := closed_generic hp hq h1 h2
  simpa only [OnCurve, eadd] using this

theorem add_elements_correct {X1 Y1 Z1 T1 X2 Y2 Z2 T2 : ℤ}
    (h1 : Valid X1 Y1 Z1 T1) (h2 : Valid X2 Y2 Z2 T2) :
    let r := spake_add_elements X1 Y1 Z1 T1 X2 Y2 Z2 T2
    Valid r.1 r.2.1 r.2.2.1 r.2.2.2 ∧
      pt r.1 r.2.1 r.2.2.1 = eadd (pt X1 Y1 Z1) (pt X2 Y2 Z2) := by
  intro r
  obtain ⟨-, -, -, -, -, -, -, -, hZ1, hT1, hC1⟩ := h1
  obtain ⟨-, -, -, -, -, -, -, -, hZ2, hT2, hC2⟩ := h2
  have hX : ((r.1 : ℤ) : F)
      = (2*((X1:F)*Y2 + X2*Y1)) * (2*Z1*Z2 - 2*dF*T1*T2) := by
    simp only [r, spake_add_elements, dF]; push_cast [ZMod.intCast_mod]; ring
  have hY : ((r.2.1 : ℤ) : F)
      = (2*(Z1:F)*Z2 + 2*dF*T1*T2) * (2*((Y1:F)*Y2 + X1*X2)) := by
    simp only [r, spake_add_elements, dF]; push_cast [ZMod.intCast_mod]; ring
  have hZ : ((r.2.2.1 : ℤ) : F)
      = (2*(Z1:F)*Z2 - 2*dF*T1*T2) * (2*(Z1:F)*Z2 + 2*dF*T1*T2) := by
    simp only [r, spake_add_elements, dF]; push_cast [ZMod.intCast_mod]; ring
  have hT : ((r.2.2.2 : ℤ) : F)
      = (2*((X1:F)*Y2 + X2*Y1)) * (2*((Y1:F)*Y2 + X1*X2)) := by
    simp only [r, spake_add_elements, dF]; push_cast [ZMod.intCast_mod]; ring
  obtain ⟨hz, ht, hc, hx, hy⟩ :=
    add_generic curveConsts hZ1 hT1 hC1 hZ2 hT2 hC2 hX hY hZ hT
  refine ⟨⟨?_, ?_, ?_, ?_, ?_, ?_, ?_, ?_, hz, ht, hc⟩, ?_⟩
  · simp only [r, spake_add_elements]; exact Int.emod_nonneg _ Q_ne_zero_int
  · simp only [r, spake_add_elements]; exact Int.emod_lt_of_pos _ Q_pos_int
  · simp only [r, spake_add_elements]; exact Int.emod_nonneg _ Q_ne_zero_int
  · simp only [r, spake_add_elements]; exact Int.emod_lt_of_pos _ Q_pos_int
  · simp only [r, spake_add_elements]; exact Int.emod_nonneg _ Q_ne_zero_int
  · simp only [r, spake_add_elements]; exact Int.emod_lt_of_pos _ Q_pos_int
  · simp only [r, spake_add_elements]; exact Int.emod_nonneg _ Q_ne_zero_int
  · simp only [r, spake_add_elements]; exact Int.emod_lt_of_pos _ Q_pos_int
  · simp only [pt, eadd]; rw [hx, hy]

theorem double_element_correct {X1 Y1 Z1 : ℤ} (h1 : Valid3 X1 Y1 Z1) :
    ∀ T1 : ℤ, let r := spake_double_element X1 Y1 Z1 T1
    Valid r.1 r.2.1 r.2.2.1 r.2.2.2 ∧
      pt r.1 r.2.1 r.2.2.1 = eadd (pt X1 Y1 Z1) (pt X1 Y1 Z1) := by
  intro T1 r
  obtain ⟨-, -, -, -, -, -, hZ1, hC1⟩ := h1
  have hX : ((r.1 : ℤ) : F) = (2*(X1:F)*Y1) * ((Y1:F)^2 - X1^2 - 2*Z1^2) := by
    simp only [r, spake_double_element, dF]; push_cast [ZMod.intCast_mod]; ring
  have hY : ((r.2.1 : ℤ) : F) = ((Y1:F)^2 - X1^2) * (-(X1:F)^2 - Y1^2) := by
    simp only [r, spake_double_element, dF]; push_cast [ZMod.intCast_mod]; ring
  have hZ : ((r.2.2.1 : ℤ) : F) = ((Y1:F)^2 - X1^2 - 2*Z1^2) * ((Y1:F)^2 - X1^2) := by
    simp only [r, spake_double_element, dF]; push_cast [ZMod.intCast_mod]; ring
  have hT : ((r.2.2.2 : ℤ) : F) = (2*(X1:F)*Y1) * (-(X1:F)^2 - Y1^2) := by
    simp only [r, spake_double_element, dF]; push_cast [ZMod.intCast_mod]; ring
  obtain ⟨hz, ht, hc, hx, hy⟩ := double_generic curveConsts hZ1 hC1 hX hY hZ hT
  refine ⟨⟨?_, ?_, ?_, ?_, ?_, ?_, ?_, ?_, hz, ht, hc⟩, ?_⟩
  · simp only [r, spake_double_element]; exact Int.emod_nonneg _ Q_ne_zero_int
  · simp only [r, spake_double_element]; exact Int.emod_lt_of_pos _ Q_pos_int
  · simp only [r, spake_double_element]; exact Int.emod_nonneg _ Q_ne_zero_int
  · simp only [r, spake_double_element]; exact Int.emod_lt_of_pos _ Q_pos_int
  · simp only [r, spake_double_element]; exact Int.emod_nonneg _ Q_ne_zero_int
  · simp only [r, spake_double_element]; exact Int.emod_lt_of_pos _ Q_pos_int
  · simp only [r, spake_double_element]; exact Int.emod_nonneg _ Q_ne_zero_int
  · simp only [r, spake_double_element]; exact Int.emod_lt_of_pos _ Q_pos_int
  · simp only [pt, eadd]; rw [hx, hy]

theorem nonunified_correct {X1 Y1 Z1 T1 X2 Y2 Z2 T2 : ℤ}
    (h1 : Valid X1 Y1 Z1 T1) (h2 : Valid X2 Y2 Z2 T2)
    (hne1 : (eadd (pt X1 Y1 Z1) (eneg (pt X2 Y2 Z2))).1 ≠ 0)
    (hne2 : (eadd (pt X1 Y1 Z1) (eneg (pt X2 Y2 Z2))).2 ≠ 0) :
    let r := spake__add_elements_nonunfied X1 Y1 Z1 T1 X2 Y2 Z2 T2
    Valid r.1 r.2.1 r.2.2.1 r.2.2.2 ∧
      pt r.1 r.2.1 r.2.2.1 = eadd (pt X1 Y1 Z1) (pt X2 Y2 Z2) := by
  intro r
  obtain ⟨-, -, -, -, -, -, -, -, hZ1, hT1, hC1⟩ := h1
  obtain ⟨-, -, -, -, -, -, -, -, hZ2, hT2, hC2⟩ := h2
  simp only [pt, eadd, eneg] at hne1 hne2
  have hn1 := (div_ne_zero_iff.mp hne1).1
  have hn2 := (div_ne_zero_iff.mp hne2).1
  have hX : ((r.1 : ℤ) : F)
      = (2*((T1:F)*Z2 + Z1*T2)) * (2*((X1:F)*Y2 - Y1*X2)) := by
    simp only [r, spake__add_elements_nonunfied, dF]; push_cast [ZMod.intCast_mod]; ring
  have hY : ((r.2.1 : ℤ) : F)
      = (2*((Y1:F)*Y2 - X1*X2)) * (2*((T1:F)*Z2 - Z1*T2)) := by
    simp only [r, spake__add_elements_nonunfied, dF]; push_cast [ZMod.intCast_mod]; ring
  have hZ : ((r.2.2.1 : ℤ) : F)
      = (2*((X1:F)*Y2 - Y1*X2)) * (2*((Y1:F)*Y2 - X1*X2)) := by
    simp only [r, spake__add_elements_nonunfied, dF]; push_cast [ZMod.intCast_mod]; ring
  have hT : ((r.2.2.2 : ℤ) : F)
      = (2*((T1:F)*Z2 + Z1*T2)) * (2*((T1:F)*Z2 - Z1*T2)) := by
    simp only [r, spake__add_elements_nonunfied, dF]; push_cast [ZMod.intCast_mod]; ring
  obtain ⟨hz, ht, hc, hx, hy⟩ :=
    nonunified_generic curveConsts hZ1 hT1 hC1 hZ2 hT2 hC2 hn1 hn2 hX hY hZ hT
  refine ⟨⟨?_, ?_, ?_, ?_, ?_, ?_, ?_, ?_, hz, ht, hc⟩, ?_⟩
  · simp only [r, spake__add_elements_nonunfied]; exact Int.emod_nonneg _ Q_ne_zero_int
  · simp only [r, spake__add_elements_nonunfied]; exact Int.emod_lt_of_pos _ Q_pos_int
  · simp only [r, spake__add_elements_nonunfied]; exact Int.emod_nonneg _ Q_ne_zero_int
  · simp only [r, spake__add_elements_nonunfied]; exact Int.emod_lt_of_pos _ Q_pos_int
  · simp only [r, spake__add_elements_nonunfied]; exact Int.emod_nonneg _ Q_ne_zero_int
  · simp only [r, spake__add_elements_nonunfied]; exact Int.emod_lt_of_pos _ Q_pos_int
  · simp only [r, spake__add_elements_nonunfied]; exact Int.emod_nonneg _ Q_ne_zero_int
  · simp only [r, spake__add_elements_nonunfied]; exact Int.emod_lt_of_pos _ Q_pos_int
  · simp only [pt, eadd]; rw [hx, hy]

end Main
