
section Generic3
variable {K : Type*} [Field K]

/-- dedicated doubling (dbl-2008-hwcd, a = −1), result polynomials -/
theorem double_generic {d i : K} (hc : CurveConsts d i)
    {X1 Y1 Z1 X3 Y3 Z3 T3 : K}
    (hZ1 : Z1 ≠ 0) (hC1 : (-X1^2+Y1^2)*Z1^2 = Z1^4 + d*X1^2*Y1^2)
    (hX3 : X3 = (2*X1*Y1) * (Y1^2 - X1^2 - 2*Z1^2))
    (hY3 : Y3 = (Y1^2 - X1^2) * (-X1^2 - Y1^2))
    (hZ3 : Z3 = (Y1^2 - X1^2 - 2*Z1^2) * (Y1^2 - X1^2))
    (hT3 : T3 = (2*X1*Y1) * (-X1^2 - Y1^2)) :
    Z3 ≠ 0 ∧ T3*Z3 = X3*Y3 ∧ ((-X3^2+Y3^2)*Z3^2 = Z3^4 + d*X3^2*Y3^2) ∧
    X3/Z3 = ((X1/Z1)*(Y1/Z1) + (X1/Z1)*(Y1/Z1)) / (1 + d*(X1/Z1)*(X1/Z1)*(Y1/Z1)*(Y1/Z1)) ∧
    Y3/Z3 = ((Y1/Z1)*(Y1/Z1) + (X1/Z1)*(X1/Z1)) / (1 - d*(X1/Z1)*(X1/Z1)*(Y1/Z1)*(Y1/Z1)) := by
  have hA1 := (proj_iff (d := d) hZ1).mpr hC1
  obtain ⟨hp, hm⟩ := complete_generic hc hA1 hA1
  set x := X1/Z1 with hx
  set y := Y1/Z1 with hy
  set e := d*x*x*y*y with he
  have hZ2ne : Z1^2 ≠ 0 := pow_ne_zero 2 hZ1
  have hG : Y1^2 - X1^2 = Z1^2*(1 + e) := by
    have : Y1^2 - X1^2 = Z1^2*(-x^2 + y^2) := by rw [hx, hy]; field_simp; ring
    rw [this, hA1, he]; ring
  have hF : Y1^2 - X1^2 - 2*Z1^2 = -(Z1^2*(1 - e)) := by rw [hG]; ring
  have hE : 2*X1*Y1 = Z1^2*(x*y + x*y) := by rw [hx, hy]; field_simp; ring
  have hH : -X1^2 - Y1^2 = -(Z1^2*(y*y + x*x)) := by rw [hx, hy]; field_simp; ring
  rw [hF, hE] at hX3
  rw [hG, hH] at hY3
  rw [hF, hG] at hZ3
  rw [hE, hH] at hT3
  have hZ3ne : Z3 ≠ 0 := by
    rw [hZ3]; exact mul_ne_zero (neg_ne_zero.mpr (mul_ne_zero hZ2ne hm)) (mul_ne_zero hZ2ne hp)
  have hxq : X3/Z3 = (x*y + x*y) / (1 + e) := by
    rw [div_eq_div_iff hZ3ne hp, hX3, hZ3]; ring
  have hyq : Y3/Z3 = (y*y + x*x) / (1 - e) := by
    rw [div_eq_div_iff hZ3ne hm, hY3, hZ3]; ring
  refine ⟨hZ3ne, ?_, ?_, hxq, hyq⟩
  · rw [hT3, hZ3, hX3, hY3]; ring
  · rw [← proj_iff hZ3ne, hxq, hyq]
    exact closed_generic hA1 hA1 hp hm

/-- dedicated (non-unified) addition (add-2008-hwcd-4), result polynomials; valid when
`P1 − P2` has both coordinates non-zero -/
theorem nonunified_generic {d i : K} (hc : CurveConsts d i)
    {X1 Y1 Z1 T1 X2 Y2 Z2 T2 X3 Y3 Z3 T3 : K}
    (hZ1 : Z1 ≠ 0) (hT1 : T1*Z1 = X1*Y1) (hC1 : (-X1^2+Y1^2)*Z1^2 = Z1^4 + d*X1^2*Y1^2)
    (hZ2 : Z2 ≠ 0) (hT2 : T2*Z2 = X2*Y2) (hC2 : (-X2^2+Y2^2)*Z2^2 = Z2^4 + d*X2^2*Y2^2)
    (hn1 : (X1/Z1)*(Y2/Z2) + (-(X2/Z2))*(Y1/Z1) ≠ 0)
    (hn2 : (Y1/Z1)*(Y2/Z2) + (X1/Z1)*(-(X2/Z2)) ≠ 0)
    (hX3 : X3 = (2*(T1*Z2 + Z1*T2)) * (2*(X1*Y2 - Y1*X2)))
    (hY3 : Y3 = (2*(Y1*Y2 - X1*X2)) * (2*(T1*Z2 - Z1*T2)))
    (hZ3 : Z3 = (2*(X1*Y2 - Y1*X2)) * (2*(Y1*Y2 - X1*X2)))
    (hT3 : T3 = (2*(T1*Z2 + Z1*T2)) * (2*(T1*Z2 - Z1*T2))) :
    Z3 ≠ 0 ∧ T3*Z3 = X3*Y3 ∧ ((-X3^2+Y3^2)*Z3^2 = Z3^4 + d*X3^2*Y3^2) ∧
    X3/Z3 = ((X1/Z1)*(Y2/Z2) + (X2/Z2)*(Y1/Z1)) / (1 + d*(X1/Z1)*(X2/Z2)*(Y1/Z1)*(Y2/Z2)) ∧
    Y3/Z3 = ((Y1/Z1)*(Y2/Z2) + (X1/Z1)*(X2/Z2)) / (1 - d*(X1/Z1)*(X2/Z2)*(Y1/Z1)*(Y2/Z2)) := by
  have hT1' : T1 = X1*Y1/Z1 := eq_div_of_mul_eq hZ1 hT1
  have hT2' : T2 = X2*Y2/Z2 := eq_div_of_mul_eq hZ2 hT2
  have hA1 := (proj_iff (d := d) hZ1).mpr hC1
  have hA2 := (proj_iff (d := d) hZ2).mpr hC2
  obtain ⟨hp, hm⟩ := complete_generic hc hA1 hA2
  have h2 := hc.two_ne
  set x1 := X1/Z1 with hx1
  set y1 := Y1/Z1 with hy1
  set x2 := X2/Z2 with hx2
  set y2 := Y2/Z2 with hy2
  set e := d*x1*x2*y1*y2 with he
  have hc0 : 2*Z1*Z2 ≠ 0 := mul_ne_zero (mul_ne_zero h2 hZ1) hZ2
  have hE : 2*(T1*Z2 + Z1*T2) = 2*Z1*Z2*(x1*y1 + x2*y2) := by
    rw [hT1', hT2', hx1, hx2, hy1, hy2]; field_simp
  have hH : 2*(T1*Z2 - Z1*T2) = 2*Z1*Z2*(x1*y1 - x2*y2) := by
    rw [hT1', hT2', hx1, hx2, hy1, hy2]; field_simp
  have hF : 2*(X1*Y2 - Y1*X2) = 2*Z1*Z2*(x1*y2 + (-x2)*y1) := by
    rw [hx1, hx2, hy1, hy2]; field_simp; ring
  have hG : 2*(Y1*Y2 - X1*X2) = 2*Z1*Z2*(y1*y2 + x1*(-x2)) := by
    rw [hx1, hx2, hy1, hy2]; field_simp; ring
  rw [hE, hF] at hX3
  rw [hG, hH] at hY3
  rw [hF, hG] at hZ3
  rw [hE, hH] at hT3
  have hZ3ne : Z3 ≠ 0 := by
    rw [hZ3]; exact mul_ne_zero (mul_ne_zero hc0 hn1) (mul_ne_zero hc0 hn2)
  have hxq : X3/Z3 = (x1*y2 + x2*y1) / (1 + e) := by
    rw [div_eq_div_iff hZ3ne hp, hX3, hZ3, he]
    linear_combination (2*Z1*Z2)^2 * (x1*y2 + (-x2)*y1) * ((-x2*y2) * hA1 + (-x1*y1) * hA2)
  have hyq : Y3/Z3 = (y1*y2 + x1*x2) / (1 - e) := by
    rw [div_eq_div_iff hZ3ne hm, hY3, hZ3, he]
    linear_combination (2*Z1*Z2)^2 * (y1*y2 + x1*(-x2)) * ((x2*y2) * hA1 + (-x1*y1) * hA2)
  refine ⟨hZ3ne, ?_, ?_, hxq, hyq⟩
  · rw [hT3, hZ3, hX3, hY3]; ring
  · rw [← proj_iff hZ3ne, hxq, hyq]
    exact closed_generic hA1 hA2 hp hm

end Generic3
