from sympy import *
d,x1,y1,x2,y2=symbols('d x1 y1 x2 y2')
C1=-x1**2+y1**2-1-d*x1**2*y1**2
C2=-x2**2+y2**2-1-d*x2**2*y2**2
e=d*x1*x2*y1*y2
N1=x1*y2+x2*y1; N2=y1*y2+x1*x2
goal=expand(-(N1**2)*(1-e)**2+N2**2*(1+e)**2-((1+e)**2*(1-e)**2+d*N1**2*N2**2))
(q1,q2),r=reduced(goal,[C1,C2],d,x1,y1,x2,y2,order='lex')
print(r)
def lean(p): return str(p).replace('**','^')
print("c1:",lean(factor(q1))); print("c2:",lean(factor(q2)))
print("c1e:",lean(q1)); print("c2e:",lean(q2))
