#!/usr/bin/env python3
"""Developer self-test of the Lean back end (run: python3-vt lean/selftest/mutate_edwards.py [case ...]).
Each case mutates the GENERATED mirror of the real functions (as pyvc/leangen.py prints it from /repo) and checks the whole
Edwards text (header + mirror + EdwardsProofs + EdwardsExtra + EdwardsGroup) again: wrong mirrors must be rejected, behaviour-
preserving rewrites accepted.  case = (name, expect_ok, mutated text)"""
import sys, os, time
VERIF = os.path.dirname(os.path.dirname(os.path.dirname(os.path.abspath(__file__))))
sys.path.insert(0, VERIF)
from pyvc import leanback
from pyvc.repo import Repo, oracle, Oracle
_vals = {n: Oracle.dec(oracle().req(op="global", module="spake2.ed25519_basic", name=n)["value"]) for n in ("d", "I", "Q")}
src, _errs = leanback.generate_defs(Repo(), _vals)
assert not _errs, _errs
D = leanback.LEAN_DIR
_HDR = open(os.path.join(D, "EdwardsHeader.lean")).read()
_REST = "".join("\n" + open(os.path.join(D, f)).read() for f in ("EdwardsProofs.lean", "EdwardsExtra.lean", "EdwardsGroup.lean"))
def section(name):
    i=src.index('def '+name+' '); j=src.find('\ndef ',i+1); j=len(src) if j<0 else j
    return i,j
def mutate(fn, old, new):
    i,j=section(fn); body=src[i:j]
    assert old in body, (fn, old)
    return src[:i]+body.replace(old,new,1)+src[j:]
def top(old,new):
    assert old in src, old
    return src.replace(old,new,1)
cases=[
 ('N01_add_2d_to_d', False, mutate('spake_add_elements','((2 : ℤ) * spake_d)','spake_d')),
 ('N02_add_F_DplusC', False, mutate('spake_add_elements','let F := ((D - C)','let F := ((D + C)')),
 ('N03_add_G_DminusC', False, mutate('spake_add_elements','let G := ((D + C)','let G := ((D - C)')),
 ('N04_add_X3_no_mod', False, mutate('spake_add_elements','let X3 := ((E * F) % (Q : ℤ))','let X3 := (E * F)')),
 ('N05_add_Z3_no_mod', False, mutate('spake_add_elements','let Z3 := ((F * G) % (Q : ℤ))','let Z3 := (F * G)')),
 ('N06_add_swap_out', False, mutate('spake_add_elements','(X3, Y3, Z3, T3)','(Y3, X3, Z3, T3)')),
 ('N07_dbl_C_no2', False, mutate('spake_double_element','(((2 : ℤ) * Z1) * Z1)','(Z1 * Z1)')),
 ('N08_dbl_H_plus', False, mutate('spake_double_element','let H := ((D - B)','let H := ((D + B)')),
 ('N09_dbl_T3_no_mod', False, mutate('spake_double_element','let T3 := ((E * H) % (Q : ℤ))','let T3 := (E * H)')),
 ('N10_nonuni_E_minus', False, mutate('spake__add_elements_nonunfied','let E := ((D + C)','let E := ((D - C)')),
 ('N11_nonuni_A_sign', False, mutate('spake__add_elements_nonunfied','((Y1 - X1) * (Y2 + X2))','((Y1 - X1) * (Y2 - X2))')),
 ('N12_inv_exp', False, mutate('spake_inv','(2 : ℤ)','(3 : ℤ)')),
 ('N13_inv_no_mod', False, mutate('spake_inv','((x ^ (((Q : ℤ) - (2 : ℤ))).toNat) % (Q : ℤ))','(x ^ (((Q : ℤ) - (2 : ℤ))).toNat)')),
 ('N14_iszero_X_to_Y', False, mutate('spake_is_extended_zero','(X = (0 : ℤ))','(X = (1 : ℤ))')),
 ('N15_oncurve_sign', False, mutate('spake_isoncurve','- (1 : ℤ))','+ (1 : ℤ))')),
 ('N16_d_literal', False, top('924598840740 : ℤ)','924598840741 : ℤ)')),
 ('N17_I_literal', False, top('829784752 : ℤ)','829784753 : ℤ)')),
 ('N18_Q_literal', False, top('2^255 - 19','2^255 - 31')),
 ('N19_affine_T', False, mutate('spake_xform_affine_to_extended','((x * y) % (Q : ℤ))','((x + y) % (Q : ℤ))')),
 ('N20_affine_x_no_mod', False, mutate('spake_xform_affine_to_extended','((x % (Q : ℤ)),','(x,')),
 ('N21_ext_affine_y', False, mutate('spake_xform_extended_to_affine','((y * (spake_inv z)) % (Q : ℤ))','((x * (spake_inv z)) % (Q : ℤ))')),
 ('N22_sorry_in_gen', False, src+'\ntheorem bogus : (1:ℤ) = 2 := by sorry\n'),
 # behaviour-preserving rewrites: must be accepted
 ('P01_add_reorder', True, mutate('spake_add_elements',
    '''  let C := (((T1 * ((2 : ℤ) * spake_d)) * T2) % (Q : ℤ))
  let D := (((Z1 * (2 : ℤ)) * Z2) % (Q : ℤ))''',
    '''  let D := ((((2 : ℤ) * Z1) * Z2) % (Q : ℤ))
  let C := (((((2 : ℤ) * spake_d) * T1) * T2) % (Q : ℤ))''')),
 ('P02_add_interior_no_mod', True, mutate('spake_add_elements','let A := (((Y1 - X1) * (Y2 - X2)) % (Q : ℤ))','let A := ((Y1 - X1) * (Y2 - X2))')),
 ('P03_dbl_J_expanded', True, mutate('spake_double_element','let E := ((((J * J) - A) - B) % (Q : ℤ))','let E := ((((2 : ℤ) * X1) * Y1) % (Q : ℤ))')),
 ('P04_nonuni_commute', True, mutate('spake__add_elements_nonunfied','let X3 := ((E * F) % (Q : ℤ))','let X3 := ((F * E) % (Q : ℤ))')),
 ('P06_iszero_reorder', True, mutate('spake_is_extended_zero','((X = (0 : ℤ)) ∧ (Y = Z) ∧ (Y ≠ (0 : ℤ)))','((Y = Z) ∧ (X = (0 : ℤ)) ∧ (Y ≠ (0 : ℤ)))')),
 ('P07_inv_nat_exp', True, mutate('spake_inv','(x ^ (((Q : ℤ) - (2 : ℤ))).toNat)','(x ^ (Q - 2))')),
 ('P08_ext_affine_comm', True, mutate('spake_xform_extended_to_affine','((x * (spake_inv z)) % (Q : ℤ))','(((spake_inv z) * x) % (Q : ℤ))')),
 ('N23_iszero_drop_eq', False, mutate('spake_is_extended_zero','(Y = Z) ∧ ','')),
 ('P05_oncurve_rewrite', True, mutate('spake_isoncurve','((-x) * x)','(-(x * x))')),
]
only=sys.argv[1:]
res=[]
for name,exp,text in cases:
    if only and name not in only: continue
    t=time.time()
    r=leanback.run_lean(_HDR + "\n" + text + "\n" + _REST, "EdMut_" + name)
    ok=r["ok"]
    status='as expected' if ok==exp else 'UNEXPECTED'
    first=''
    if not ok:
        errs=[l for l in r["tail"].splitlines() if 'error' in l or 'sorry' in l]
        first=errs[0][:150] if errs else r["tail"][-150:].replace("\n"," ")
    print(f'{name:28s} expect={"OK" if exp else "FAIL":4s} got={"OK" if ok else "FAIL":4s} {status} {time.time()-t:4.0f}s  {first}',flush=True)
    res.append(ok==exp)
print('ALL AS EXPECTED' if all(res) else 'SOME UNEXPECTED')
sys.exit(0 if all(res) else 1)
