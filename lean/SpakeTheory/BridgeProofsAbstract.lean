/-!
# BridgeProofsAbstract.lean — every generated `Bridge.stmt_<name>` that needs only Algebra.lean is a theorem
(the four statements about curve coordinates are in BridgeProofsCurve.lean)

This file is STATIC.  It is concatenated by `pyvc/leanbridge.py` (`assemble`) after
  * the Edwards text (header, generated mirror of the real Python functions, EdwardsProofs/Extra/Group),
  * `Algebra.lean`,
  * the statements `Bridge.stmt_<name> : Prop`, GENERATED on every run by printing the very z3
    instance of each lemma schema of `pyvc/theory.py`.
For each statement it contains `theorem Bridge.bridge_<name> : Bridge.stmt_<name>`, derived from the
theorems of `Algebra.lean` (namespace `Spake2Algebra`) and of the Edwards files.  If a schema changes,
the generated statement changes and the corresponding proof below stops checking.

No placeholders, no added axioms, no compiler-trusting decision procedures.
-/

namespace Bridge

open Spake2Algebra

/-! ## helpers -/

/-- the subgroup order is odd -/
theorem Lc_odd : Lc % 2 = 1 := by decide +kernel

/-- `isprime(b)` as printed (`Nat.Prime b.toNat`) forces `b` to be the cast of that natural number -/
theorem int_of_prime_toNat {b : ℤ} (h : Nat.Prime b.toNat) : ((b.toNat : ℕ) : ℤ) = b := by
  have h2 := h.two_le
  have hb : 0 ≤ b := by
    by_contra hneg
    rw [Int.toNat_of_nonpos (by omega)] at h2
    omega
  exact Int.toNat_of_nonneg hb

/-! ## Part A: modular exponentiation and primes (`Algebra.lean`, Part A) -/

theorem bridge_powmod_mul : stmt_powmod_mul := by
  unfold stmt_powmod_mul
  rintro a b c e ⟨he, _⟩
  exact powmod_mul a b c.toNat e he

theorem bridge_powmod_pow : stmt_powmod_pow := by
  unfold stmt_powmod_pow
  rintro a b c e ⟨he, _, _⟩
  exact powmod_pow a b.toNat c.toNat e he

theorem bridge_powmod_exp_mul : stmt_powmod_exp_mul := by
  unfold stmt_powmod_exp_mul
  rintro a b c e ⟨he, hb, hc⟩
  have hmul : (b * c).toNat = b.toNat * c.toNat := Int.toNat_mul hb hc
  rw [hmul]
  exact powmod_exp_mul a b.toNat c.toNat e he

theorem bridge_powmod_base_one : stmt_powmod_base_one := by
  unfold stmt_powmod_base_one
  rintro a b ⟨hb, _⟩
  exact powmod_base_one a.toNat b hb

theorem bridge_powmod_zero : stmt_powmod_zero := by
  unfold stmt_powmod_zero
  rintro a b c ⟨hc, hb, ha⟩
  have hb' : 1 ≤ b.toNat := by omega
  exact powmod_zero a b.toNat c hc hb' ha

theorem bridge_prime_ge_two : stmt_prime_ge_two := by
  unfold stmt_prime_ge_two
  intro a ha
  have h := prime_ge_two_int a.toNat ha
  rw [int_of_prime_toNat ha] at h
  exact h

theorem bridge_prime_mul_nonzero : stmt_prime_mul_nonzero := by
  unfold stmt_prime_mul_nonzero
  rintro a b c ⟨hc, ha, hb⟩
  have hcast := int_of_prime_toNat hc
  have h := prime_mul_nonzero a b c.toNat hc (by rw [hcast]; exact ha) (by rw [hcast]; exact hb)
  rw [hcast] at h
  exact h

theorem bridge_fermat : stmt_fermat := by
  unfold stmt_fermat
  rintro a b ⟨hb, ha⟩
  have hcast := int_of_prime_toNat hb
  have h := fermat a b.toNat hb (by rw [hcast]; exact ha)
  have hexp : (b - 1).toNat = b.toNat - 1 := by omega
  rw [hexp]
  unfold powmod at h
  rw [hcast] at h
  exact h

/-! ## Part B: the abstract group (`Algebra.lean`, Part B) -/

theorem bridge_spake2_agree : stmt_spake2_agree := by
  unfold stmt_spake2_agree
  intro G _ hL a b c G0 M N _
  exact spake2_agree a b c G0 M N

theorem bridge_ed_add_comm : stmt_ed_add_comm := by
  unfold stmt_ed_add_comm
  intro G _ hL P R
  exact add_comm P R

theorem bridge_ed_add_zero : stmt_ed_add_zero := by
  unfold stmt_ed_add_zero
  intro G _ hL P
  exact ⟨zero_add P, add_zero P⟩

theorem bridge_ed_insub_O : stmt_ed_insub_O := by
  unfold stmt_ed_insub_O
  intro G _ hL
  exact insub_zero (G := G) Lc

theorem bridge_ed_insub_add : stmt_ed_insub_add := by
  unfold stmt_ed_insub_add
  rintro G _ hL P R ⟨hP, hR⟩
  exact insub_add Lc P R hP hR

theorem bridge_ed_insub_def : stmt_ed_insub_def := by
  unfold stmt_ed_insub_def
  intro G _ hL P
  exact Iff.rfl

theorem bridge_ed_insub_mul : stmt_ed_insub_mul := by
  unfold stmt_ed_insub_mul
  intro G _ hL a P hP
  exact insub_mul Lc a P hP

theorem bridge_ed_insub_neg : stmt_ed_insub_neg := by
  unfold stmt_ed_insub_neg
  intro G _ hL P hP
  exact ⟨insub_neg Lc P hP, neg_eq_zero⟩

theorem bridge_ed_mul_O : stmt_ed_mul_O := by
  unfold stmt_ed_mul_O
  intro G _ hL a
  exact zsmul_zero a

theorem bridge_ed_mul_mod : stmt_ed_mul_mod := by
  unfold stmt_ed_mul_mod
  intro G _ hL a P hP
  exact mul_mod Lc a P hP

theorem bridge_ed_mul_mul : stmt_ed_mul_mul := by
  unfold stmt_ed_mul_mul
  intro G _ hL a b P
  exact mul_mul a b P

theorem bridge_ed_mul_one : stmt_ed_mul_one := by
  unfold stmt_ed_mul_one
  intro G _ hL P
  exact mul_one' P

theorem bridge_ed_mul_step : stmt_ed_mul_step := by
  unfold stmt_ed_mul_step
  intro G _ hL a P ha
  exact mul_step a ha P

theorem bridge_ed_mul_zero : stmt_ed_mul_zero := by
  unfold stmt_ed_mul_zero
  intro G _ hL P
  exact mul_zero' P

theorem bridge_ed_neg_O : stmt_ed_neg_O := by
  unfold stmt_ed_neg_O
  intro G _ hL
  exact neg_zero

theorem bridge_ed_neg_def : stmt_ed_neg_def := by
  unfold stmt_ed_neg_def
  intro G _ hL P
  exact ⟨add_neg_cancel P, neg_mul' P⟩

theorem bridge_ed_neg_mul : stmt_ed_neg_mul := by
  unfold stmt_ed_neg_mul
  intro G _ hL P hP
  exact neg_mul_L Lc P hP

theorem bridge_ed_prime_order : stmt_ed_prime_order := by
  unfold stmt_ed_prime_order
  rintro G _ hL a P ⟨hP, hne, ha⟩
  exact prime_order Lc hL a P hP hne ha

end Bridge

/-! # Axiom audit -/
#print axioms Bridge.bridge_ed_add_comm
#print axioms Bridge.bridge_ed_add_zero
#print axioms Bridge.bridge_ed_insub_O
#print axioms Bridge.bridge_ed_insub_add
#print axioms Bridge.bridge_ed_insub_def
#print axioms Bridge.bridge_ed_insub_mul
#print axioms Bridge.bridge_ed_insub_neg
#print axioms Bridge.bridge_ed_mul_O
#print axioms Bridge.bridge_ed_mul_mod
#print axioms Bridge.bridge_ed_mul_mul
#print axioms Bridge.bridge_ed_mul_one
#print axioms Bridge.bridge_ed_mul_step
#print axioms Bridge.bridge_ed_mul_zero
#print axioms Bridge.bridge_ed_neg_O
#print axioms Bridge.bridge_ed_neg_def
#print axioms Bridge.bridge_ed_neg_mul
#print axioms Bridge.bridge_ed_prime_order
#print axioms Bridge.bridge_fermat
#print axioms Bridge.bridge_powmod_base_one
#print axioms Bridge.bridge_powmod_exp_mul
#print axioms Bridge.bridge_powmod_mul
#print axioms Bridge.bridge_powmod_pow
#print axioms Bridge.bridge_powmod_zero
#print axioms Bridge.bridge_prime_ge_two
#print axioms Bridge.bridge_prime_mul_nonzero
#print axioms Bridge.bridge_spake2_agree
