/-! # BridgeProofsCurve.lean — the generated statements about curve coordinates (concatenated after the Edwards text,
Algebra.lean, all generated statements and BridgeProofsAbstract.lean); STATIC -/

namespace Bridge

open Spake2Algebra

/-! ## Part C: the concrete curve (`EdwardsProofs/Extra/Group.lean`) -/

section Coord
variable [Fact (Nat.Prime Q)]

/-- `ed_x`/`ed_y` are printed as `(c.val : ℤ)`; equality of these is equality in the field -/
theorem val_int_inj {u v : F} (h : ((u.val : ℕ) : ℤ) = ((v.val : ℕ) : ℤ)) : u = v :=
  ZMod.val_injective Q (by exact_mod_cast h)

/-- the printed form of "the other root": `(Q - x) % Q` on canonical representatives is negation -/
theorem val_int_neg (v : F) : (((-v).val : ℕ) : ℤ) = ((Q : ℤ) - ((v.val : ℕ) : ℤ)) % (Q : ℤ) := by
  have hle : v.val ≤ Q := (ZMod.val_lt v).le
  rw [ZMod.neg_val']
  push_cast [Nat.cast_sub hle]
  rfl

/-- an integer in `[0, Q)` is the canonical representative of its class -/
theorem val_int_of_range {z : ℤ} (h0 : 0 ≤ z) (h1 : z < Q) : (((z : F).val : ℕ) : ℤ) = z := by
  rw [ZMod.val_intCast]
  exact Int.emod_eq_of_lt h0 h1

end Coord

theorem bridge_ed_same_y : stmt_ed_same_y := by
  unfold stmt_ed_same_y
  intro hQ hL P R hy
  have hy' : P.1.2 = R.1.2 := val_int_inj hy
  rcases enc_injective_core P.2 R.2 hy' with h | h
  · left; rw [h]
  · right; rw [h]; exact val_int_neg _

/-- `Q < 2^255`: the literal is the `2^255` of the encoding (sign bit of x above the 255 bits of y) -/
theorem Q_lt_two_pow_int :
    (Q : ℤ) < (57896044618658097711785492504343953926634992332820282019728792003956564819968 : ℤ) := by
  have h : Q < 57896044618658097711785492504343953926634992332820282019728792003956564819968 := by
    decide +kernel
  exact_mod_cast h

/-- the encoding `y + 2^255·(x mod 2)` determines the point: `y < Q < 2^255` splits the equation into
equal `y` and equal parity of `x`; equal `y` gives `x = ±x'` (`enc_injective_core`), and `x = -x' ≠ 0`
would give `x + x' = Q`, odd, against equal parities. -/
theorem bridge_ed_enc_injective : stmt_ed_enc_injective := by
  unfold stmt_ed_enc_injective
  intro hQ hL P R h
  have hyP : ((P.1.2.val : ℕ) : ℤ) < (Q : ℤ) := by exact_mod_cast ZMod.val_lt P.1.2
  have hyR : ((R.1.2.val : ℕ) : ℤ) < (Q : ℤ) := by exact_mod_cast ZMod.val_lt R.1.2
  have hxP : ((P.1.1.val : ℕ) : ℤ) < (Q : ℤ) := by exact_mod_cast ZMod.val_lt P.1.1
  have hxR : ((R.1.1.val : ℕ) : ℤ) < (Q : ℤ) := by exact_mod_cast ZMod.val_lt R.1.1
  have hQ2 := Q_lt_two_pow_int
  have hQodd : (Q : ℤ) % 2 = 1 := by exact_mod_cast Q_odd
  have hy : ((P.1.2.val : ℕ) : ℤ) = ((R.1.2.val : ℕ) : ℤ) := by omega
  have hpar : ((P.1.1.val : ℕ) : ℤ) % 2 = ((R.1.1.val : ℕ) : ℤ) % 2 := by omega
  have hy' : P.1.2 = R.1.2 := val_int_inj hy
  have hx' : P.1.1 = R.1.1 := by
    rcases enc_injective_core P.2 R.2 hy' with hx | hx
    · exact hx
    · by_cases hR0 : R.1.1 = 0
      · rw [hx, hR0, neg_zero]
      · exfalso
        have hv := val_int_neg R.1.1
        rw [← hx] at hv
        have hpos : 0 < ((R.1.1.val : ℕ) : ℤ) := by
          have : R.1.1.val ≠ 0 := fun h0 => hR0 ((ZMod.val_eq_zero _).mp h0)
          omega
        rw [Int.emod_eq_of_lt (by omega) (by omega)] at hv
        omega
  exact Curve.ext (Prod.ext hx' hy')

theorem bridge_ed_xrecover_complete : stmt_ed_xrecover_complete := by
  unfold stmt_ed_xrecover_complete
  intro hQ hL a P hy
  have hyF : ((a : ℤ) : F) = P.1.2 := by
    rw [← hy]; simp
  have hon : OnCurve (P.1.1, ((a : ℤ) : F)) := by
    rw [hyF]; exact P.2
  obtain ⟨h0, h1, -⟩ := xrecover_range a
  constructor
  · have hc := xrecover_complete a P.1.1 hon
    simp only [OnCurve] at hc
    simp only [spake_isoncurve]
    rw [xr_emod_zero_iff]
    simp only [dF] at hc
    push_cast
    linear_combination hc
  · have hval := val_int_of_range h0 h1
    rcases xrecover_sq a P.1.1 hon with h | h
    · left; rw [← hval, h]
    · right; rw [← hval, h]; exact val_int_neg _

theorem bridge_ed_ladder_diff : stmt_ed_ladder_diff := by
  unfold stmt_ed_ladder_diff
  rintro hQ hL a P ⟨hP, hne, ha, hlt⟩
  have h2 : a • P + a • P = (2 * a) • P := by rw [two_mul, add_zsmul]
  rw [h2]
  exact Curve.ladder_diff_coords_ne_zero Lc hL Lc_odd P hP hne a ha hlt

end Bridge

/-! # Axiom audit -/
#print axioms Bridge.bridge_ed_enc_injective
#print axioms Bridge.bridge_ed_ladder_diff
#print axioms Bridge.bridge_ed_same_y
#print axioms Bridge.bridge_ed_xrecover_complete
