/-! # BridgeProofsCurve.lean — the generated statements about curve coordinates (concatenated after the Edwards text,
Algebra.lean, all generated statements and BridgeProofsAbstract.lean); STATIC -/

namespace Bridge

open Spake2Algebra

/-! ## Part C: the concrete curve (`EdwardsProofs/Extra/Group.lean`) -/

section Coord
variable [Fact (Nat.Prime Q)]

/-- `ed_x`/`ed_y` are printed as `(c.val : ℤ)`; equality of these is equality in the field -/
theorem val_int_inj {u v : F} (h : ((u.val : ℕ) : ℤ) = ((v.val : ℕ) : ℤ)) : u = v :=
  ZMod.val_injective Q (by exact_mod_cast h)

/-- the printed form of "the other root": `(Q - x) % Q` on canonical representatives is negation -/
theorem val_int_neg (v : F) : (((-v).val : ℕ) : ℤ) = ((Q : ℤ) - ((v.val : ℕ) : ℤ)) % (Q : ℤ) := by
  have hle : v.val ≤ Q := (ZMod.val_lt v).le
  rw [ZMod.neg_val']
  push_cast [Nat.cast_sub hle]
  rfl

/-- an integer in `[0, Q)` is the canonical representative of its class -/
theorem val_int_of_range {z : ℤ} (h0 : 0 ≤ z) (h1 : z < Q) : (((z : F).val : ℕ) : ℤ) = z := by
  rw [ZMod.val_intCast]
  exact Int.emod_eq_of_lt h0 h1

end Coord

theorem bridge_ed_same_y : stmt_ed_same_y := by
  unfold stmt_ed_same_y
  intro hQ hL P R hy
  have hy' : P.1.2 = R.1.2 := val_int_inj hy
  rcases enc_injective_core P.2 R.2 hy' with h | h
  · left; rw [h]
  · right; rw [h]; exact val_int_neg _

/-- `Q < 2^255`: the literal is the `2^255` of the encoding (sign bit of x above the 255 bits of y) -/
theorem Q_lt_two_pow_int :
    (Q : ℤ) < (57896044618658097711785492504343953926634992332820282019728792003956564819968 : ℤ) := by
  have h : Q < 57896044618658097711785492504343953926634992332820282019728792003956564819968 := by
    decide +kernel
  exact_mod_cast h

/-- the encoding `y + 2^255·(x mod 2)` determines the point: `y < Q < 2^255` splits the equation into
equal `y` and equal parity of `x`; equal `y` gives `x = ±x'` (`enc_injective_core`), and `x = -x' ≠ 0`
would give `x + x' = Q`, odd, against equal parities. -/
theorem bridge_ed_enc_injective : stmt_ed_enc_injective := by
  unfold stmt_ed_enc_injective
  intro hQ hL P R h
  have hyP : ((P.1.2.val : ℕ) : ℤ) < (Q : ℤ) := by exact_mod_cast ZMod.val_lt P.1.2
  have hyR : ((R.1.2.val : ℕ) : ℤ) < (Q : ℤ) := by exact_mod_cast ZMod.val_lt R.1.2
  have hxP : ((P.1.1.val : ℕ) : ℤ) < (Q : ℤ) := by exact_mod_cast ZMod.val_lt P.1.1
  have hxR : ((R.1.1.val : ℕ) : ℤ) < (Q : ℤ) := by exact_mod_cast ZMod.val_lt R.1.1
  have hQ2 := Q_lt_two_pow_int
  have hQodd : (Q : ℤ) % 2 = 1 := by exact_mod_cast Q_odd
  have hy : ((P.1.2.val : ℕ) : ℤ) = ((R.1.2.val : ℕ) : ℤ) := by omega
  have hpar : ((P.1.1.val : ℕ) : ℤ) % 2 = ((R.1.1.val : ℕ) : ℤ) % 2 := by omega
  have hy' : P.1.2 = R.1.2 := val_int_inj hy
  have hx' : P.1.1 = R.1.1 := by
    rcases enc_injective_core P.2 R.2 hy' with hx | hx
    · exact hx
    · by_cases hR0 : R.1.1 = 0
      · rw [hx, hR0, neg_zero]
      · exfalso
        have hv := val_int_neg R.1.1
        rw [← hx] at hv
        have hpos : 0 < ((R.1.1.val : ℕ) : ℤ) := by
          have : R.1.1.val ≠ 0 := fun h0 => hR0 ((ZMod.val_eq_zero _).mp h0)
          omega
        rw [Int.emod_eq_of_lt (by omega) (by omega)] at hv
        omega
  exact Curve.ext (Prod.ext hx' hy')

theorem bridge_ed_xrecover_complete : stmt_ed_xrecover_complete := by
  unfold stmt_ed_xrecover_complete
  intro hQ hL a P hy
  have hyF : ((a : ℤ) : F) = P.1.2 := by
    rw [← hy]; simp
  have hon : OnCurve (P.1.1, ((a : ℤ) : F)) := by
    rw [hyF]; exact P.2
  obtain ⟨h0, h1, -⟩ := xrecover_range a
  constructor
  · have hc := xrecover_complete a P.1.1 hon
    simp only [OnCurve] at hc
    simp only [spake_isoncurve]
    rw [xr_emod_zero_iff]
    simp only [dF] at hc
    push_cast
    linear_combination hc
  · have hval := val_int_of_range h0 h1
    rcases xrecover_sq a P.1.1 hon with h | h
    · left; rw [← hval, h]
    · right; rw [← hval, h]; exact val_int_neg _

theorem bridge_ed_ladder_diff : stmt_ed_ladder_diff := by
  unfold stmt_ed_ladder_diff
  rintro hQ hL a P ⟨hP, hne, ha, hlt⟩
  have h2 : a • P + a • P = (2 * a) • P := by rw [two_mul, add_zsmul]
  rw [h2]
  exact Curve.ladder_diff_coords_ne_zero Lc hL Lc_odd P hP hne a ha hlt

/-! ## Part D: the vocabulary relating integer coordinate tuples to curve points (`BridgeVocab.lean`) -/

section Vocab
variable [Fact (Nat.Prime Q)]

/-- inside its domain `edPt` is `pt` -/
theorem edPt_val {X Y Z : ℤ} (h : OnCurve (pt X Y Z)) : (edPt X Y Z).1 = pt X Y Z := by
  have e : edPt X Y Z = ⟨pt X Y Z, h⟩ := dif_pos h
  rw [e]

theorem edPt_of_valid3 {X Y Z : ℤ} (h : Valid3 X Y Z) : (edPt X Y Z).1 = pt X Y Z :=
  edPt_val (pt_oncurve h)

/-- inside its domain `edAff` is the pair of residues -/
theorem edAff_val {x y : ℤ} (h : OnCurve (((x : ℤ) : F), ((y : ℤ) : F))) :
    (edAff x y).1 = (((x : ℤ) : F), ((y : ℤ) : F)) := by
  have e : edAff x y = ⟨(((x : ℤ) : F), ((y : ℤ) : F)), h⟩ := dif_pos h
  rw [e]

/-- the generated mirror of the module's `isoncurve` (integers, unreduced `d`) is the curve equation in `F` -/
theorem isoncurve_iff (x y : ℤ) : spake_isoncurve x y ↔ OnCurve (((x : ℤ) : F), ((y : ℤ) : F)) := by
  simp only [spake_isoncurve, OnCurve, dF]
  rw [xr_emod_zero_iff]
  push_cast
  constructor
  · intro h; linear_combination h
  · intro h; linear_combination h

/-- the integer printed for a coordinate casts back to the coordinate -/
theorem val_int_cast (u : F) : (((u.val : ℕ) : ℤ) : F) = u := by
  rw [Int.cast_natCast, ZMod.natCast_zmod_val]

end Vocab

theorem bridge_voc_B_def : stmt_voc_B_def := by
  unfold stmt_voc_B_def
  intro hQ hL
  rfl

theorem bridge_voc_O_coords : stmt_voc_O_coords := by
  unfold stmt_voc_O_coords
  intro hQ hL
  have h1 : ((0 : Curve)).1.1 = 0 := rfl
  have h2 : ((0 : Curve)).1.2 = 1 := rfl
  rw [h1, h2, ZMod.val_zero, ZMod.val_one]
  exact ⟨rfl, rfl⟩

theorem bridge_voc_aff_O : stmt_voc_aff_O := by
  unfold stmt_voc_aff_O
  intro hQ hL
  have hon : OnCurve ((((0 : ℤ)) : F), (((1 : ℤ)) : F)) := by
    have := eO_onCurve
    simpa [eO] using this
  apply Curve.ext
  rw [edAff_val hon, Curve.zero_val]
  simp [eO]

theorem bridge_voc_coords_range : stmt_voc_coords_range := by
  unfold stmt_voc_coords_range
  intro hQ hL P
  refine ⟨Int.natCast_nonneg _, ?_, Int.natCast_nonneg _, ?_⟩
  · exact_mod_cast ZMod.val_lt P.1.1
  · exact_mod_cast ZMod.val_lt P.1.2

theorem bridge_voc_point_aff : stmt_voc_point_aff := by
  unfold stmt_voc_point_aff
  intro hQ hL P
  have hon : OnCurve ((((P.1.1.val : ℕ) : ℤ) : F), (((P.1.2.val : ℕ) : ℤ) : F)) := by
    rw [val_int_cast, val_int_cast]; exact P.2
  apply Curve.ext
  rw [edAff_val hon, val_int_cast, val_int_cast]

theorem bridge_voc_point_ext : stmt_voc_point_ext := by
  unfold stmt_voc_point_ext
  rintro hQ hL P R ⟨hx, hy⟩
  exact Curve.ext (Prod.ext (val_int_inj hx) (val_int_inj hy))

theorem bridge_voc_point_on_curve : stmt_voc_point_on_curve := by
  unfold stmt_voc_point_on_curve
  intro hQ hL P
  rw [isoncurve_iff, val_int_cast, val_int_cast]
  exact P.2

theorem bridge_voc_valid_reduced : stmt_voc_valid_reduced := by
  unfold stmt_voc_valid_reduced
  intro hQ hL a b c e h
  have h3 := h.toValid3
  obtain ⟨ha0, ha1, hb0, hb1, hc0, hc1, he0, he1, hcne, -, -⟩ := h
  have hcpos : c > 0 := by
    rcases lt_or_eq_of_le hc0 with hlt | heq
    · exact hlt
    · exfalso; apply hcne; rw [← heq]; simp
  exact ⟨ha0, ha1, hb0, hb1, hcpos, hc1, he0, he1, h3⟩

/-! ## Part E: the contracts of the coordinate-level functions (`EdwardsProofs.lean`) -/

theorem cbridge_add_elements : cstmt_add_elements := by
  unfold cstmt_add_elements
  rintro hQ X1 Y1 Z1 T1 X2 Y2 Z2 T2 ⟨h1, h2⟩
  intro r
  obtain ⟨hv, hpt⟩ := add_elements_correct h1 h2
  refine ⟨hv, Curve.ext ?_⟩
  rw [Curve.add_val, edPt_of_valid3 h1.toValid3, edPt_of_valid3 h2.toValid3]
  exact (edPt_of_valid3 hv.toValid3).trans hpt

theorem cbridge_double_element : cstmt_double_element := by
  unfold cstmt_double_element
  intro hQ X1 Y1 Z1 T1 h1 r
  obtain ⟨hv, hpt⟩ := double_element_correct h1 T1
  refine ⟨hv, Curve.ext ?_⟩
  rw [Curve.add_val, edPt_of_valid3 h1]
  exact (edPt_of_valid3 hv.toValid3).trans hpt

theorem cbridge__add_elements_nonunfied : cstmt__add_elements_nonunfied := by
  unfold cstmt__add_elements_nonunfied
  rintro hQ X1 Y1 Z1 T1 X2 Y2 Z2 T2 ⟨h1, h2⟩ ⟨hn1, hn2⟩
  intro r
  rw [Curve.sub_val, edPt_of_valid3 h1.toValid3, edPt_of_valid3 h2.toValid3] at hn1 hn2
  obtain ⟨hv, hpt⟩ := nonunified_correct h1 h2 hn1 hn2
  refine ⟨hv, Curve.ext ?_⟩
  rw [Curve.add_val, edPt_of_valid3 h1.toValid3, edPt_of_valid3 h2.toValid3]
  exact (edPt_of_valid3 hv.toValid3).trans hpt

theorem cbridge_xform_affine_to_extended : cstmt_xform_affine_to_extended := by
  unfold cstmt_xform_affine_to_extended
  intro hQ x y h r
  obtain ⟨hv, hpt⟩ := xform_affine_correct h
  refine ⟨hv, Curve.ext ?_⟩
  rw [edAff_val ((isoncurve_iff x y).mp h)]
  exact (edPt_of_valid3 hv.toValid3).trans hpt

theorem cbridge_xform_extended_to_affine : cstmt_xform_extended_to_affine := by
  unfold cstmt_xform_extended_to_affine
  intro hQ X Y Z T h r
  obtain ⟨hx0, hx1, hy0, hy1, hpt⟩ := xform_extended_correct h
  have hval : (edPt X Y Z).1 = (((r.1 : ℤ) : F), ((r.2 : ℤ) : F)) :=
    (edPt_of_valid3 h.toValid3).trans hpt.symm
  rw [hval]
  exact ⟨(val_int_of_range hx0 hx1).symm, (val_int_of_range hy0 hy1).symm⟩

theorem cbridge_is_extended_zero : cstmt_is_extended_zero := by
  unfold cstmt_is_extended_zero
  intro hQ X Y Z T h r
  have hval := edPt_of_valid3 h.toValid3
  have hiff : (edPt X Y Z = (0 : Curve)) ↔ pt X Y Z = eO := by
    constructor
    · intro h0; rw [← hval, h0]; rfl
    · intro h0; exact Curve.ext (hval.trans h0)
  rw [hiff]
  exact is_extended_zero_correct h

/-! ## Part F: `Valid`, `Valid3` spelled out over the integers; `edPt` in affine form -/

section ValidDefs
variable [Fact (Nat.Prime Q)]

theorem emod_ne_zero_iff (c : ℤ) : c % (Q : ℤ) ≠ 0 ↔ ((c : ℤ) : F) ≠ 0 :=
  (xr_emod_zero_iff c).not

/-- the integer residual `T·Z − X·Y` -/
theorem tz_resid_iff (a b c e : ℤ) :
    ((e * c) - (a * b)) % (Q : ℤ) = 0 ↔ ((e : ℤ) : F) * (c : F) = (a : F) * (b : F) := by
  rw [xr_emod_zero_iff]
  push_cast
  constructor
  · intro h; linear_combination h
  · intro h; linear_combination h

/-- the integer residual of the projective curve equation, with the module's unreduced `d` -/
theorem curve_resid_iff (a b c : ℤ) :
    (((((((-a) * a) + (b * b)) * c) * c) - (((c * c) * c) * c)) - ((((spake_d * a) * a) * b) * b)) % (Q : ℤ) = 0
      ↔ (-((a : ℤ) : F) ^ 2 + (b : F) ^ 2) * (c : F) ^ 2 = (c : F) ^ 4 + dF * (a : F) ^ 2 * (b : F) ^ 2 := by
  rw [xr_emod_zero_iff]
  simp only [dF]
  push_cast
  constructor
  · intro h; linear_combination h
  · intro h; linear_combination h

end ValidDefs

theorem bridge_voc_valid3_def : stmt_voc_valid3_def := by
  unfold stmt_voc_valid3_def
  intro hQ hL a b c
  unfold Valid3
  constructor
  · rintro ⟨h1, h2, h3, h4, h5, h6, h7, h8⟩
    exact ⟨h1, h2, h3, h4, h5, h6, (emod_ne_zero_iff c).mpr h7, (curve_resid_iff a b c).mpr h8⟩
  · rintro ⟨h1, h2, h3, h4, h5, h6, h7, h8⟩
    exact ⟨h1, h2, h3, h4, h5, h6, (emod_ne_zero_iff c).mp h7, (curve_resid_iff a b c).mp h8⟩

theorem bridge_voc_valid_def : stmt_voc_valid_def := by
  unfold stmt_voc_valid_def
  intro hQ hL a b c e
  unfold Valid
  constructor
  · rintro ⟨h1, h2, h3, h4, h5, h6, h7, h8, h9, h10, h11⟩
    exact ⟨h1, h2, h3, h4, h5, h6, h7, h8, (emod_ne_zero_iff c).mpr h9,
      (tz_resid_iff a b c e).mpr h10, (curve_resid_iff a b c).mpr h11⟩
  · rintro ⟨h1, h2, h3, h4, h5, h6, h7, h8, h9, h10, h11⟩
    exact ⟨h1, h2, h3, h4, h5, h6, h7, h8, (emod_ne_zero_iff c).mp h9,
      (tz_resid_iff a b c e).mp h10, (curve_resid_iff a b c).mp h11⟩

theorem bridge_voc_pt_affine : stmt_voc_pt_affine := by
  unfold stmt_voc_pt_affine
  intro hQ hL a b c h
  have hZ : ((c : ℤ) : F) ≠ 0 := h.2.2.2.2.2.2.1
  -- the printed `c ^ (Q - 2).toNat % Q` is the generated mirror `spake_inv c`
  show edPt a b c = edAff ((a * spake_inv c) % (Q : ℤ)) ((b * spake_inv c) % (Q : ℤ))
  have hx : ((((a * spake_inv c) % (Q : ℤ)) : ℤ) : F) = (a : F) / (c : F) := by
    push_cast [ZMod.intCast_mod]; rw [spake_inv_cast hZ, div_eq_mul_inv]
  have hy : ((((b * spake_inv c) % (Q : ℤ)) : ℤ) : F) = (b : F) / (c : F) := by
    push_cast [ZMod.intCast_mod]; rw [spake_inv_cast hZ, div_eq_mul_inv]
  have hon : OnCurve (((((a * spake_inv c) % (Q : ℤ)) : ℤ) : F), ((((b * spake_inv c) % (Q : ℤ)) : ℤ) : F)) := by
    rw [hx, hy]; exact pt_oncurve h
  apply Curve.ext
  rw [edPt_of_valid3 h, edAff_val hon, hx, hy]
  rfl

end Bridge

/-! # Axiom audit -/
#print axioms Bridge.bridge_ed_enc_injective
#print axioms Bridge.bridge_ed_ladder_diff
#print axioms Bridge.bridge_ed_same_y
#print axioms Bridge.bridge_ed_xrecover_complete
#print axioms Bridge.bridge_voc_B_def
#print axioms Bridge.bridge_voc_O_coords
#print axioms Bridge.bridge_voc_aff_O
#print axioms Bridge.bridge_voc_coords_range
#print axioms Bridge.bridge_voc_point_aff
#print axioms Bridge.bridge_voc_point_ext
#print axioms Bridge.bridge_voc_point_on_curve
#print axioms Bridge.bridge_voc_valid_reduced
#print axioms Bridge.cbridge_add_elements
#print axioms Bridge.cbridge_double_element
#print axioms Bridge.cbridge__add_elements_nonunfied
#print axioms Bridge.cbridge_xform_affine_to_extended
#print axioms Bridge.cbridge_xform_extended_to_affine
#print axioms Bridge.cbridge_is_extended_zero
#print axioms Bridge.bridge_voc_valid_def
#print axioms Bridge.bridge_voc_valid3_def
#print axioms Bridge.bridge_voc_pt_affine
