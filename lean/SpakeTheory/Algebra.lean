import Mathlib.FieldTheory.Finite.Basic
import Mathlib.Data.Int.CardIntervalMod
import Mathlib.Tactic.Module
import Mathlib.Tactic.Linarith
import Mathlib.Tactic.Positivity
import Mathlib.Tactic.NormNum

/-!
# Algebra side-lemmas for the SPAKE2 verification

Part A: modular exponentiation over `ℤ` (Python's `pow(x, e, m)`).
Part B: identities in an arbitrary additive commutative group with `ℤ`-scalars,
        prime-order subgroup facts, counting lemma for rejection sampling.
-/

namespace Spake2Algebra

/-! ## Part A -/

/-- Python's `pow(x, e, m)` for `e ≥ 0`, `m > 0`. -/
def powmod (x : ℤ) (e : ℕ) (m : ℤ) : ℤ := x ^ e % m

theorem powmod_modEq (x : ℤ) (e : ℕ) (m : ℤ) : powmod x e m ≡ x ^ e [ZMOD m] :=
  Int.mod_modEq _ _

theorem powmod_base_mod (x : ℤ) (e : ℕ) (m : ℤ) (_hm : 0 < m) :
    powmod x e m = powmod (x % m) e m :=
  ((Int.mod_modEq x m).pow e).symm

theorem powmod_range (x : ℤ) (e : ℕ) (m : ℤ) (hm : 0 < m) :
    0 ≤ powmod x e m ∧ powmod x e m < m :=
  ⟨Int.emod_nonneg _ hm.ne', Int.emod_lt_of_pos _ hm⟩

theorem powmod_mul (a b : ℤ) (e : ℕ) (m : ℤ) (_hm : 0 < m) :
    powmod ((a * b) % m) e m = (powmod a e m * powmod b e m) % m := by
  have h1 : ((a * b) % m) ^ e ≡ a ^ e * b ^ e [ZMOD m] := by
    rw [← mul_pow]; exact (Int.mod_modEq _ _).pow e
  have h2 : powmod a e m * powmod b e m ≡ a ^ e * b ^ e [ZMOD m] :=
    (powmod_modEq a e m).mul (powmod_modEq b e m)
  exact h1.trans h2.symm

theorem powmod_exp_mul (a : ℤ) (r q : ℕ) (m : ℤ) (_hm : 0 < m) :
    powmod (powmod a r m) q m = powmod a (r * q) m := by
  have h1 : (powmod a r m) ^ q ≡ a ^ (r * q) [ZMOD m] := by
    rw [pow_mul]; exact (powmod_modEq a r m).pow q
  exact h1

theorem powmod_pow (a : ℤ) (k e : ℕ) (m : ℤ) (hm : 0 < m) :
    powmod (powmod a k m) e m = powmod (powmod a e m) k m := by
  rw [powmod_exp_mul a k e m hm, powmod_exp_mul a e k m hm, Nat.mul_comm]

theorem powmod_base_one (k : ℕ) (m : ℤ) (_hm : 0 < m) : powmod 1 k m = 1 % m := by
  simp [powmod]

theorem powmod_zero (x : ℤ) (e : ℕ) (m : ℤ) (_hm : 0 < m) (he : 1 ≤ e) (hx : x % m = 0) :
    powmod x e m = 0 := by
  have hd : m ∣ x := Int.dvd_of_emod_eq_zero hx
  have : m ∣ x ^ e := dvd_pow hd (by omega)
  exact Int.emod_eq_zero_of_dvd this

theorem prime_ge_two (p : ℕ) (hp : p.Prime) : 2 ≤ p := hp.two_le

theorem prime_ge_two_int (p : ℕ) (hp : p.Prime) : (2 : ℤ) ≤ (p : ℤ) := by
  exact_mod_cast hp.two_le

theorem prime_mul_nonzero (a b : ℤ) (p : ℕ) (hp : p.Prime)
    (ha : a % (p : ℤ) ≠ 0) (hb : b % (p : ℤ) ≠ 0) : (a * b) % (p : ℤ) ≠ 0 := by
  intro h
  have hp' : Prime (p : ℤ) := Nat.prime_iff_prime_int.mp hp
  rcases hp'.dvd_or_dvd (Int.dvd_of_emod_eq_zero h) with h1 | h1
  · exact ha (Int.emod_eq_zero_of_dvd h1)
  · exact hb (Int.emod_eq_zero_of_dvd h1)

theorem fermat (h : ℤ) (p : ℕ) (hp : p.Prime) (hh : h % (p : ℤ) ≠ 0) :
    powmod h (p - 1) p = 1 := by
  have hp' : Prime (p : ℤ) := Nat.prime_iff_prime_int.mp hp
  have hcop : IsCoprime h (p : ℤ) := by
    apply IsCoprime.symm
    rw [hp'.irreducible.coprime_iff_not_dvd]
    intro hd; exact hh (Int.emod_eq_zero_of_dvd hd)
  have key : h ^ (p - 1) ≡ 1 [ZMOD p] := Int.ModEq.pow_card_sub_one_eq_one hp hcop
  have h2 : (2 : ℤ) ≤ p := prime_ge_two_int p hp
  unfold powmod
  rw [key.eq]
  exact Int.emod_eq_of_lt (by omega) (by omega)

/-! ### The order-`q` subgroup as a `ℤ`-module -/

/-- If `a^q ≡ 1 (mod m)` then exponents can be compared modulo `q`. -/
theorem pow_modEq_of_exp_modEq (a : ℤ) (q : ℕ) (m : ℤ) (ha : powmod a q m = 1 % m)
    (e1 e2 : ℕ) (he : e1 % q = e2 % q) : a ^ e1 ≡ a ^ e2 [ZMOD m] := by
  have hq1 : a ^ q ≡ 1 [ZMOD m] := ha
  have red : ∀ e : ℕ, a ^ e ≡ a ^ (e % q) [ZMOD m] := by
    intro e
    have : a ^ e = (a ^ q) ^ (e / q) * a ^ (e % q) := by
      rw [← pow_mul, ← pow_add, Nat.div_add_mod]
    rw [this]
    have h1 : (a ^ q) ^ (e / q) ≡ 1 [ZMOD m] := by
      simpa using hq1.pow (e / q)
    simpa using h1.mul_right (a ^ (e % q))
  exact (red e1).trans (he ▸ (red e2).symm)

/-- "if `a^q ≡ 1 (mod m)` then `a^(n mod q) ≡ a^n (mod m)` for every natural `n`". -/
theorem scalar_mod_order_nat (a : ℤ) (n : ℕ) (q : ℕ) (m : ℤ) (_hm : 0 < m) (_hq : 0 < q)
    (ha : powmod a q m = 1 % m) : powmod a (n % q) m = powmod a n m :=
  pow_modEq_of_exp_modEq a q m ha (n % q) n (Nat.mod_mod _ _)

/-- Same with the exponent reduced in `ℤ` as Python does (`n % q` then used as exponent). -/
theorem scalar_mod_order (a : ℤ) (n : ℤ) (q : ℕ) (m : ℤ) (hm : 0 < m) (hq : 0 < q)
    (hn : 0 ≤ n) (ha : powmod a q m = 1 % m) :
    powmod a (n % q).toNat m = powmod a n.toNat m := by
  obtain ⟨k, rfl⟩ := Int.eq_ofNat_of_zero_le hn
  have : ((k : ℤ) % (q : ℤ)).toNat = k % q := by
    rw [← Int.natCast_mod]; exact Int.toNat_natCast _
  rw [this, Int.toNat_natCast]
  exact scalar_mod_order_nat a k q m hm hq ha

/-- Scalar "multiplication" in the multiplicative group: `a^(n mod q) mod m`. -/
def smul (q : ℕ) (m : ℤ) (n : ℤ) (a : ℤ) : ℤ := powmod a ((n % q).toNat) m

/-- For `n ≥ 0`, `smul n a` is Python's `pow(a, n, m)` (given `a^q ≡ 1`). -/
theorem smul_eq_powmod (q : ℕ) (m : ℤ) (hm : 0 < m) (hq : 0 < q) (n a : ℤ) (hn : 0 ≤ n)
    (ha : powmod a q m = 1 % m) : smul q m n a = powmod a n.toNat m :=
  scalar_mod_order a n q m hm hq hn ha

theorem toNat_emod_cast (n : ℤ) (q : ℕ) (hq : 0 < q) : (((n % q).toNat : ℕ) : ℤ) = n % q :=
  Int.toNat_of_nonneg (Int.emod_nonneg _ (by exact_mod_cast hq.ne'))

/-- Two naturals whose casts are congruent mod `q` in `ℤ` have the same `% q`. -/
theorem nat_mod_eq_of_int_modEq (e1 e2 : ℕ) (q : ℕ) (h : (e1 : ℤ) ≡ (e2 : ℤ) [ZMOD q]) :
    e1 % q = e2 % q :=
  Int.natCast_modEq_iff.mp h

theorem smul_range (q : ℕ) (m : ℤ) (n a : ℤ) (hm : 0 < m) :
    0 ≤ smul q m n a ∧ smul q m n a < m := powmod_range _ _ _ hm

theorem smul_add (q : ℕ) (m : ℤ) (_hm : 0 < m) (hq : 0 < q) (n1 n2 a : ℤ)
    (ha : powmod a q m = 1 % m) :
    smul q m (n1 + n2) a = (smul q m n1 a * smul q m n2 a) % m := by
  unfold smul
  have hexp : ((n1 + n2) % q).toNat % q = ((n1 % q).toNat + (n2 % q).toNat) % q := by
    apply nat_mod_eq_of_int_modEq
    push_cast
    rw [toNat_emod_cast _ _ hq, toNat_emod_cast _ _ hq, toNat_emod_cast _ _ hq]
    exact (Int.mod_modEq _ _).trans ((Int.mod_modEq _ _).symm.add (Int.mod_modEq _ _).symm)
  have h1 := pow_modEq_of_exp_modEq a q m ha _ _ hexp
  have h2 : powmod a (n1 % q).toNat m * powmod a (n2 % q).toNat m
      ≡ a ^ ((n1 % q).toNat + (n2 % q).toNat) [ZMOD m] := by
    rw [pow_add]; exact (powmod_modEq _ _ _).mul (powmod_modEq _ _ _)
  exact h1.trans h2.symm

theorem smul_mul (q : ℕ) (m : ℤ) (hm : 0 < m) (hq : 0 < q) (n1 n2 a : ℤ)
    (ha : powmod a q m = 1 % m) :
    smul q m (n1 * n2) a = smul q m n1 (smul q m n2 a) := by
  unfold smul
  rw [powmod_exp_mul _ _ _ _ hm]
  have hexp : ((n1 * n2) % q).toNat % q = ((n2 % q).toNat * (n1 % q).toNat) % q := by
    apply nat_mod_eq_of_int_modEq
    push_cast
    rw [toNat_emod_cast _ _ hq, toNat_emod_cast _ _ hq, toNat_emod_cast _ _ hq, mul_comm n1 n2]
    exact (Int.mod_modEq _ _).trans ((Int.mod_modEq _ _).symm.mul (Int.mod_modEq _ _).symm)
  exact pow_modEq_of_exp_modEq a q m ha _ _ hexp

theorem smul_mul_distrib (q : ℕ) (m : ℤ) (hm : 0 < m) (n a b : ℤ) :
    smul q m n (a * b % m) = (smul q m n a * smul q m n b) % m :=
  powmod_mul a b _ m hm

theorem smul_zero (q : ℕ) (m : ℤ) (a : ℤ) : smul q m 0 a = 1 % m := by
  simp [smul, powmod]

/-- `smul 1 a = a % m` when `q ≥ 2` (no hypothesis on `a`). -/
theorem smul_one_of_two_le (q : ℕ) (m : ℤ) (hq : 2 ≤ q) (a : ℤ) : smul q m 1 a = a % m := by
  have : ((1 : ℤ) % (q : ℤ)).toNat = 1 := by
    have : (1 : ℤ) % (q : ℤ) = 1 := Int.emod_eq_of_lt (by omega) (by omega)
    rw [this]; rfl
  simp [smul, powmod, this]

/-- `smul 1 a = a % m` for any `q > 0` when `a^q ≡ 1`. -/
theorem smul_one (q : ℕ) (m : ℤ) (hq : 0 < q) (a : ℤ) (ha : powmod a q m = 1 % m) :
    smul q m 1 a = a % m := by
  rcases Nat.lt_or_ge q 2 with h | h
  · have hq1 : q = 1 := by omega
    subst hq1
    simp only [powmod, pow_one] at ha
    simp [smul, powmod, ha]
  · exact smul_one_of_two_le q m h a

/-- Closure: the set `{a | a^q ≡ 1}` is closed under the product `a*b % m`. -/
theorem order_mul_closed (q : ℕ) (m : ℤ) (hm : 0 < m) (a b : ℤ)
    (ha : powmod a q m = 1 % m) (hb : powmod b q m = 1 % m) :
    powmod (a * b % m) q m = 1 % m := by
  rw [powmod_mul a b q m hm, ha, hb, ← Int.mul_emod]; simp

/-- Closure: the set `{a | a^q ≡ 1}` is closed under `smul`. -/
theorem order_smul_closed (q : ℕ) (m : ℤ) (hm : 0 < m) (n a : ℤ)
    (ha : powmod a q m = 1 % m) :
    powmod (smul q m n a) q m = 1 % m := by
  unfold smul
  rw [powmod_pow _ _ _ _ hm, ha, powmod_base_mod _ _ _ hm, Int.emod_emod_of_dvd _ dvd_rfl,
    ← powmod_base_mod _ _ _ hm, powmod_base_one _ _ hm]

/-- `1 % m` is in the set `{a | a^q ≡ 1}`. -/
theorem order_one_closed (q : ℕ) (m : ℤ) (hm : 0 < m) : powmod (1 % m) q m = 1 % m := by
  rw [← powmod_base_mod _ _ _ hm, powmod_base_one _ _ hm]

/-! ## Part B -/

section PartB

variable {G : Type*} [AddCommGroup G]

theorem spake2_agree (x y w : ℤ) (B M N : G) :
    x • ((y • B + w • N) + (-w) • N) = y • ((x • B + w • M) + (-w) • M) := by
  module

theorem mul_zero' (P : G) : (0 : ℤ) • P = 0 := zero_zsmul P

theorem mul_one' (P : G) : (1 : ℤ) • P = P := one_zsmul P

theorem mul_mul (m n : ℤ) (P : G) : m • (n • P) = (m * n) • P := (mul_smul m n P).symm

theorem neg_mul' (P : G) : (-1 : ℤ) • P = -P := by simp

theorem mul_add' (m n : ℤ) (P : G) : (m + n) • P = m • P + n • P := add_zsmul P m n

theorem mul_distrib' (n : ℤ) (P Q : G) : n • (P + Q) = n • P + n • Q := zsmul_add P Q n

/-- One step of double-and-add (Python: `n >> 1`, `n & 1`). The hypothesis `1 ≤ n` is not
needed; it is kept to match the schema. -/
theorem mul_step (n : ℤ) (_hn : 1 ≤ n) (P : G) :
    n • P = if n % 2 = 1 then ((n / 2) • P + (n / 2) • P) + P
            else (n / 2) • P + (n / 2) • P := by
  have h2 : n • P = (2 * (n / 2) + n % 2) • P := by rw [Int.mul_ediv_add_emod]
  split_ifs with h
  · rw [h2, h]; module
  · have h0 : n % 2 = 0 := by omega
    rw [h2, h0]; module

/-- Membership in the `L`-torsion subgroup. -/
def insub (L : ℕ) (P : G) : Prop := (L : ℤ) • P = 0

theorem mul_mod (L : ℕ) (n : ℤ) (P : G) (hP : insub L P) : (n % (L : ℤ)) • P = n • P := by
  unfold insub at hP
  have h : n • P = ((L : ℤ) * (n / L) + n % L) • P := by rw [Int.mul_ediv_add_emod]
  rw [h, add_zsmul, mul_comm, mul_zsmul, hP, zsmul_zero, zero_add]

theorem insub_zero (L : ℕ) : insub L (0 : G) := by simp [insub]

theorem insub_add (L : ℕ) (P Q : G) (hP : insub L P) (hQ : insub L Q) : insub L (P + Q) := by
  unfold insub at *; rw [zsmul_add, hP, hQ, add_zero]

theorem insub_neg (L : ℕ) (P : G) (hP : insub L P) : insub L (-P) := by
  unfold insub at *; rw [zsmul_neg, hP, neg_zero]

theorem insub_mul (L : ℕ) (n : ℤ) (P : G) (hP : insub L P) : insub L (n • P) := by
  unfold insub at *; rw [smul_comm, hP, zsmul_zero]

theorem prime_order (L : ℕ) (hL : L.Prime) (n : ℤ) (P : G) (hP : insub L P) (hne : P ≠ 0)
    (hn : n % (L : ℤ) ≠ 0) : n • P ≠ 0 := by
  intro h0
  unfold insub at hP
  have hL' : Prime (L : ℤ) := Nat.prime_iff_prime_int.mp hL
  have hcop : IsCoprime (L : ℤ) n := by
    rw [hL'.irreducible.coprime_iff_not_dvd]
    intro hd; exact hn (Int.emod_eq_zero_of_dvd hd)
  obtain ⟨u, v, huv⟩ := hcop
  apply hne
  calc P = (1 : ℤ) • P := (one_zsmul P).symm
    _ = (u * L + v * n) • P := by rw [huv]
    _ = u • ((L : ℤ) • P) + v • (n • P) := by rw [add_zsmul, mul_zsmul, mul_zsmul]
    _ = 0 := by rw [hP, h0, zsmul_zero, zsmul_zero, add_zero]

theorem neg_mul_L (L : ℕ) (P : G) (hP : insub L P) : ((L : ℤ) - 1) • P = -P := by
  unfold insub at hP
  have h : ((L : ℤ) - 1) • P = (L : ℤ) • P - P := by module
  rw [h, hP, zero_sub]

/-- Mismatch lemma: only `insub L D` is needed. -/
theorem mismatch (L : ℕ) (hL : L.Prime) (y w : ℤ) (D : G) (hD : insub L D)
    (h : (y * w) • D = 0) (hne : D ≠ 0) : y % (L : ℤ) = 0 ∨ w % (L : ℤ) = 0 := by
  by_contra hcon
  rw [not_or] at hcon
  exact prime_order L hL (y * w) D hD hne (prime_mul_nonzero y w L hL hcon.1 hcon.2) h

/-- Mismatch lemma in the form "in a group where every element satisfies `insub`". -/
theorem mismatch' (L : ℕ) (hL : L.Prime) (hall : ∀ P : G, insub L P) (y w : ℤ) (D : G)
    (h : (y * w) • D = 0) (hne : D ≠ 0) : y % (L : ℤ) = 0 ∨ w % (L : ℤ) = 0 :=
  mismatch L hL y w D (hall D) h hne

/-- `x ↦ x • G0 + C` is injective on `{0, …, L-1}` (integers). -/
theorem affine_injOn (L : ℕ) (hL : L.Prime) (G0 C : G) (hG : insub L G0) (hne : G0 ≠ 0) :
    Set.InjOn (fun x : ℤ => x • G0 + C) (Set.Ico (0 : ℤ) (L : ℤ)) := by
  intro x hx y hy hxy
  simp only [Set.mem_Ico] at hx hy
  have h1 : x • G0 = y • G0 := add_right_cancel hxy
  have h2 : (x - y) • G0 = 0 := by
    have h : (x - y) • G0 = x • G0 - y • G0 := by module
    rw [h, h1, sub_self]
  by_contra hxy'
  have hmod : (x - y) % (L : ℤ) ≠ 0 := by
    intro hm
    obtain ⟨c, hc⟩ := Int.dvd_of_emod_eq_zero hm
    have : c = 0 := by nlinarith
    subst this; omega
  exact prime_order L hL (x - y) G0 hG hne hmod h2

/-- Same, for natural-number scalars `x < L`. -/
theorem affine_inj_nat (L : ℕ) (hL : L.Prime) (G0 C : G) (hG : insub L G0) (hne : G0 ≠ 0)
    (x y : ℕ) (hx : x < L) (hy : y < L) (h : (x : ℤ) • G0 + C = (y : ℤ) • G0 + C) : x = y := by
  have := affine_injOn L hL G0 C hG hne (x₁ := (x : ℤ)) (x₂ := (y : ℤ))
    ⟨by omega, by omega⟩ ⟨by omega, by omega⟩ h
  exact_mod_cast this

end PartB

/-! ### Counting lemma for rejection sampling -/

/-- Per-head-byte statement: every residue `r < 2^k` has exactly `2^(8-k)` preimages among the
256 byte values under `h ↦ h % 2^k`. -/
theorem head_count (k : ℕ) (hk : k ≤ 8) (r : ℕ) (hr : r < 2 ^ k) :
    ((Finset.range 256).filter (fun h => h % 2 ^ k = r)).card = 2 ^ (8 - k) := by
  have hpos : 0 < 2 ^ k := by positivity
  have h256 : 256 = 2 ^ k * 2 ^ (8 - k) := by
    have : k + (8 - k) = 8 := by omega
    rw [← pow_add, this]; norm_num
  have hcount := Nat.count_modEq_card 256 hpos r
  rw [Nat.count_eq_card_filter_range] at hcount
  have hfil : (Finset.range 256).filter (fun h => h % 2 ^ k = r)
      = (Finset.range 256).filter (fun h => h ≡ r [MOD 2 ^ k]) := by
    apply Finset.filter_congr
    intro h _
    unfold Nat.ModEq
    rw [Nat.mod_eq_of_lt hr]
  rw [hfil, hcount]
  have hmod : 256 % 2 ^ k = 0 := by
    conv_lhs => rw [h256]
    exact Nat.mul_mod_right _ _
  have hdiv : 256 / 2 ^ k = 2 ^ (8 - k) := by
    conv_lhs => rw [h256]
    exact Nat.mul_div_cancel_left _ hpos
  rw [hmod, hdiv]; simp

/-- General tail size `T` (instantiate `T := 256^(n-1)`): the map
`(h, t) ↦ (h % 2^k) * T + t` on `range 256 × range T` hits every `v < 2^k * T`
exactly `2^(8-k)` times. -/
theorem block_count_gen (k : ℕ) (hk : k ≤ 8) (T : ℕ) (v : ℕ) (hv : v < 2 ^ k * T) :
    ((Finset.range 256 ×ˢ Finset.range T).filter
      (fun p => (p.1 % 2 ^ k) * T + p.2 = v)).card = 2 ^ (8 - k) := by
  have hT : 0 < T := by
    rcases Nat.eq_zero_or_pos T with h | h
    · subst h; simp at hv
    · exact h
  have hr : v / T < 2 ^ k := by
    rw [Nat.div_lt_iff_lt_mul hT]; exact hv
  have hset : (Finset.range 256 ×ˢ Finset.range T).filter
      (fun p => (p.1 % 2 ^ k) * T + p.2 = v)
      = ((Finset.range 256).filter (fun h => h % 2 ^ k = v / T)) ×ˢ ({v % T} : Finset ℕ) := by
    ext ⟨h, t⟩
    simp only [Finset.mem_filter, Finset.mem_product, Finset.mem_range, Finset.mem_singleton]
    constructor
    · rintro ⟨⟨hh, ht⟩, he⟩
      subst he
      refine ⟨⟨hh, ?_⟩, ?_⟩
      · rw [Nat.add_comm, Nat.add_mul_div_right _ _ hT, Nat.div_eq_of_lt ht, Nat.zero_add]
      · rw [Nat.add_comm, Nat.add_mul_mod_self_right, Nat.mod_eq_of_lt ht]
    · rintro ⟨⟨hh, he⟩, rfl⟩
      refine ⟨⟨hh, Nat.mod_lt _ hT⟩, ?_⟩
      rw [he]; exact Nat.div_add_mod' v T
  rw [hset, Finset.card_product, head_count k hk _ hr, Finset.card_singleton, Nat.mul_one]

/-- Counting lemma for rejection sampling, `n`-byte blocks with `n ≥ 1`. -/
theorem block_count (k : ℕ) (hk : k ≤ 8) (n : ℕ) (_hn : 1 ≤ n) (v : ℕ)
    (hv : v < 2 ^ k * 256 ^ (n - 1)) :
    ((Finset.range 256 ×ˢ Finset.range (256 ^ (n - 1))).filter
      (fun p => (p.1 % 2 ^ k) * 256 ^ (n - 1) + p.2 = v)).card = 2 ^ (8 - k) :=
  block_count_gen k hk _ v hv

end Spake2Algebra

/-! Axiom audit (printed at build time; the build script rejects `sorryAx`). -/
section Audit
open Spake2Algebra
#print axioms powmod_mul
#print axioms powmod_pow
#print axioms powmod_exp_mul
#print axioms powmod_base_one
#print axioms powmod_zero
#print axioms powmod_range
#print axioms powmod_base_mod
#print axioms fermat
#print axioms prime_ge_two
#print axioms prime_mul_nonzero
#print axioms scalar_mod_order_nat
#print axioms scalar_mod_order
#print axioms smul_eq_powmod
#print axioms Spake2Algebra.smul_add
#print axioms smul_mul
#print axioms smul_mul_distrib
#print axioms Spake2Algebra.smul_zero
#print axioms Spake2Algebra.smul_one
#print axioms smul_one_of_two_le
#print axioms order_mul_closed
#print axioms order_smul_closed
#print axioms order_one_closed
#print axioms spake2_agree
#print axioms mul_zero'
#print axioms mul_one'
#print axioms mul_mul
#print axioms neg_mul'
#print axioms mul_step
#print axioms mul_mod
#print axioms insub_zero
#print axioms insub_add
#print axioms insub_neg
#print axioms insub_mul
#print axioms prime_order
#print axioms neg_mul_L
#print axioms mismatch
#print axioms mismatch'
#print axioms affine_injOn
#print axioms affine_inj_nat
#print axioms head_count
#print axioms block_count_gen
#print axioms block_count
end Audit
