/-! # BridgeVocab.lean — Lean meaning of the z3 vocabulary that relates integer coordinate tuples to curve points (STATIC)

Concatenated after the Edwards text and before the generated statements.  z3's `ed_pt`, `ed_aff` are total uninterpreted
functions into the sort of curve points; here they are total functions into `Curve` (the subtype of `F × F` on the curve with the
group structure of EdwardsGroup.lean), returning `0` outside their intended domain. -/

open Classical in
/-- the curve point represented by the extended/projective coordinates `(X : Y : Z)` (`pt` of EdwardsProofs.lean), `0` if that pair
is not on the curve -/
noncomputable def edPt [Fact (Nat.Prime Q)] (X Y Z : ℤ) : Curve :=
  if h : OnCurve (pt X Y Z) then ⟨pt X Y Z, h⟩ else 0

open Classical in
/-- the curve point with affine coordinates `(x, y)` reduced mod Q, `0` if that pair is not on the curve -/
noncomputable def edAff [Fact (Nat.Prime Q)] (x y : ℤ) : Curve :=
  if h : OnCurve (((x : ℤ) : F), ((y : ℤ) : F)) then ⟨(((x : ℤ) : F), ((y : ℤ) : F)), h⟩ else 0

/-- the RFC 8032 base point -/
noncomputable def edB [Fact (Nat.Prime Q)] : Curve :=
  edAff 15112221349535400772501151409588531511454012693041857206046113283949847762202
        46316835694926478169428394003475163141307993866256225615783033603165251855960
