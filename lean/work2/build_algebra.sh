#!/bin/sh
# Build Algebra.lean; exit non-zero on any error, `sorry`, or non-standard axiom.
cd "$(dirname "$0")" || exit 2
LOG=$(mktemp)
START=$(date +%s)
lean Algebra.lean >"$LOG" 2>&1
RC=$?
END=$(date +%s)
cat "$LOG"
echo "lean exit code: $RC, wall time: $((END-START)) s"
FAIL=0
[ "$RC" -ne 0 ] && FAIL=1
# source-level check
if grep -nE '\b(sorry|admit|native_decide)\b|^[[:space:]]*axiom\b' Algebra.lean; then
  echo "FORBIDDEN token in source"; FAIL=1
fi
# output-level check
if grep -qE 'error|sorry|sorryAx|ofReduceBool' "$LOG"; then
  echo "error / sorry / native axiom in lean output"; FAIL=1
fi
# every axiom listed by #print axioms must be one of the three standard ones
BAD=$(grep -oE "depends on axioms: \[[^]]*\]" "$LOG" | tr -d '[]' | sed 's/depends on axioms: //' \
      | tr ',' '\n' | sed 's/ //g' | sort -u | grep -vE '^(propext|Classical\.choice|Quot\.sound)$')
if [ -n "$BAD" ]; then echo "non-standard axioms: $BAD"; FAIL=1; fi
rm -f "$LOG"
[ "$FAIL" -eq 0 ] && echo "ALGEBRA BUILD OK" || echo "ALGEBRA BUILD FAILED"
exit $FAIL
