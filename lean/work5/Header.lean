import Mathlib.NumberTheory.LegendreSymbol.Basic
import Mathlib.Tactic
set_option autoImplicit false
set_option linter.style.nameCheck false
set_option linter.unusedVariables false
set_option linter.unusedSimpArgs false
set_option linter.unusedTactic false
set_option linter.unreachableTactic false
