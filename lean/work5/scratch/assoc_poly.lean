/-- the x-coordinate associativity numerator lies in the ideal of the three curve equations
(cofactors found by scratch/cert.py) -/
theorem assoc_poly_x {d x1 y1 x2 y2 x3 y3 : K}
    (h1 : -x1^2 + y1^2 = 1 + d*x1^2*y1^2)
    (h2 : -x2^2 + y2^2 = 1 + d*x2^2*y2^2)
    (h3 : -x3^2 + y3^2 = 1 + d*x3^2*y3^2) :
    ((x1*y2 + x2*y1)*y3*(1 - d*x1*x2*y1*y2) + x3*(y1*y2 + x1*x2)*(1 + d*x1*x2*y1*y2))
        * ((1 + d*x2*x3*y2*y3)*(1 - d*x2*x3*y2*y3) + d*x1*y1*(x2*y3 + x3*y2)*(y2*y3 + x2*x3))
      - (x1*(y2*y3 + x2*x3)*(1 + d*x2*x3*y2*y3) + (x2*y3 + x3*y2)*y1*(1 - d*x2*x3*y2*y3))
        * ((1 + d*x1*x2*y1*y2)*(1 - d*x1*x2*y1*y2) + d*x3*y3*(x1*y2 + x2*y1)*(y1*y2 + x1*x2)) = 0 := by
  linear_combination (exp := 1)
    (- d^2*x1*x2^4*y2^3*x3^2*y3 - d^2*x1*x2^3*y2^4*x3*y3^2 + d^2*y1*x2^4*y2^3*x3*y3^2 +
      d^2*y1*x2^3*y2^4*x3^2*y3 - d*x1*x2^4*y2*x3^2*y3 - d*x1*x2^3*y2^2*x3^3 - d*x1*x2^3*y2^2*x3 +
      d*x1*x2^2*y2^3*y3^3 - d*x1*x2^2*y2^3*y3 + d*x1*x2*y2^4*x3*y3^2 + d*y1*x2^4*y2*x3*y3^2 +
      d*y1*x2^3*y2^2*y3^3 - d*y1*x2^3*y2^2*y3 - d*y1*x2^2*y2^3*x3^3 - d*y1*x2^2*y2^3*x3 -
      d*y1*x2*y2^4*x3^2*y3) * h1
    + (d^2*x1^2*y1*x2^2*y2*x3^3*y3^2 - d^2*x1^2*y1*x2*y2^2*x3^2*y3^3 - d^2*x1*y1^2*x2^2*y2*x3^2*y3^3 +
      d^2*x1*y1^2*x2*y2^2*x3^3*y3^2 + d*x1^3*x2^2*y2*x3^2*y3 + d*x1^3*x2*y2^2*x3*y3^2 +
      d*x1^3*x2*x3^3*y3^2 + d*x1^3*y2*x3^2*y3^3 - d*x1^2*y1*x2^2*y2*x3*y3^2 -
      d*x1^2*y1*x2*y2^2*x3^2*y3 + d*x1^2*y1*x2*x3^2*y3^3 + d*x1^2*y1*y2*x3^3*y3^2 -
      d*x1*y1^2*x2^2*y2*x3^2*y3 - d*x1*y1^2*x2*y2^2*x3*y3^2 - d*x1*y1^2*x2*x3^3*y3^2 -
      d*x1*y1^2*y2*x3^2*y3^3 + d*x1*x2^2*y2*x3^2*y3 + d*x1*x2*y2^2*x3*y3^2 + d*x1*x2*x3^3*y3^2 +
      d*x1*y2*x3^2*y3^3 + d*y1^3*x2^2*y2*x3*y3^2 + d*y1^3*x2*y2^2*x3^2*y3 - d*y1^3*x2*x3^2*y3^3 -
      d*y1^3*y2*x3^3*y3^2 - d*y1*x2^2*y2*x3*y3^2 - d*y1*x2*y2^2*x3^2*y3 + d*y1*x2*x3^2*y3^3 +
      d*y1*y2*x3^3*y3^2 + x1^3*x2*x3^3 - x1^3*x2*x3*y3^2 + x1^3*x2*x3 + x1^3*y2*x3^2*y3 - x1^3*y2*y3^3
      + x1^3*y2*y3 + x1^2*y1*x2*x3^2*y3 - x1^2*y1*x2*y3^3 + x1^2*y1*x2*y3 + x1^2*y1*y2*x3^3 -
      x1^2*y1*y2*x3*y3^2 + x1^2*y1*y2*x3 - x1*y1^2*x2*x3^3 + x1*y1^2*x2*x3*y3^2 - x1*y1^2*x2*x3 -
      x1*y1^2*y2*x3^2*y3 + x1*y1^2*y2*y3^3 - x1*y1^2*y2*y3 + x1*x2*x3^3 - x1*x2*x3*y3^2 + x1*x2*x3 +
      x1*y2*x3^2*y3 - x1*y2*y3^3 + x1*y2*y3 - y1^3*x2*x3^2*y3 + y1^3*x2*y3^3 - y1^3*x2*y3 -
      y1^3*y2*x3^3 + y1^3*y2*x3*y3^2 - y1^3*y2*x3 + y1*x2*x3^2*y3 - y1*x2*y3^3 + y1*x2*y3 + y1*y2*x3^3
      - y1*y2*x3*y3^2 + y1*y2*x3) * h2
    + (- d*x1^2*y1*x2^2*y2*x3 + d*x1^2*y1*x2*y2^2*y3 + d*x1*y1^2*x2^2*y2*y3 - d*x1*y1^2*x2*y2^2*x3 -
      x1^3*x2^3*x3 - x1^3*x2^2*y2*y3 + x1^3*x2*y2^2*x3 - x1^3*x2*x3 + x1^3*y2^3*y3 - x1^3*y2*y3 -
      x1^2*y1*x2^3*y3 - x1^2*y1*x2^2*y2*x3 + x1^2*y1*x2*y2^2*y3 - x1^2*y1*x2*y3 + x1^2*y1*y2^3*x3 -
      x1^2*y1*y2*x3 + x1*y1^2*x2^3*x3 + x1*y1^2*x2^2*y2*y3 - x1*y1^2*x2*y2^2*x3 + x1*y1^2*x2*x3 -
      x1*y1^2*y2^3*y3 + x1*y1^2*y2*y3 - x1*x2^3*x3 - x1*x2^2*y2*y3 + x1*x2*y2^2*x3 - x1*x2*x3 +
      x1*y2^3*y3 - x1*y2*y3 + y1^3*x2^3*y3 + y1^3*x2^2*y2*x3 - y1^3*x2*y2^2*y3 + y1^3*x2*y3 -
      y1^3*y2^3*x3 + y1^3*y2*x3 - y1*x2^3*y3 - y1*x2^2*y2*x3 + y1*x2*y2^2*y3 - y1*x2*y3 + y1*y2^3*x3 -
      y1*y2*x3) * h3

/-- the y-coordinate associativity numerator lies in the ideal of the three curve equations
(cofactors found by scratch/cert.py) -/
theorem assoc_poly_y {d x1 y1 x2 y2 x3 y3 : K}
    (h1 : -x1^2 + y1^2 = 1 + d*x1^2*y1^2)
    (h2 : -x2^2 + y2^2 = 1 + d*x2^2*y2^2)
    (h3 : -x3^2 + y3^2 = 1 + d*x3^2*y3^2) :
    ((y1*y2 + x1*x2)*y3*(1 + d*x1*x2*y1*y2) + (x1*y2 + x2*y1)*x3*(1 - d*x1*x2*y1*y2))
        * ((1 + d*x2*x3*y2*y3)*(1 - d*x2*x3*y2*y3) - d*x1*y1*(x2*y3 + x3*y2)*(y2*y3 + x2*x3))
      - (y1*(y2*y3 + x2*x3)*(1 + d*x2*x3*y2*y3) + x1*(x2*y3 + x3*y2)*(1 - d*x2*x3*y2*y3))
        * ((1 + d*x1*x2*y1*y2)*(1 - d*x1*x2*y1*y2) - d*x3*y3*(x1*y2 + x2*y1)*(y1*y2 + x1*x2)) = 0 := by
  linear_combination (exp := 1)
    (d^2*x1*x2^4*y2^3*x3*y3^2 + d^2*x1*x2^3*y2^4*x3^2*y3 - d^2*y1*x2^4*y2^3*x3^2*y3 -
      d^2*y1*x2^3*y2^4*x3*y3^2 + d*x1*x2^4*y2*x3*y3^2 + d*x1*x2^3*y2^2*y3^3 - d*x1*x2^3*y2^2*y3 -
      d*x1*x2^2*y2^3*x3^3 - d*x1*x2^2*y2^3*x3 - d*x1*x2*y2^4*x3^2*y3 - d*y1*x2^4*y2*x3^2*y3 -
      d*y1*x2^3*y2^2*x3^3 - d*y1*x2^3*y2^2*x3 + d*y1*x2^2*y2^3*y3^3 - d*y1*x2^2*y2^3*y3 +
      d*y1*x2*y2^4*x3*y3^2) * h1
    + (d^2*x1^2*y1*x2^2*y2*x3^2*y3^3 - d^2*x1^2*y1*x2*y2^2*x3^3*y3^2 - d^2*x1*y1^2*x2^2*y2*x3^3*y3^2 +
      d^2*x1*y1^2*x2*y2^2*x3^2*y3^3 - d*x1^3*x2^2*y2*x3*y3^2 - d*x1^3*x2*y2^2*x3^2*y3 +
      d*x1^3*x2*x3^2*y3^3 + d*x1^3*y2*x3^3*y3^2 + d*x1^2*y1*x2^2*y2*x3^2*y3 +
      d*x1^2*y1*x2*y2^2*x3*y3^2 + d*x1^2*y1*x2*x3^3*y3^2 + d*x1^2*y1*y2*x3^2*y3^3 +
      d*x1*y1^2*x2^2*y2*x3*y3^2 + d*x1*y1^2*x2*y2^2*x3^2*y3 - d*x1*y1^2*x2*x3^2*y3^3 -
      d*x1*y1^2*y2*x3^3*y3^2 - d*x1*x2^2*y2*x3*y3^2 - d*x1*x2*y2^2*x3^2*y3 + d*x1*x2*x3^2*y3^3 +
      d*x1*y2*x3^3*y3^2 - d*y1^3*x2^2*y2*x3^2*y3 - d*y1^3*x2*y2^2*x3*y3^2 - d*y1^3*x2*x3^3*y3^2 -
      d*y1^3*y2*x3^2*y3^3 + d*y1*x2^2*y2*x3^2*y3 + d*y1*x2*y2^2*x3*y3^2 + d*y1*x2*x3^3*y3^2 +
      d*y1*y2*x3^2*y3^3 + x1^3*x2*x3^2*y3 - x1^3*x2*y3^3 + x1^3*x2*y3 + x1^3*y2*x3^3 - x1^3*y2*x3*y3^2
      + x1^3*y2*x3 + x1^2*y1*x2*x3^3 - x1^2*y1*x2*x3*y3^2 + x1^2*y1*x2*x3 + x1^2*y1*y2*x3^2*y3 -
      x1^2*y1*y2*y3^3 + x1^2*y1*y2*y3 - x1*y1^2*x2*x3^2*y3 + x1*y1^2*x2*y3^3 - x1*y1^2*x2*y3 -
      x1*y1^2*y2*x3^3 + x1*y1^2*y2*x3*y3^2 - x1*y1^2*y2*x3 + x1*x2*x3^2*y3 - x1*x2*y3^3 + x1*x2*y3 +
      x1*y2*x3^3 - x1*y2*x3*y3^2 + x1*y2*x3 - y1^3*x2*x3^3 + y1^3*x2*x3*y3^2 - y1^3*x2*x3 -
      y1^3*y2*x3^2*y3 + y1^3*y2*y3^3 - y1^3*y2*y3 + y1*x2*x3^3 - y1*x2*x3*y3^2 + y1*x2*x3 +
      y1*y2*x3^2*y3 - y1*y2*y3^3 + y1*y2*y3) * h2
    + (- d*x1^2*y1*x2^2*y2*y3 + d*x1^2*y1*x2*y2^2*x3 + d*x1*y1^2*x2^2*y2*x3 - d*x1*y1^2*x2*y2^2*y3 -
      x1^3*x2^3*y3 - x1^3*x2^2*y2*x3 + x1^3*x2*y2^2*y3 - x1^3*x2*y3 + x1^3*y2^3*x3 - x1^3*y2*x3 -
      x1^2*y1*x2^3*x3 - x1^2*y1*x2^2*y2*y3 + x1^2*y1*x2*y2^2*x3 - x1^2*y1*x2*x3 + x1^2*y1*y2^3*y3 -
      x1^2*y1*y2*y3 + x1*y1^2*x2^3*y3 + x1*y1^2*x2^2*y2*x3 - x1*y1^2*x2*y2^2*y3 + x1*y1^2*x2*y3 -
      x1*y1^2*y2^3*x3 + x1*y1^2*y2*x3 - x1*x2^3*y3 - x1*x2^2*y2*x3 + x1*x2*y2^2*y3 - x1*x2*y3 +
      x1*y2^3*x3 - x1*y2*x3 + y1^3*x2^3*x3 + y1^3*x2^2*y2*y3 - y1^3*x2*y2^2*x3 + y1^3*x2*x3 -
      y1^3*y2^3*y3 + y1^3*y2*y3 - y1*x2^3*x3 - y1*x2^2*y2*y3 + y1*x2*y2^2*x3 - y1*x2*x3 + y1*y2^3*y3 -
      y1*y2*y3) * h3
