#!/usr/bin/env python3-vt
# emits the two polynomial-identity lemmas (assoc_poly_x / assoc_poly_y) with their certificates
import textwrap
def wrap(s, ind):
    return ('\n' + ' '*ind).join(textwrap.wrap(s, 96, break_long_words=False))
GX = """((x1*y2 + x2*y1)*y3*(1 - d*x1*x2*y1*y2) + x3*(y1*y2 + x1*x2)*(1 + d*x1*x2*y1*y2))
        * ((1 + d*x2*x3*y2*y3)*(1 - d*x2*x3*y2*y3) + d*x1*y1*(x2*y3 + x3*y2)*(y2*y3 + x2*x3))
      - (x1*(y2*y3 + x2*x3)*(1 + d*x2*x3*y2*y3) + (x2*y3 + x3*y2)*y1*(1 - d*x2*x3*y2*y3))
        * ((1 + d*x1*x2*y1*y2)*(1 - d*x1*x2*y1*y2) + d*x3*y3*(x1*y2 + x2*y1)*(y1*y2 + x1*x2)) = 0"""
GY = """((y1*y2 + x1*x2)*y3*(1 + d*x1*x2*y1*y2) + (x1*y2 + x2*y1)*x3*(1 - d*x1*x2*y1*y2))
        * ((1 + d*x2*x3*y2*y3)*(1 - d*x2*x3*y2*y3) - d*x1*y1*(x2*y3 + x3*y2)*(y2*y3 + x2*x3))
      - (y1*(y2*y3 + x2*x3)*(1 + d*x2*x3*y2*y3) + x1*(x2*y3 + x3*y2)*(1 - d*x2*x3*y2*y3))
        * ((1 + d*x1*x2*y1*y2)*(1 - d*x1*x2*y1*y2) - d*x3*y3*(x1*y2 + x2*y1)*(y1*y2 + x1*x2)) = 0"""
out = []
for nm, G in (('x', GX), ('y', GY)):
    L = open('assoc_%s.txt' % nm).read().split('\n')
    assert L[0] == '0'
    c = L[1:4]
    out.append(f"""/-- the {nm}-coordinate associativity numerator lies in the ideal of the three curve equations
(cofactors found by scratch/cert.py) -/
theorem assoc_poly_{nm} {{d x1 y1 x2 y2 x3 y3 : K}}
    (h1 : -x1^2 + y1^2 = 1 + d*x1^2*y1^2)
    (h2 : -x2^2 + y2^2 = 1 + d*x2^2*y2^2)
    (h3 : -x3^2 + y3^2 = 1 + d*x3^2*y3^2) :
    {G} := by
  linear_combination (exp := 1)
    ({wrap(c[0], 6)}) * h1
    + ({wrap(c[1], 6)}) * h2
    + ({wrap(c[2], 6)}) * h3
""")
open('assoc_poly.lean', 'w').write('\n'.join(out))
