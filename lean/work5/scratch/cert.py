#!/usr/bin/env python3-vt
# Certificate search for associativity of the a=-1 twisted Edwards law.
# Writes assoc_x.txt / assoc_y.txt : k, c1, c2, c3 with  d^k * g = c1*C1 + c2*C2 + c3*C3,
# C_i = -x_i^2 + y_i^2 - 1 - d x_i^2 y_i^2.
import sys, time
from sympy import symbols, Poly, expand, ZZ
d, x1, y1, x2, y2, x3, y3 = symbols('d x1 y1 x2 y2 x3 y3')
gens = (d, x1, y1, x2, y2, x3, y3)
names = ['d', 'x1', 'y1', 'x2', 'y2', 'x3', 'y3']

def polys():
    D12p = 1 + d*x1*x2*y1*y2; D12m = 1 - d*x1*x2*y1*y2
    D23p = 1 + d*x2*x3*y2*y3; D23m = 1 - d*x2*x3*y2*y3
    N12x = x1*y2 + x2*y1; N12y = y1*y2 + x1*x2
    N23x = x2*y3 + x3*y2; N23y = y2*y3 + x2*x3
    # (P1+P2)+P3 : x = (x12 y3 + x3 y12)/(1 + d x12 x3 y12 y3), x12 = N12x/D12p, y12 = N12y/D12m
    # numerators / denominators after clearing D12p*D12m
    LXn = N12x*y3*D12m + x3*N12y*D12p          # over D12p*D12m
    LXd = D12p*D12m + d*x3*y3*N12x*N12y        # over D12p*D12m
    LYn = N12y*y3*D12p + N12x*x3*D12m
    LYd = D12p*D12m - d*x3*y3*N12x*N12y
    RXn = x1*N23y*D23p + N23x*y1*D23m
    RXd = D23p*D23m + d*x1*y1*N23x*N23y
    RYn = y1*N23y*D23p + x1*N23x*D23m
    RYd = D23p*D23m - d*x1*y1*N23x*N23y
    gx = LXn*RXd - RXn*LXd
    gy = LYn*RYd - RYn*LYd
    return gx, gy

def to_dict(e):
    return dict(Poly(expand(e), *gens, domain=ZZ).terms())

def reduce(g):
    """g: dict monomial(7-tuple)->int. Laurent in d allowed. returns cofactors c[0..2] (dicts)"""
    from fractions import Fraction
    work = dict(g)
    c = [dict(), dict(), dict()]
    rem = {}
    # process monomials by descending total degree in x,y
    import heapq
    def add(dct, m, v):
        nv = dct.get(m, 0) + v
        if nv == 0:
            dct.pop(m, None)
        else:
            dct[m] = nv
    steps = 0
    while work:
        # pick monomial of max xy-degree
        m = max(work, key=lambda t: (sum(t[1:]), t))
        v = work.pop(m)
        for i in range(3):
            ex, ey = m[1+2*i], m[2+2*i]
            if ex >= 2 and ey >= 2:
                mp = list(m); mp[1+2*i] -= 2; mp[2+2*i] -= 2; mp[0] -= 1  # m = mp * d x^2 y^2
                mp = tuple(mp)
                # d x^2y^2 = -C_i + y^2 - x^2 - 1
                add(c[i], mp, -v)
                a = list(mp); a[2+2*i] += 2; add(work, tuple(a), v)
                a = list(mp); a[1+2*i] += 2; add(work, tuple(a), -v)
                add(work, mp, -v)
                steps += 1
                break
        else:
            add(rem, m, v)
    return c, rem, steps

def fmt(dct, shift):
    if not dct:
        return '0'
    out = []
    for m in sorted(dct, reverse=True):
        v = dct[m]
        mm = list(m); mm[0] += shift
        assert mm[0] >= 0
        fs = []
        for n, e in zip(names, mm):
            if e == 1: fs.append(n)
            elif e > 1: fs.append('%s^%d' % (n, e))
        av = abs(v)
        if not fs:
            s = str(av)
        elif av == 1:
            s = '*'.join(fs)
        else:
            s = str(av) + '*' + '*'.join(fs)
        out.append(('- ' if v < 0 else '+ ') + s)
    return ' '.join(out).lstrip('+ ')

if __name__ == '__main__':
    t = time.time()
    gx, gy = polys()
    for nm, g in (('x', gx), ('y', gy)):
        gd = to_dict(g)
        print(nm, 'terms', len(gd), 'deg', max(sum(m) for m in gd), time.time()-t)
        c, rem, steps = reduce(gd)
        print(' steps', steps, 'rem terms', len(rem), 'cof terms', [len(q) for q in c], time.time()-t)
        k = -min([m[0] for q in c for m in q] + [0])
        print(' k =', k)
        with open('/verif/lean/work5/scratch/assoc_%s.txt' % nm, 'w') as f:
            f.write('%d\n' % k)
            for q in c:
                f.write(fmt(q, k) + '\n')
