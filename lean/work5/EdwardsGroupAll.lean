import Mathlib.NumberTheory.LegendreSymbol.Basic
import Mathlib.Tactic
set_option autoImplicit false
set_option linter.style.nameCheck false
set_option linter.unusedVariables false
set_option linter.unusedSimpArgs false
set_option linter.unusedTactic false
set_option linter.unreachableTactic false
-- GENERATED on every run from src/spake2/ed25519_basic.py by pyvc/leangen.py; do not edit
def Q : ℕ := 2^255 - 19
def spake_d : ℤ := (-4513249062541557337682894930092624173785641285191125241628941591882900924598840740 : ℤ)
def spake_I : ℤ := (19681161376707505956807079304988542015446066515923890162744021073123829784752 : ℤ)

def spake_inv (x : ℤ) : ℤ :=
  ((x ^ (((Q : ℤ) - (2 : ℤ))).toNat) % (Q : ℤ))

def spake_xrecover (y : ℤ) : ℤ :=
  let xx := (((y * y) - (1 : ℤ)) * (spake_inv (((spake_d * y) * y) + (1 : ℤ))))
  let x := ((xx ^ ((((Q : ℤ) + (3 : ℤ)) / (8 : ℤ))).toNat) % (Q : ℤ))
  let x := (if ((((x * x) - xx) % (Q : ℤ)) ≠ (0 : ℤ)) then ((x * spake_I) % (Q : ℤ)) else x)
  let x := (if ((x % (2 : ℤ)) ≠ (0 : ℤ)) then ((Q : ℤ) - x) else x)
  x

def spake_double_element (X1 Y1 Z1 _u_3 : ℤ) : ℤ × ℤ × ℤ × ℤ :=
  let A := (X1 * X1)
  let B := (Y1 * Y1)
  let C := (((2 : ℤ) * Z1) * Z1)
  let D := ((-A) % (Q : ℤ))
  let J := ((X1 + Y1) % (Q : ℤ))
  let E := ((((J * J) - A) - B) % (Q : ℤ))
  let G := ((D + B) % (Q : ℤ))
  let F := ((G - C) % (Q : ℤ))
  let H := ((D - B) % (Q : ℤ))
  let X3 := ((E * F) % (Q : ℤ))
  let Y3 := ((G * H) % (Q : ℤ))
  let Z3 := ((F * G) % (Q : ℤ))
  let T3 := ((E * H) % (Q : ℤ))
  (X3, Y3, Z3, T3)

def spake_add_elements (X1 Y1 Z1 T1 X2 Y2 Z2 T2 : ℤ) : ℤ × ℤ × ℤ × ℤ :=
  let A := (((Y1 - X1) * (Y2 - X2)) % (Q : ℤ))
  let B := (((Y1 + X1) * (Y2 + X2)) % (Q : ℤ))
  let C := (((T1 * ((2 : ℤ) * spake_d)) * T2) % (Q : ℤ))
  let D := (((Z1 * (2 : ℤ)) * Z2) % (Q : ℤ))
  let E := ((B - A) % (Q : ℤ))
  let F := ((D - C) % (Q : ℤ))
  let G := ((D + C) % (Q : ℤ))
  let H := ((B + A) % (Q : ℤ))
  let X3 := ((E * F) % (Q : ℤ))
  let Y3 := ((G * H) % (Q : ℤ))
  let T3 := ((E * H) % (Q : ℤ))
  let Z3 := ((F * G) % (Q : ℤ))
  (X3, Y3, Z3, T3)

def spake__add_elements_nonunfied (X1 Y1 Z1 T1 X2 Y2 Z2 T2 : ℤ) : ℤ × ℤ × ℤ × ℤ :=
  let A := (((Y1 - X1) * (Y2 + X2)) % (Q : ℤ))
  let B := (((Y1 + X1) * (Y2 - X2)) % (Q : ℤ))
  let C := (((Z1 * (2 : ℤ)) * T2) % (Q : ℤ))
  let D := (((T1 * (2 : ℤ)) * Z2) % (Q : ℤ))
  let E := ((D + C) % (Q : ℤ))
  let F := ((B - A) % (Q : ℤ))
  let G := ((B + A) % (Q : ℤ))
  let H := ((D - C) % (Q : ℤ))
  let X3 := ((E * F) % (Q : ℤ))
  let Y3 := ((G * H) % (Q : ℤ))
  let Z3 := ((F * G) % (Q : ℤ))
  let T3 := ((E * H) % (Q : ℤ))
  (X3, Y3, Z3, T3)

def spake_xform_affine_to_extended (x y : ℤ) : ℤ × ℤ × ℤ × ℤ :=
  ((x % (Q : ℤ)), (y % (Q : ℤ)), (1 : ℤ), ((x * y) % (Q : ℤ)))

def spake_xform_extended_to_affine (x y z _u_3 : ℤ) : ℤ × ℤ :=
  (((x * (spake_inv z)) % (Q : ℤ)), ((y * (spake_inv z)) % (Q : ℤ)))

def spake_is_extended_zero (X Y Z T : ℤ) : Prop :=
  let Y := (Y % (Q : ℤ))
  let Z := (Z % (Q : ℤ))
  ((X = (0 : ℤ)) ∧ (Y = Z) ∧ (Y ≠ (0 : ℤ)))

def spake_isoncurve (P_0 P_1 : ℤ) : Prop :=
  let x := P_0
  let y := P_1
  (((((((-x) * x) + (y * y)) - (1 : ℤ)) - ((((spake_d * x) * x) * y) * y)) % (Q : ℤ)) = (0 : ℤ))

/-!
# EdwardsProofs.lean — hand-written proofs about the generated int-level mirrors

This file is concatenated AFTER `Header.lean` (imports/options) and `Generated.lean`
(definitions `Q`, `spake_d`, `spake_I`, `spake_*` mirrors of ed25519_basic.py) by
`build_edwards.sh`.  Every theorem about a generated function is proved by unfolding
the definition, pushing casts into `ZMod Q`, and comparing the RESULT polynomials
with `ring`; no step depends on the shape of the intermediate `let`s.

No placeholders, no added axioms, no compiler-trusting decision procedures
(the build script greps for them and audits `#print axioms`).  Primality of `Q` is a hypothesis
(`[Fact (Nat.Prime Q)]`), discharged elsewhere by a Pratt certificate.
-/
/-! # Part 0: number-theoretic facts about the literals -/

/-- the base field -/
abbrev F : Type := ZMod Q

/-- square-and-multiply, fuel-bounded (structural on the fuel) so the kernel can evaluate it -/
def powMod (m : ℕ) : ℕ → ℕ → ℕ → ℕ
  | 0, _, _ => 1 % m
  | fuel + 1, b, e =>
    if e = 0 then 1 % m
    else
      let h := powMod m fuel (b * b % m) (e / 2)
      if e % 2 = 1 then (b * h) % m else h

theorem powMod_eq (m : ℕ) : ∀ (fuel b e : ℕ), e < 2 ^ fuel → powMod m fuel b e = b ^ e % m := by
  intro fuel
  induction fuel with
  | zero =>
    intro b e he
    have : e = 0 := by simpa using he
    subst this; simp [powMod]
  | succ n ih =>
    intro b e he
    unfold powMod
    by_cases h0 : e = 0
    · subst h0; simp
    · rw [if_neg h0]
      have hlt : e / 2 < 2 ^ n := by
        rw [pow_succ] at he; omega
      have hrec := ih (b * b % m) (e / 2) hlt
      simp only [hrec]
      have hpow : (b * b % m) ^ (e / 2) % m = (b * b) ^ (e / 2) % m := by
        rw [Nat.pow_mod, Nat.mod_mod, ← Nat.pow_mod]
      rw [hpow]
      by_cases h1 : e % 2 = 1
      · rw [if_pos h1]
        have he2 : b ^ e = b * (b * b) ^ (e / 2) := by
          conv_lhs => rw [show e = 2 * (e / 2) + 1 by omega]
          ring
        rw [he2, Nat.mul_mod_mod]
      · rw [if_neg h1]
        have he2 : b ^ e = (b * b) ^ (e / 2) := by
          conv_lhs => rw [show e = 2 * (e / 2) by omega]
          ring
        rw [he2]

theorem Q_pos : 0 < Q := by decide +kernel
theorem Q_gt_two : 2 < Q := by decide +kernel

/-- `spake_d` reduced mod `Q`, as a natural number -/
def dNat : ℕ := (spake_d % (Q : ℤ)).toNat

theorem dNat_cast : ((dNat : ℕ) : ℤ) = spake_d % (Q : ℤ) := by
  unfold dNat
  exact Int.toNat_of_nonneg (Int.emod_nonneg _ (by exact_mod_cast Q_pos.ne'))

theorem d_euler_nat : powMod Q 256 dNat (Q / 2) = Q - 1 := by decide +kernel
theorem Q_half_lt : Q / 2 < 2 ^ 256 := by decide +kernel
theorem I_sq_int : (spake_I ^ 2 + 1) % (Q : ℤ) = 0 := by decide +kernel
theorem d_times_int : (spake_d * 121666 + 121665) % (Q : ℤ) = 0 := by decide +kernel

section FieldFacts
variable [Fact (Nat.Prime Q)]

/-- the curve constant in the field -/
def dF : F := ((spake_d : ℤ) : F)
/-- a square root of −1 -/
def iF : F := ((spake_I : ℤ) : F)

theorem F_two_ne_zero : (2 : F) ≠ 0 := by
  intro h
  have h' : ((2 : ℕ) : F) = 0 := by exact_mod_cast h
  rw [ZMod.natCast_eq_zero_iff] at h'
  exact absurd (Nat.le_of_dvd (by norm_num) h') (not_le.mpr Q_gt_two)

theorem I_sq : ((spake_I : ℤ) : F) ^ 2 = -1 := by
  have h : (((spake_I ^ 2 + 1) % (Q : ℤ) : ℤ) : F) = ((0 : ℤ) : F) := by rw [I_sq_int]
  rw [ZMod.intCast_mod] at h
  push_cast at h
  linear_combination h

theorem d_times : dF * 121666 = -121665 := by
  have h : (((spake_d * 121666 + 121665) % (Q : ℤ) : ℤ) : F) = ((0 : ℤ) : F) := by rw [d_times_int]
  rw [ZMod.intCast_mod] at h
  push_cast at h
  unfold dF
  linear_combination h

theorem dF_eq_dNat : dF = ((dNat : ℕ) : F) := by
  have : (((dNat : ℕ) : ℤ) : F) = dF := by rw [dNat_cast, ZMod.intCast_mod]; rfl
  rw [← this]; push_cast; rfl

theorem d_euler : dF ^ (Q / 2) = -1 := by
  have h := powMod_eq Q 256 dNat (Q / 2) Q_half_lt
  rw [d_euler_nat] at h
  have h2 : (((dNat ^ (Q / 2) % Q : ℕ)) : F) = ((Q - 1 : ℕ) : F) := by rw [← h]
  rw [ZMod.natCast_mod, Nat.cast_pow, ← dF_eq_dNat] at h2
  rw [h2, Nat.cast_sub (Nat.one_le_of_lt Q_gt_two), ZMod.natCast_self]
  simp

theorem d_nonsquare : ∀ r : F, r * r ≠ dF := by
  intro r hr
  have hd0 : dF ≠ 0 := by
    intro h0
    have := d_euler
    rw [h0, zero_pow (by decide +kernel : Q / 2 ≠ 0)] at this
    exact absurd this.symm (by simp)
  have hsq : IsSquare dF := ⟨r, hr.symm⟩
  have h1 := (ZMod.euler_criterion Q hd0).mp hsq
  rw [d_euler] at h1
  apply F_two_ne_zero
  linear_combination -h1

end FieldFacts

/-! # Part 1: algebra of the a = −1 twisted Edwards law over an arbitrary field -/
section Generic
variable {K : Type*} [Field K]

/-- DESIGN.md Appendix A.1: `e = d·x1·x2·y1·y2` cannot satisfy `e² = 1` on curve points. -/
theorem edwards_complete_core (d i x1 y1 x2 y2 : K)
    (h2ne : (2:K) ≠ 0)
    (hi : i*i = -1) (hd : ∀ r : K, r*r ≠ d)
    (h1 : -(x1*x1) + y1*y1 = 1 + d*x1*x1*y1*y1)
    (h2 : -(x2*x2) + y2*y2 = 1 + d*x2*x2*y2*y2)
    (e : K) (he : e = d*x1*x2*y1*y2) (hee : e*e = 1) : False := by
  have hx1 : x1 ≠ 0 := by
    rintro rfl; simp at he; subst he; simp at hee
  have hy1 : y1 ≠ 0 := by
    rintro rfl; simp at he; subst he; simp at hee
  have key (s : K) (hs : s*s = 1) :
      (i*x1 + s*e*y1)^2 = d*x1^2*y1^2*(i*x2 + s*y2)^2 := by
    have h3 : d*x1^2*y1^2*(-(x2*x2) + y2*y2) = -(x1*x1) + y1*y1 := by
      rw [h2, h1]
      have : d*x1^2*y1^2*(d*x2*x2*y2*y2) = e*e := by rw [he]; ring
      linear_combination this + hee
    have hi2 : i^2 = -1 := by rw [pow_two]; exact hi
    have hs2 : s^2 = 1 := by rw [pow_two]; exact hs
    have he2 : e^2 = 1 := by rw [pow_two]; exact hee
    linear_combination (x1^2 - d*x1^2*y1^2*x2^2) * hi2 + (y1^2*e^2 - d*x1^2*y1^2*y2^2) * hs2
      + y1^2 * he2 - h3 + (2*i*x1*s*y1) * he
  have hp := key 1 (by ring)
  have hm := key (-1) (by ring)
  by_cases hz : i*x2 + 1*y2 = 0
  · by_cases hz' : i*x2 + (-1)*y2 = 0
    · have hy2 : y2 = 0 := by
        have : (2:K)*y2 = 0 := by linear_combination hz - hz'
        rcases mul_eq_zero.mp this with h | h
        · exact absurd h h2ne
        · exact h
      subst hy2; simp at he; subst he; simp at hee
    · apply hd ((i*x1 + (-1)*e*y1) / (x1*y1*(i*x2 + (-1)*y2)))
      have hne : x1*y1*(i*x2 + (-1)*y2) ≠ 0 := mul_ne_zero (mul_ne_zero hx1 hy1) hz'
      rw [div_mul_div_comm, div_eq_iff (mul_ne_zero hne hne)]
      linear_combination hm
  · apply hd ((i*x1 + 1*e*y1) / (x1*y1*(i*x2 + 1*y2)))
    have hne : x1*y1*(i*x2 + 1*y2) ≠ 0 := mul_ne_zero (mul_ne_zero hx1 hy1) hz
    rw [div_mul_div_comm, div_eq_iff (mul_ne_zero hne hne)]
    linear_combination hp

/-- The hypotheses on the field constants, bundled. -/
structure CurveConsts (d i : K) : Prop where
  two_ne : (2:K) ≠ 0
  i_sq : i*i = -1
  d_nsq : ∀ r : K, r*r ≠ d

theorem complete_generic {d i : K} (hc : CurveConsts d i) {x1 y1 x2 y2 : K}
    (h1 : -x1^2 + y1^2 = 1 + d*x1^2*y1^2)
    (h2 : -x2^2 + y2^2 = 1 + d*x2^2*y2^2) :
    1 + d*x1*x2*y1*y2 ≠ 0 ∧ 1 - d*x1*x2*y1*y2 ≠ 0 := by
  have h1' : -(x1*x1) + y1*y1 = 1 + d*x1*x1*y1*y1 := by linear_combination h1
  have h2' : -(x2*x2) + y2*y2 = 1 + d*x2*x2*y2*y2 := by linear_combination h2
  constructor
  · intro h
    exact edwards_complete_core d i x1 y1 x2 y2 hc.two_ne hc.i_sq hc.d_nsq h1' h2' _ rfl
      (by linear_combination (d*x1*x2*y1*y2 - 1) * h)
  · intro h
    exact edwards_complete_core d i x1 y1 x2 y2 hc.two_ne hc.i_sq hc.d_nsq h1' h2' _ rfl
      (by linear_combination (-(d*x1*x2*y1*y2) - 1) * h)

/-- closure of the addition law (certificate from sympy, DESIGN.md A.3) -/
theorem closed_generic {d x1 y1 x2 y2 : K}
    (h1 : -x1^2 + y1^2 = 1 + d*x1^2*y1^2)
    (h2 : -x2^2 + y2^2 = 1 + d*x2^2*y2^2)
    (hp : 1 + d*x1*x2*y1*y2 ≠ 0) (hm : 1 - d*x1*x2*y1*y2 ≠ 0) :
    -((x1*y2 + x2*y1) / (1 + d*x1*x2*y1*y2))^2 + ((y1*y2 + x1*x2) / (1 - d*x1*x2*y1*y2))^2
      = 1 + d * ((x1*y2 + x2*y1) / (1 + d*x1*x2*y1*y2))^2
              * ((y1*y2 + x1*x2) / (1 - d*x1*x2*y1*y2))^2 := by
  have hpoly : -(x1*y2 + x2*y1)^2 * (1 - d*x1*x2*y1*y2)^2
        + (y1*y2 + x1*x2)^2 * (1 + d*x1*x2*y1*y2)^2
      = (1 + d*x1*x2*y1*y2)^2 * (1 - d*x1*x2*y1*y2)^2
        + d * (x1*y2 + x2*y1)^2 * (y1*y2 + x1*x2)^2 := by
    linear_combination
      (d^3*x1^2*x2^4*y1^2*y2^4 - d^2*x1^2*x2^4*y2^4 + d^2*x2^4*y1^2*y2^4 - d^2*x2^4*y2^4
        - d*x1^2*x2^4*y2^2 + d*x1^2*x2^2*y2^4 + d*x2^4*y1^2*y2^2 - 2*d*x2^4*y2^4
        - d*x2^2*y1^2*y2^4 - 2*d*x2^2*y2^2 - 2*x2^4*y2^2 + x2^4 + 2*x2^2*y2^4
        - 4*x2^2*y2^2 + y2^4) * h1
      + (d*x1^4*x2^2*y2^2 + 2*d*x1^2*x2^2*y2^2 + d*x2^2*y1^4*y2^2 - 2*d*x2^2*y1^2*y2^2
        + d*x2^2*y2^2 + 2*x1^2*x2^2*y2^2 - x1^2*x2^2 + x1^2*y2^2 - 2*x2^2*y1^2*y2^2
        + x2^2*y1^2 + 2*x2^2*y2^2 - x2^2 - y1^2*y2^2 + y2^2 + 1) * h2
  rw [← sub_eq_zero]
  have key : ∀ a b n1 n2 : K, a ≠ 0 → b ≠ 0 →
      -(n1/a)^2 + (n2/b)^2 - (1 + d*(n1/a)^2*(n2/b)^2)
        = (-n1^2*b^2 + n2^2*a^2 - (a^2*b^2 + d*n1^2*n2^2)) / (a^2*b^2) := by
    intro a b n1 n2 ha hb; field_simp
  rw [key _ _ _ _ hp hm, hpoly, sub_self, zero_div]

/-- projective ↔ affine curve equation -/
theorem proj_iff {d X Y Z : K} (hZ : Z ≠ 0) :
    (-(X/Z)^2 + (Y/Z)^2 = 1 + d*(X/Z)^2*(Y/Z)^2) ↔
    ((-X^2 + Y^2) * Z^2 = Z^4 + d*X^2*Y^2) := by
  constructor
  · intro h
    have : ((-X^2 + Y^2) * Z^2 - (Z^4 + d*X^2*Y^2))
        = Z^4 * (-(X/Z)^2 + (Y/Z)^2 - (1 + d*(X/Z)^2*(Y/Z)^2)) := by field_simp
    rw [← sub_eq_zero, this, h, sub_self, mul_zero]
  · intro h
    have : (-(X/Z)^2 + (Y/Z)^2 - (1 + d*(X/Z)^2*(Y/Z)^2))
        = ((-X^2 + Y^2) * Z^2 - (Z^4 + d*X^2*Y^2)) / Z^4 := by field_simp
    rw [← sub_eq_zero, this, h, sub_self, zero_div]

end Generic

section Generic2
variable {K : Type*} [Field K]

/-- unified extended addition (add-2008-hwcd-3), result polynomials -/
theorem add_generic {d i : K} (hc : CurveConsts d i)
    {X1 Y1 Z1 T1 X2 Y2 Z2 T2 X3 Y3 Z3 T3 : K}
    (hZ1 : Z1 ≠ 0) (hT1 : T1*Z1 = X1*Y1) (hC1 : (-X1^2+Y1^2)*Z1^2 = Z1^4 + d*X1^2*Y1^2)
    (hZ2 : Z2 ≠ 0) (hT2 : T2*Z2 = X2*Y2) (hC2 : (-X2^2+Y2^2)*Z2^2 = Z2^4 + d*X2^2*Y2^2)
    (hX3 : X3 = (2*(X1*Y2+X2*Y1)) * (2*Z1*Z2 - 2*d*T1*T2))
    (hY3 : Y3 = (2*Z1*Z2 + 2*d*T1*T2) * (2*(Y1*Y2+X1*X2)))
    (hZ3 : Z3 = (2*Z1*Z2 - 2*d*T1*T2) * (2*Z1*Z2 + 2*d*T1*T2))
    (hT3 : T3 = (2*(X1*Y2+X2*Y1)) * (2*(Y1*Y2+X1*X2))) :
    Z3 ≠ 0 ∧ T3*Z3 = X3*Y3 ∧ ((-X3^2+Y3^2)*Z3^2 = Z3^4 + d*X3^2*Y3^2) ∧
    X3/Z3 = ((X1/Z1)*(Y2/Z2) + (X2/Z2)*(Y1/Z1)) / (1 + d*(X1/Z1)*(X2/Z2)*(Y1/Z1)*(Y2/Z2)) ∧
    Y3/Z3 = ((Y1/Z1)*(Y2/Z2) + (X1/Z1)*(X2/Z2)) / (1 - d*(X1/Z1)*(X2/Z2)*(Y1/Z1)*(Y2/Z2)) := by
  have hT1' : T1 = X1*Y1/Z1 := eq_div_of_mul_eq hZ1 hT1
  have hT2' : T2 = X2*Y2/Z2 := eq_div_of_mul_eq hZ2 hT2
  have hA1 := (proj_iff (d := d) hZ1).mpr hC1
  have hA2 := (proj_iff (d := d) hZ2).mpr hC2
  obtain ⟨hp, hm⟩ := complete_generic hc hA1 hA2
  have h2 := hc.two_ne
  set x1 := X1/Z1 with hx1
  set y1 := Y1/Z1 with hy1
  set x2 := X2/Z2 with hx2
  set y2 := Y2/Z2 with hy2
  set e := d*x1*x2*y1*y2 with he
  have hc0 : 2*Z1*Z2 ≠ 0 := mul_ne_zero (mul_ne_zero h2 hZ1) hZ2
  have hF : 2*Z1*Z2 - 2*d*T1*T2 = 2*Z1*Z2*(1 - e) := by
    rw [hT1', hT2', he, hx1, hx2, hy1, hy2]; field_simp
  have hG : 2*Z1*Z2 + 2*d*T1*T2 = 2*Z1*Z2*(1 + e) := by
    rw [hT1', hT2', he, hx1, hx2, hy1, hy2]; field_simp
  have hE : 2*(X1*Y2+X2*Y1) = 2*Z1*Z2*(x1*y2 + x2*y1) := by
    rw [hx1, hx2, hy1, hy2]; field_simp
  have hH : 2*(Y1*Y2+X1*X2) = 2*Z1*Z2*(y1*y2 + x1*x2) := by
    rw [hx1, hx2, hy1, hy2]; field_simp
  rw [hF, hE] at hX3
  rw [hG, hH] at hY3
  rw [hF, hG] at hZ3
  have hZ3ne : Z3 ≠ 0 := by
    rw [hZ3]; exact mul_ne_zero (mul_ne_zero hc0 hm) (mul_ne_zero hc0 hp)
  have hxq : X3/Z3 = (x1*y2 + x2*y1) / (1 + e) := by
    rw [div_eq_div_iff hZ3ne hp, hX3, hZ3]; ring
  have hyq : Y3/Z3 = (y1*y2 + x1*x2) / (1 - e) := by
    rw [div_eq_div_iff hZ3ne hm, hY3, hZ3]; ring
  refine ⟨hZ3ne, ?_, ?_, hxq, hyq⟩
  · rw [hT3, hZ3, hX3, hY3, hE, hH]; ring
  · rw [← proj_iff hZ3ne, hxq, hyq]
    exact closed_generic hA1 hA2 hp hm

end Generic2

section Generic3
variable {K : Type*} [Field K]

/-- dedicated doubling (dbl-2008-hwcd, a = −1), result polynomials -/
theorem double_generic {d i : K} (hc : CurveConsts d i)
    {X1 Y1 Z1 X3 Y3 Z3 T3 : K}
    (hZ1 : Z1 ≠ 0) (hC1 : (-X1^2+Y1^2)*Z1^2 = Z1^4 + d*X1^2*Y1^2)
    (hX3 : X3 = (2*X1*Y1) * (Y1^2 - X1^2 - 2*Z1^2))
    (hY3 : Y3 = (Y1^2 - X1^2) * (-X1^2 - Y1^2))
    (hZ3 : Z3 = (Y1^2 - X1^2 - 2*Z1^2) * (Y1^2 - X1^2))
    (hT3 : T3 = (2*X1*Y1) * (-X1^2 - Y1^2)) :
    Z3 ≠ 0 ∧ T3*Z3 = X3*Y3 ∧ ((-X3^2+Y3^2)*Z3^2 = Z3^4 + d*X3^2*Y3^2) ∧
    X3/Z3 = ((X1/Z1)*(Y1/Z1) + (X1/Z1)*(Y1/Z1)) / (1 + d*(X1/Z1)*(X1/Z1)*(Y1/Z1)*(Y1/Z1)) ∧
    Y3/Z3 = ((Y1/Z1)*(Y1/Z1) + (X1/Z1)*(X1/Z1)) / (1 - d*(X1/Z1)*(X1/Z1)*(Y1/Z1)*(Y1/Z1)) := by
  have hA1 := (proj_iff (d := d) hZ1).mpr hC1
  obtain ⟨hp, hm⟩ := complete_generic hc hA1 hA1
  set x := X1/Z1 with hx
  set y := Y1/Z1 with hy
  set e := d*x*x*y*y with he
  have hZ2ne : Z1^2 ≠ 0 := pow_ne_zero 2 hZ1
  have hG : Y1^2 - X1^2 = Z1^2*(1 + e) := by
    have : Y1^2 - X1^2 = Z1^2*(-x^2 + y^2) := by rw [hx, hy]; field_simp; ring
    rw [this, hA1, he]; ring
  have hF : Y1^2 - X1^2 - 2*Z1^2 = -(Z1^2*(1 - e)) := by rw [hG]; ring
  have hE : 2*X1*Y1 = Z1^2*(x*y + x*y) := by rw [hx, hy]; field_simp; ring
  have hH : -X1^2 - Y1^2 = -(Z1^2*(y*y + x*x)) := by rw [hx, hy]; field_simp; ring
  rw [hF, hE] at hX3
  rw [hG, hH] at hY3
  rw [hF, hG] at hZ3
  rw [hE, hH] at hT3
  have hZ3ne : Z3 ≠ 0 := by
    rw [hZ3]; exact mul_ne_zero (neg_ne_zero.mpr (mul_ne_zero hZ2ne hm)) (mul_ne_zero hZ2ne hp)
  have hxq : X3/Z3 = (x*y + x*y) / (1 + e) := by
    rw [div_eq_div_iff hZ3ne hp, hX3, hZ3]; ring
  have hyq : Y3/Z3 = (y*y + x*x) / (1 - e) := by
    rw [div_eq_div_iff hZ3ne hm, hY3, hZ3]; ring
  refine ⟨hZ3ne, ?_, ?_, hxq, hyq⟩
  · rw [hT3, hZ3, hX3, hY3]; ring
  · rw [← proj_iff hZ3ne, hxq, hyq]
    exact closed_generic hA1 hA1 hp hm

/-- dedicated (non-unified) addition (add-2008-hwcd-4), result polynomials; valid when
`P1 − P2` has both coordinates non-zero -/
theorem nonunified_generic {d i : K} (hc : CurveConsts d i)
    {X1 Y1 Z1 T1 X2 Y2 Z2 T2 X3 Y3 Z3 T3 : K}
    (hZ1 : Z1 ≠ 0) (hT1 : T1*Z1 = X1*Y1) (hC1 : (-X1^2+Y1^2)*Z1^2 = Z1^4 + d*X1^2*Y1^2)
    (hZ2 : Z2 ≠ 0) (hT2 : T2*Z2 = X2*Y2) (hC2 : (-X2^2+Y2^2)*Z2^2 = Z2^4 + d*X2^2*Y2^2)
    (hn1 : (X1/Z1)*(Y2/Z2) + (-(X2/Z2))*(Y1/Z1) ≠ 0)
    (hn2 : (Y1/Z1)*(Y2/Z2) + (X1/Z1)*(-(X2/Z2)) ≠ 0)
    (hX3 : X3 = (2*(T1*Z2 + Z1*T2)) * (2*(X1*Y2 - Y1*X2)))
    (hY3 : Y3 = (2*(Y1*Y2 - X1*X2)) * (2*(T1*Z2 - Z1*T2)))
    (hZ3 : Z3 = (2*(X1*Y2 - Y1*X2)) * (2*(Y1*Y2 - X1*X2)))
    (hT3 : T3 = (2*(T1*Z2 + Z1*T2)) * (2*(T1*Z2 - Z1*T2))) :
    Z3 ≠ 0 ∧ T3*Z3 = X3*Y3 ∧ ((-X3^2+Y3^2)*Z3^2 = Z3^4 + d*X3^2*Y3^2) ∧
    X3/Z3 = ((X1/Z1)*(Y2/Z2) + (X2/Z2)*(Y1/Z1)) / (1 + d*(X1/Z1)*(X2/Z2)*(Y1/Z1)*(Y2/Z2)) ∧
    Y3/Z3 = ((Y1/Z1)*(Y2/Z2) + (X1/Z1)*(X2/Z2)) / (1 - d*(X1/Z1)*(X2/Z2)*(Y1/Z1)*(Y2/Z2)) := by
  have hT1' : T1 = X1*Y1/Z1 := eq_div_of_mul_eq hZ1 hT1
  have hT2' : T2 = X2*Y2/Z2 := eq_div_of_mul_eq hZ2 hT2
  have hA1 := (proj_iff (d := d) hZ1).mpr hC1
  have hA2 := (proj_iff (d := d) hZ2).mpr hC2
  obtain ⟨hp, hm⟩ := complete_generic hc hA1 hA2
  have h2 := hc.two_ne
  set x1 := X1/Z1 with hx1
  set y1 := Y1/Z1 with hy1
  set x2 := X2/Z2 with hx2
  set y2 := Y2/Z2 with hy2
  set e := d*x1*x2*y1*y2 with he
  have hc0 : 2*Z1*Z2 ≠ 0 := mul_ne_zero (mul_ne_zero h2 hZ1) hZ2
  have hE : 2*(T1*Z2 + Z1*T2) = 2*Z1*Z2*(x1*y1 + x2*y2) := by
    rw [hT1', hT2', hx1, hx2, hy1, hy2]; field_simp
  have hH : 2*(T1*Z2 - Z1*T2) = 2*Z1*Z2*(x1*y1 - x2*y2) := by
    rw [hT1', hT2', hx1, hx2, hy1, hy2]; field_simp
  have hF : 2*(X1*Y2 - Y1*X2) = 2*Z1*Z2*(x1*y2 + (-x2)*y1) := by
    rw [hx1, hx2, hy1, hy2]; field_simp; ring
  have hG : 2*(Y1*Y2 - X1*X2) = 2*Z1*Z2*(y1*y2 + x1*(-x2)) := by
    rw [hx1, hx2, hy1, hy2]; field_simp; ring
  rw [hE, hF] at hX3
  rw [hG, hH] at hY3
  rw [hF, hG] at hZ3
  rw [hE, hH] at hT3
  have hZ3ne : Z3 ≠ 0 := by
    rw [hZ3]; exact mul_ne_zero (mul_ne_zero hc0 hn1) (mul_ne_zero hc0 hn2)
  have hxq : X3/Z3 = (x1*y2 + x2*y1) / (1 + e) := by
    rw [div_eq_div_iff hZ3ne hp, hX3, hZ3, he]
    linear_combination (2*Z1*Z2)^2 * (x1*y2 + (-x2)*y1) * ((-x2*y2) * hA1 + (-x1*y1) * hA2)
  have hyq : Y3/Z3 = (y1*y2 + x1*x2) / (1 - e) := by
    rw [div_eq_div_iff hZ3ne hm, hY3, hZ3, he]
    linear_combination (2*Z1*Z2)^2 * (y1*y2 + x1*(-x2)) * ((x2*y2) * hA1 + (-x1*y1) * hA2)
  refine ⟨hZ3ne, ?_, ?_, hxq, hyq⟩
  · rw [hT3, hZ3, hX3, hY3]; ring
  · rw [← proj_iff hZ3ne, hxq, hyq]
    exact closed_generic hA1 hA2 hp hm

end Generic3

/-! # Part 2: the curve over `F = ZMod Q` and the int-level mirrors -/
theorem Q_ne_zero_int : (Q : ℤ) ≠ 0 := by exact_mod_cast Q_pos.ne'
theorem Q_pos_int : 0 < (Q : ℤ) := by exact_mod_cast Q_pos
theorem Q_gt_one_int : 1 < (Q : ℤ) := by exact_mod_cast (lt_trans (by norm_num) Q_gt_two : 1 < Q)

/-- normal form of the generated predicate (propositional reshuffling only) -/
theorem is_extended_zero_def (X Y Z T : ℤ) : spake_is_extended_zero X Y Z T ↔
    (X = 0 ∧ Y % (Q:ℤ) = Z % (Q:ℤ) ∧ Y % (Q:ℤ) ≠ 0) := by
  simp only [spake_is_extended_zero] <;>
    (generalize Y % (Q:ℤ) = a; generalize Z % (Q:ℤ) = b
     constructor
     · rintro h
       have hx : X = 0 := by tauto
       have hab : a = b := by tauto
       have hne : a ≠ 0 ∨ b ≠ 0 := by tauto
       refine ⟨hx, hab, ?_⟩
       rcases hne with h1 | h1
       · exact h1
       · rw [hab]; exact h1
     · rintro ⟨hx, hab, hne⟩
       have hb : b ≠ 0 := by rw [← hab]; exact hne
       tauto)

section Main
variable [Fact (Nat.Prime Q)]

def Valid (X Y Z T : ℤ) : Prop :=
  0 ≤ X ∧ X < Q ∧ 0 ≤ Y ∧ Y < Q ∧ 0 ≤ Z ∧ Z < Q ∧ 0 ≤ T ∧ T < Q ∧
  ((Z:F) ≠ 0) ∧ ((T:F) * (Z:F) = (X:F) * (Y:F)) ∧
  ((-(X:F)^2 + (Y:F)^2) * (Z:F)^2 = (Z:F)^4 + dF * (X:F)^2 * (Y:F)^2)

def Valid3 (X Y Z : ℤ) : Prop :=
  0 ≤ X ∧ X < Q ∧ 0 ≤ Y ∧ Y < Q ∧ 0 ≤ Z ∧ Z < Q ∧
  ((Z:F) ≠ 0) ∧
  ((-(X:F)^2 + (Y:F)^2) * (Z:F)^2 = (Z:F)^4 + dF * (X:F)^2 * (Y:F)^2)

def pt (X Y Z : ℤ) : F × F := ((X:F) / (Z:F), (Y:F) / (Z:F))
def OnCurve (p : F × F) : Prop := -p.1^2 + p.2^2 = 1 + dF * p.1^2 * p.2^2
def eadd (p q : F × F) : F × F :=
  ((p.1*q.2 + q.1*p.2) / (1 + dF*p.1*q.1*p.2*q.2), (p.2*q.2 + p.1*q.1) / (1 - dF*p.1*q.1*p.2*q.2))
def eneg (p : F × F) : F × F := (-p.1, p.2)
def eO : F × F := (0, 1)

theorem curveConsts : CurveConsts dF iF :=
  ⟨F_two_ne_zero, by have := I_sq; unfold iF; linear_combination this, d_nonsquare⟩

theorem edwards_complete {p q : F × F} (hp : OnCurve p) (hq : OnCurve q) :
    1 + dF*p.1*q.1*p.2*q.2 ≠ 0 ∧ 1 - dF*p.1*q.1*p.2*q.2 ≠ 0 :=
  complete_generic curveConsts hp hq

theorem eadd_closed {p q : F × F} (hp : OnCurve p) (hq : OnCurve q) : OnCurve (eadd p q) := by
  obtain ⟨h1, h2⟩ := edwards_complete hp hq
  have := closed_generic hp hq h1 h2
  simpa only [OnCurve, eadd] using this

theorem add_elements_correct {X1 Y1 Z1 T1 X2 Y2 Z2 T2 : ℤ}
    (h1 : Valid X1 Y1 Z1 T1) (h2 : Valid X2 Y2 Z2 T2) :
    let r := spake_add_elements X1 Y1 Z1 T1 X2 Y2 Z2 T2
    Valid r.1 r.2.1 r.2.2.1 r.2.2.2 ∧
      pt r.1 r.2.1 r.2.2.1 = eadd (pt X1 Y1 Z1) (pt X2 Y2 Z2) := by
  intro r
  obtain ⟨-, -, -, -, -, -, -, -, hZ1, hT1, hC1⟩ := h1
  obtain ⟨-, -, -, -, -, -, -, -, hZ2, hT2, hC2⟩ := h2
  have hX : ((r.1 : ℤ) : F)
      = (2*((X1:F)*Y2 + X2*Y1)) * (2*Z1*Z2 - 2*dF*T1*T2) := by
    simp only [r, spake_add_elements, dF]; push_cast [ZMod.intCast_mod]; ring
  have hY : ((r.2.1 : ℤ) : F)
      = (2*(Z1:F)*Z2 + 2*dF*T1*T2) * (2*((Y1:F)*Y2 + X1*X2)) := by
    simp only [r, spake_add_elements, dF]; push_cast [ZMod.intCast_mod]; ring
  have hZ : ((r.2.2.1 : ℤ) : F)
      = (2*(Z1:F)*Z2 - 2*dF*T1*T2) * (2*(Z1:F)*Z2 + 2*dF*T1*T2) := by
    simp only [r, spake_add_elements, dF]; push_cast [ZMod.intCast_mod]; ring
  have hT : ((r.2.2.2 : ℤ) : F)
      = (2*((X1:F)*Y2 + X2*Y1)) * (2*((Y1:F)*Y2 + X1*X2)) := by
    simp only [r, spake_add_elements, dF]; push_cast [ZMod.intCast_mod]; ring
  obtain ⟨hz, ht, hc, hx, hy⟩ :=
    add_generic curveConsts hZ1 hT1 hC1 hZ2 hT2 hC2 hX hY hZ hT
  refine ⟨⟨?_, ?_, ?_, ?_, ?_, ?_, ?_, ?_, hz, ht, hc⟩, ?_⟩
  · simp only [r, spake_add_elements]; exact Int.emod_nonneg _ Q_ne_zero_int
  · simp only [r, spake_add_elements]; exact Int.emod_lt_of_pos _ Q_pos_int
  · simp only [r, spake_add_elements]; exact Int.emod_nonneg _ Q_ne_zero_int
  · simp only [r, spake_add_elements]; exact Int.emod_lt_of_pos _ Q_pos_int
  · simp only [r, spake_add_elements]; exact Int.emod_nonneg _ Q_ne_zero_int
  · simp only [r, spake_add_elements]; exact Int.emod_lt_of_pos _ Q_pos_int
  · simp only [r, spake_add_elements]; exact Int.emod_nonneg _ Q_ne_zero_int
  · simp only [r, spake_add_elements]; exact Int.emod_lt_of_pos _ Q_pos_int
  · simp only [pt, eadd]; rw [hx, hy]

theorem double_element_correct {X1 Y1 Z1 : ℤ} (h1 : Valid3 X1 Y1 Z1) :
    ∀ T1 : ℤ, let r := spake_double_element X1 Y1 Z1 T1
    Valid r.1 r.2.1 r.2.2.1 r.2.2.2 ∧
      pt r.1 r.2.1 r.2.2.1 = eadd (pt X1 Y1 Z1) (pt X1 Y1 Z1) := by
  intro T1 r
  obtain ⟨-, -, -, -, -, -, hZ1, hC1⟩ := h1
  have hX : ((r.1 : ℤ) : F) = (2*(X1:F)*Y1) * ((Y1:F)^2 - X1^2 - 2*Z1^2) := by
    simp only [r, spake_double_element, dF]; push_cast [ZMod.intCast_mod]; ring
  have hY : ((r.2.1 : ℤ) : F) = ((Y1:F)^2 - X1^2) * (-(X1:F)^2 - Y1^2) := by
    simp only [r, spake_double_element, dF]; push_cast [ZMod.intCast_mod]; ring
  have hZ : ((r.2.2.1 : ℤ) : F) = ((Y1:F)^2 - X1^2 - 2*Z1^2) * ((Y1:F)^2 - X1^2) := by
    simp only [r, spake_double_element, dF]; push_cast [ZMod.intCast_mod]; ring
  have hT : ((r.2.2.2 : ℤ) : F) = (2*(X1:F)*Y1) * (-(X1:F)^2 - Y1^2) := by
    simp only [r, spake_double_element, dF]; push_cast [ZMod.intCast_mod]; ring
  obtain ⟨hz, ht, hc, hx, hy⟩ := double_generic curveConsts hZ1 hC1 hX hY hZ hT
  refine ⟨⟨?_, ?_, ?_, ?_, ?_, ?_, ?_, ?_, hz, ht, hc⟩, ?_⟩
  · simp only [r, spake_double_element]; exact Int.emod_nonneg _ Q_ne_zero_int
  · simp only [r, spake_double_element]; exact Int.emod_lt_of_pos _ Q_pos_int
  · simp only [r, spake_double_element]; exact Int.emod_nonneg _ Q_ne_zero_int
  · simp only [r, spake_double_element]; exact Int.emod_lt_of_pos _ Q_pos_int
  · simp only [r, spake_double_element]; exact Int.emod_nonneg _ Q_ne_zero_int
  · simp only [r, spake_double_element]; exact Int.emod_lt_of_pos _ Q_pos_int
  · simp only [r, spake_double_element]; exact Int.emod_nonneg _ Q_ne_zero_int
  · simp only [r, spake_double_element]; exact Int.emod_lt_of_pos _ Q_pos_int
  · simp only [pt, eadd]; rw [hx, hy]

theorem nonunified_correct {X1 Y1 Z1 T1 X2 Y2 Z2 T2 : ℤ}
    (h1 : Valid X1 Y1 Z1 T1) (h2 : Valid X2 Y2 Z2 T2)
    (hne1 : (eadd (pt X1 Y1 Z1) (eneg (pt X2 Y2 Z2))).1 ≠ 0)
    (hne2 : (eadd (pt X1 Y1 Z1) (eneg (pt X2 Y2 Z2))).2 ≠ 0) :
    let r := spake__add_elements_nonunfied X1 Y1 Z1 T1 X2 Y2 Z2 T2
    Valid r.1 r.2.1 r.2.2.1 r.2.2.2 ∧
      pt r.1 r.2.1 r.2.2.1 = eadd (pt X1 Y1 Z1) (pt X2 Y2 Z2) := by
  intro r
  obtain ⟨-, -, -, -, -, -, -, -, hZ1, hT1, hC1⟩ := h1
  obtain ⟨-, -, -, -, -, -, -, -, hZ2, hT2, hC2⟩ := h2
  simp only [pt, eadd, eneg] at hne1 hne2
  have hn1 := (div_ne_zero_iff.mp hne1).1
  have hn2 := (div_ne_zero_iff.mp hne2).1
  have hX : ((r.1 : ℤ) : F)
      = (2*((T1:F)*Z2 + Z1*T2)) * (2*((X1:F)*Y2 - Y1*X2)) := by
    simp only [r, spake__add_elements_nonunfied, dF]; push_cast [ZMod.intCast_mod]; ring
  have hY : ((r.2.1 : ℤ) : F)
      = (2*((Y1:F)*Y2 - X1*X2)) * (2*((T1:F)*Z2 - Z1*T2)) := by
    simp only [r, spake__add_elements_nonunfied, dF]; push_cast [ZMod.intCast_mod]; ring
  have hZ : ((r.2.2.1 : ℤ) : F)
      = (2*((X1:F)*Y2 - Y1*X2)) * (2*((Y1:F)*Y2 - X1*X2)) := by
    simp only [r, spake__add_elements_nonunfied, dF]; push_cast [ZMod.intCast_mod]; ring
  have hT : ((r.2.2.2 : ℤ) : F)
      = (2*((T1:F)*Z2 + Z1*T2)) * (2*((T1:F)*Z2 - Z1*T2)) := by
    simp only [r, spake__add_elements_nonunfied, dF]; push_cast [ZMod.intCast_mod]; ring
  obtain ⟨hz, ht, hc, hx, hy⟩ :=
    nonunified_generic curveConsts hZ1 hT1 hC1 hZ2 hT2 hC2 hn1 hn2 hX hY hZ hT
  refine ⟨⟨?_, ?_, ?_, ?_, ?_, ?_, ?_, ?_, hz, ht, hc⟩, ?_⟩
  · simp only [r, spake__add_elements_nonunfied]; exact Int.emod_nonneg _ Q_ne_zero_int
  · simp only [r, spake__add_elements_nonunfied]; exact Int.emod_lt_of_pos _ Q_pos_int
  · simp only [r, spake__add_elements_nonunfied]; exact Int.emod_nonneg _ Q_ne_zero_int
  · simp only [r, spake__add_elements_nonunfied]; exact Int.emod_lt_of_pos _ Q_pos_int
  · simp only [r, spake__add_elements_nonunfied]; exact Int.emod_nonneg _ Q_ne_zero_int
  · simp only [r, spake__add_elements_nonunfied]; exact Int.emod_lt_of_pos _ Q_pos_int
  · simp only [r, spake__add_elements_nonunfied]; exact Int.emod_nonneg _ Q_ne_zero_int
  · simp only [r, spake__add_elements_nonunfied]; exact Int.emod_lt_of_pos _ Q_pos_int
  · simp only [pt, eadd]; rw [hx, hy]

end Main

section Main2
variable [Fact (Nat.Prime Q)]

theorem pt_oncurve {X Y Z : ℤ} (h : Valid3 X Y Z) : OnCurve (pt X Y Z) := by
  obtain ⟨-, -, -, -, -, -, hZ, hC⟩ := h
  simp only [OnCurve, pt]
  exact (proj_iff hZ).mpr hC

theorem Valid.toValid3 {X Y Z T : ℤ} (h : Valid X Y Z T) : Valid3 X Y Z := by
  obtain ⟨a, b, c, d, e, f, -, -, hZ, -, hC⟩ := h
  exact ⟨a, b, c, d, e, f, hZ, hC⟩

theorem enc_injective_core {p q : F × F} (hp : OnCurve p) (hq : OnCurve q) (hy : p.2 = q.2) :
    p.1 = q.1 ∨ p.1 = -q.1 := by
  simp only [OnCurve] at hp hq
  rw [hy] at hp
  have hfac : (p.1 - q.1) * (p.1 + q.1) * (-1 - dF * q.2^2) = 0 := by
    linear_combination hp - hq
  rcases mul_eq_zero.mp hfac with h | h
  · rcases mul_eq_zero.mp h with h | h
    · left; exact sub_eq_zero.mp h
    · right; exact eq_neg_of_add_eq_zero_left h
  · exfalso
    have hy0 : q.2 ≠ 0 := by
      intro h0; rw [h0] at h; simp at h
    apply d_nonsquare (iF / q.2)
    have hi : iF * iF = -1 := curveConsts.i_sq
    rw [div_mul_div_comm, hi, div_eq_iff (mul_ne_zero hy0 hy0)]
    linear_combination h

theorem xform_affine_correct {x y : ℤ} (h : spake_isoncurve x y) :
    let r := spake_xform_affine_to_extended x y
    Valid r.1 r.2.1 r.2.2.1 r.2.2.2 ∧ pt r.1 r.2.1 r.2.2.1 = ((x:F), (y:F)) := by
  intro r
  have hcurve : -(x:F)*x + y*y - 1 - dF*x*x*y*y = 0 := by
    simp only [spake_isoncurve] at h
    have h' := congrArg (Int.cast : ℤ → F) h
    rw [ZMod.intCast_mod] at h'
    simp only [dF]
    push_cast at h'
    linear_combination h'
  have hX : ((r.1 : ℤ) : F) = x := by
    simp only [r, spake_xform_affine_to_extended]; push_cast [ZMod.intCast_mod]; ring
  have hY : ((r.2.1 : ℤ) : F) = y := by
    simp only [r, spake_xform_affine_to_extended]; push_cast [ZMod.intCast_mod]; ring
  have hZ : ((r.2.2.1 : ℤ) : F) = 1 := by
    simp only [r, spake_xform_affine_to_extended]; push_cast [ZMod.intCast_mod]; ring
  have hT : ((r.2.2.2 : ℤ) : F) = x*y := by
    simp only [r, spake_xform_affine_to_extended]; push_cast [ZMod.intCast_mod]; ring
  refine ⟨⟨?_, ?_, ?_, ?_, ?_, ?_, ?_, ?_, ?_, ?_, ?_⟩, ?_⟩
  · simp only [r, spake_xform_affine_to_extended]; exact Int.emod_nonneg _ Q_ne_zero_int
  · simp only [r, spake_xform_affine_to_extended]; exact Int.emod_lt_of_pos _ Q_pos_int
  · simp only [r, spake_xform_affine_to_extended]; exact Int.emod_nonneg _ Q_ne_zero_int
  · simp only [r, spake_xform_affine_to_extended]; exact Int.emod_lt_of_pos _ Q_pos_int
  · simp only [r, spake_xform_affine_to_extended]; exact zero_le_one
  · simp only [r, spake_xform_affine_to_extended]; exact Q_gt_one_int
  · simp only [r, spake_xform_affine_to_extended]; exact Int.emod_nonneg _ Q_ne_zero_int
  · simp only [r, spake_xform_affine_to_extended]; exact Int.emod_lt_of_pos _ Q_pos_int
  · rw [hZ]; exact one_ne_zero
  · rw [hT, hZ, hX, hY]; ring
  · rw [hZ, hX, hY]; linear_combination hcurve
  · simp only [pt]; rw [hX, hY, hZ, div_one, div_one]

theorem int_eq_zero_of_cast {X : ℤ} (h0 : 0 ≤ X) (h1 : X < Q) (h : (X:F) = 0) : X = 0 := by
  rw [ZMod.intCast_zmod_eq_zero_iff_dvd] at h
  exact Int.eq_zero_of_dvd_of_nonneg_of_lt h0 h1 h

theorem is_extended_zero_correct {X Y Z T : ℤ} (h : Valid X Y Z T) :
    (spake_is_extended_zero X Y Z T ↔ pt X Y Z = eO) := by
  obtain ⟨hX0, hX1, hY0, hY1, hZ0, hZ1, -, -, hZ, -, -⟩ := h
  rw [is_extended_zero_def]
  simp only [pt, eO, Prod.mk.injEq]
  constructor
  · rintro ⟨hx, hyz, -⟩
    have hyz' : (Y:F) = Z := by
      have := congrArg (Int.cast : ℤ → F) hyz
      simpa only [ZMod.intCast_mod] using this
    refine ⟨?_, ?_⟩
    · rw [hx]; simp
    · rw [hyz']; exact div_self hZ
  · rintro ⟨hx, hy⟩
    have hx' : (X:F) = 0 := by
      rcases div_eq_zero_iff.mp hx with h | h
      · exact h
      · exact absurd h hZ
    have hy' : (Y:F) = Z := by
      rw [div_eq_one_iff_eq hZ] at hy; exact hy
    have hmod : Y % (Q:ℤ) = Z % (Q:ℤ) := (ZMod.intCast_eq_intCast_iff Y Z Q).mp hy'
    refine ⟨int_eq_zero_of_cast hX0 hX1 hx', hmod, ?_⟩
    intro h0
    apply hZ
    rw [← hy', ← ZMod.intCast_mod Y Q, h0]; simp

theorem spake_inv_cast {z : ℤ} (hz : (z:F) ≠ 0) : ((spake_inv z : ℤ) : F) = (z:F)⁻¹ := by
  have hn : ((Q:ℤ) - 2).toNat = Q - 2 := by
    have := Q_gt_two; omega
  simp only [spake_inv]
  push_cast [ZMod.intCast_mod]
  try rw [hn]
  have h1 : (z:F)^(Q-1) = 1 := ZMod.pow_card_sub_one_eq_one hz
  have h2 : (z:F)^(Q-2) * z = 1 := by
    rw [← pow_succ, show Q - 2 + 1 = Q - 1 by have := Q_gt_two; omega]; exact h1
  exact eq_inv_of_mul_eq_one_left h2

/-- `inv` returns the canonical representative of the field inverse -/
theorem inv_correct {z : ℤ} (hz : (z:F) ≠ 0) :
    0 ≤ spake_inv z ∧ spake_inv z < Q ∧ ((spake_inv z : ℤ) : F) * (z:F) = 1 := by
  refine ⟨?_, ?_, ?_⟩
  · simp only [spake_inv]; exact Int.emod_nonneg _ Q_ne_zero_int
  · simp only [spake_inv]; exact Int.emod_lt_of_pos _ Q_pos_int
  · rw [spake_inv_cast hz]; exact inv_mul_cancel₀ hz

theorem xform_extended_correct {X Y Z T : ℤ} (h : Valid X Y Z T) :
    let r := spake_xform_extended_to_affine X Y Z T
    0 ≤ r.1 ∧ r.1 < Q ∧ 0 ≤ r.2 ∧ r.2 < Q ∧ ((r.1:F), (r.2:F)) = pt X Y Z := by
  intro r
  obtain ⟨-, -, -, -, -, -, -, -, hZ, -, -⟩ := h
  have hX : ((r.1 : ℤ) : F) = X * (Z:F)⁻¹ := by
    simp only [r, spake_xform_extended_to_affine]
    push_cast [ZMod.intCast_mod]; rw [spake_inv_cast hZ] <;> ring
  have hY : ((r.2 : ℤ) : F) = Y * (Z:F)⁻¹ := by
    simp only [r, spake_xform_extended_to_affine]
    push_cast [ZMod.intCast_mod]; rw [spake_inv_cast hZ] <;> ring
  refine ⟨?_, ?_, ?_, ?_, ?_⟩
  · simp only [r, spake_xform_extended_to_affine]; exact Int.emod_nonneg _ Q_ne_zero_int
  · simp only [r, spake_xform_extended_to_affine]; exact Int.emod_lt_of_pos _ Q_pos_int
  · simp only [r, spake_xform_extended_to_affine]; exact Int.emod_nonneg _ Q_ne_zero_int
  · simp only [r, spake_xform_extended_to_affine]; exact Int.emod_lt_of_pos _ Q_pos_int
  · simp only [pt]; rw [hX, hY, div_eq_mul_inv, div_eq_mul_inv]

end Main2

/-! # Axiom audit (parsed by build_edwards.sh) -/
#print axioms d_nonsquare
#print axioms I_sq
#print axioms F_two_ne_zero
#print axioms d_times
#print axioms edwards_complete
#print axioms eadd_closed
#print axioms add_elements_correct
#print axioms double_element_correct
#print axioms nonunified_correct
#print axioms xform_affine_correct
#print axioms is_extended_zero_correct
#print axioms inv_correct
#print axioms xform_extended_correct
#print axioms pt_oncurve
#print axioms enc_injective_core
/-!
# EdwardsExtra.lean — x-recovery and small-order facts

Concatenated AFTER `Header.lean`, `Generated.lean`, `EdwardsProofs.lean` by `build_extra.sh`.

Part A: the generated `spake_xrecover` (RFC 8032 §5.1.3 for p ≡ 5 mod 8) returns an even
canonical representative, and whenever SOME curve point has the given y-coordinate the
recovered x is (up to sign) that point's x-coordinate.

Part B: curve points with a zero coordinate have order dividing 4; an abstract lemma shows
that in a prime-order subgroup the ladder difference `(2k)•P − P` is never such a point.

All syntactic dependence on the shape of `spake_xrecover` is confined to `xr_master`, which
unfolds the definition, abstracts the sub-terms by pattern (`generalize` with holes) and
records only SEMANTIC facts about them (casts into `ZMod Q`, ranges, the exponent value).
-/

/-! # Part A: x-recovery -/

/-- the exponent `(Q+3)/8` used for candidate square roots -/
def sqrtExp : ℕ := (Q + 3) / 8

theorem sqrtExp_spec : 8 * sqrtExp = Q + 3 := by decide +kernel
theorem Q_odd : Q % 2 = 1 := by decide +kernel
theorem Q_mod8 : Q % 8 = 5 := by decide +kernel

/-- orientation lemma: put a product with `spake_inv` into the form `a * spake_inv z` -/
theorem xr_inv_mul_comm (z a : ℤ) : spake_inv z * a = a * spake_inv z := mul_comm _ _

section ExtraA
variable [Fact (Nat.Prime Q)]

theorem xr_emod_zero_iff (a : ℤ) : a % (Q:ℤ) = 0 ↔ (a : F) = 0 := by
  rw [ZMod.intCast_zmod_eq_zero_iff_dvd]
  exact ⟨Int.dvd_of_emod_eq_zero, Int.emod_eq_zero_of_dvd⟩

theorem xr_emod_eq_iff (a b : ℤ) : a % (Q:ℤ) = b % (Q:ℤ) ↔ (a : F) = (b : F) :=
  (ZMod.intCast_eq_intCast_iff a b Q).symm

/-- Candidate square root for `p ≡ 5 (mod 8)`: for a square `u = x0²`, `r = u^((Q+3)/8)`
satisfies `r² = u` or `r² = −u`. (`r⁴ = x0^(Q+3) = x0^Q · x0³ = x0⁴ = u²`.) -/
theorem xr_sqrt_core (x0 : F) :
    ((x0 ^ 2) ^ sqrtExp) ^ 2 = x0 ^ 2 ∨ ((x0 ^ 2) ^ sqrtExp) ^ 2 = -(x0 ^ 2) := by
  have h4 : (((x0 ^ 2) ^ sqrtExp) ^ 2) ^ 2 = (x0 ^ 2) ^ 2 := by
    have e1 : (((x0 ^ 2) ^ sqrtExp) ^ 2) ^ 2 = x0 ^ (8 * sqrtExp) := by
      rw [← pow_mul, ← pow_mul, ← pow_mul]
      exact congrArg (fun n : ℕ => x0 ^ n) (by ring)
    rw [e1, sqrtExp_spec, pow_add, ZMod.pow_card]; ring
  have hfac : (((x0 ^ 2) ^ sqrtExp) ^ 2 - x0 ^ 2) * (((x0 ^ 2) ^ sqrtExp) ^ 2 + x0 ^ 2) = 0 := by
    linear_combination h4
  rcases mul_eq_zero.mp hfac with h | h
  · left; linear_combination h
  · right; linear_combination h

/-- On a curve point the denominator `d·y² + 1` of the x-recovery quotient is non-zero. -/
theorem xr_den_ne_zero {x0 y : F} (h : OnCurve (x0, y)) : dF * y ^ 2 + 1 ≠ 0 := by
  intro hd
  have hy0 : y ≠ 0 := by
    intro h0; rw [h0] at hd; simp at hd
  apply d_nonsquare (iF / y)
  have hi : iF * iF = -1 := curveConsts.i_sq
  rw [div_mul_div_comm, hi, div_eq_iff (mul_ne_zero hy0 hy0)]
  linear_combination -hd

/-- Structural normal form of `spake_xrecover`: the ONLY lemma that looks at the shape of the
generated definition.  Everything else is derived from these semantic facts. -/
theorem xr_master (y : ℤ) :
    ∃ a z xx x1 x2 : ℤ,
      (a : F) = (y : F) ^ 2 - 1 ∧ (z : F) = dF * (y : F) ^ 2 + 1 ∧
      xx = a * spake_inv z ∧
      x1 = xx ^ sqrtExp % (Q : ℤ) ∧
      (((x1 : F) ^ 2 = (xx : F) ∧ x2 = x1) ∨
        ((x1 : F) ^ 2 ≠ (xx : F) ∧ (x2 : F) = (x1 : F) * iF ∧ 0 ≤ x2 ∧ x2 < Q)) ∧
      ((x2 % 2 = 0 ∧ spake_xrecover y = x2) ∨
        (x2 % 2 = 1 ∧ spake_xrecover y = (Q : ℤ) - x2)) := by
  -- name the result, so that all pattern matching below happens in `hr` only
  obtain ⟨r, hr⟩ : ∃ r : ℤ, r = spake_xrecover y := ⟨_, rfl⟩
  rw [← hr]
  simp only [spake_xrecover] at hr
  -- abstract the quotient `xx = (y²-1)·inv(d·y²+1)` and the candidate root `x1 = xx^e % Q`
  try simp only [xr_inv_mul_comm] at hr
  generalize hxx : _ * spake_inv _ = xx at hr
  generalize hx1 : xx ^ _ % (Q : ℤ) = x1 at hr
  -- the two factors of xx (semantic facts only)
  obtain ⟨a, z, ha, hz, hxx'⟩ : ∃ a z : ℤ, (a : F) = (y : F) ^ 2 - 1 ∧
      (z : F) = dF * (y : F) ^ 2 + 1 ∧ a * spake_inv z = xx := by
    refine ⟨_, _, ?_, ?_, hxx⟩ <;> ((try unfold dF); push_cast; ring)
  -- the exponent, whatever closed expression it is, evaluates to (Q+3)/8
  obtain ⟨E, hE, hx1'⟩ : ∃ E : ℕ, E = sqrtExp ∧ xx ^ E % (Q : ℤ) = x1 := by
    refine ⟨_, ?_, hx1⟩
    decide +kernel
  subst hE
  -- four branches: (multiply by sqrt(-1) or not) × (negate or not); `x2` is found by unification
  split_ifs at hr with hc hp hp
  all_goals
    have hcF := hc
    simp only [ne_eq, not_not, xr_emod_zero_iff, xr_emod_eq_iff] at hcF
    push_cast at hcF
    first
      | (refine ⟨a, z, xx, x1, _, ha, hz, hxx'.symm, hx1'.symm,
            Or.inr ⟨?_, ?_, Int.emod_nonneg _ Q_ne_zero_int, Int.emod_lt_of_pos _ Q_pos_int⟩,
            Or.inr ⟨?_, hr⟩⟩
         · intro he; apply hcF; linear_combination he
         · simp only [iF]; push_cast [ZMod.intCast_mod]; ring
         · omega)
      | (refine ⟨a, z, xx, x1, _, ha, hz, hxx'.symm, hx1'.symm,
            Or.inr ⟨?_, ?_, Int.emod_nonneg _ Q_ne_zero_int, Int.emod_lt_of_pos _ Q_pos_int⟩,
            Or.inl ⟨?_, hr⟩⟩
         · intro he; apply hcF; linear_combination he
         · simp only [iF]; push_cast [ZMod.intCast_mod]; ring
         · omega)
      | (refine ⟨a, z, xx, x1, x1, ha, hz, hxx'.symm, hx1'.symm,
            Or.inl ⟨?_, rfl⟩, Or.inr ⟨?_, hr⟩⟩
         · linear_combination hcF
         · omega)
      | (refine ⟨a, z, xx, x1, x1, ha, hz, hxx'.symm, hx1'.symm,
            Or.inl ⟨?_, rfl⟩, Or.inl ⟨?_, hr⟩⟩
         · linear_combination hcF
         · omega)

/-- Semantic summary of `xr_master`: an intermediate canonical `x2` with `x2² = xx` whenever
`xx` is a square, and the result is `x2` (even) or `Q − x2` (x2 odd). -/
theorem xr_x2_range (y : ℤ) :
    ∃ x2 : ℤ, 0 ≤ x2 ∧ x2 < Q ∧
      ((x2 % 2 = 0 ∧ spake_xrecover y = x2) ∨
        (x2 % 2 = 1 ∧ spake_xrecover y = (Q : ℤ) - x2)) := by
  obtain ⟨a, z, xx, x1, x2, -, -, -, hx1, hx2, hpar⟩ := xr_master y
  refine ⟨x2, ?_, ?_, hpar⟩
  · rcases hx2 with ⟨-, h⟩ | ⟨-, -, h, -⟩
    · rw [h, hx1]; exact Int.emod_nonneg _ Q_ne_zero_int
    · exact h
  · rcases hx2 with ⟨-, h⟩ | ⟨-, -, -, h⟩
    · rw [h, hx1]; exact Int.emod_lt_of_pos _ Q_pos_int
    · exact h

/-- A.1: the recovered x is a canonical, even representative. -/
theorem xrecover_range (y : ℤ) :
    0 ≤ spake_xrecover y ∧ spake_xrecover y < Q ∧ spake_xrecover y % 2 = 0 := by
  obtain ⟨x2, h0, h1, hpar⟩ := xr_x2_range y
  have hQ := Q_odd
  rcases hpar with ⟨hp, hr⟩ | ⟨hp, hr⟩
  · rw [hr]; exact ⟨h0, h1, hp⟩
  · rw [hr]; refine ⟨by omega, by omega, by omega⟩

/-- the recovered x squares to `x0²` whenever `(x0, y)` is on the curve -/
theorem xrecover_sq_eq (y : ℤ) (x0 : F) (h : OnCurve (x0, (y : F))) :
    ((spake_xrecover y : ℤ) : F) ^ 2 = x0 ^ 2 := by
  obtain ⟨a, z, xx, x1, x2, ha, hz, hxx, hx1, hx2, hpar⟩ := xr_master y
  have hden : dF * (y : F) ^ 2 + 1 ≠ 0 := xr_den_ne_zero h
  have hzne : (z : F) ≠ 0 := by rw [hz]; exact hden
  have hcurve : x0 ^ 2 * (dF * (y : F) ^ 2 + 1) = (y : F) ^ 2 - 1 := by
    simp only [OnCurve] at h; linear_combination -h
  -- xx is the square x0²
  have hxxF : (xx : F) = x0 ^ 2 := by
    rw [hxx]; push_cast; rw [spake_inv_cast hzne, ha, hz, ← hcurve]
    field_simp
  -- candidate root
  have hx1F : (x1 : F) = (x0 ^ 2) ^ sqrtExp := by
    rw [hx1]; push_cast [ZMod.intCast_mod]; rw [hxxF]
  have hI : ((spake_I : ℤ) : F) ^ 2 = -1 := I_sq
  have hx2F : (x2 : F) ^ 2 = x0 ^ 2 := by
    rcases hx2 with ⟨hs, he⟩ | ⟨hs, he, -, -⟩
    · rw [he, hs, hxxF]
    · rw [he]; simp only [iF]
      rcases xr_sqrt_core x0 with hk | hk
      · exfalso; apply hs; rw [hx1F, hxxF]; exact hk
      · rw [← hx1F] at hk
        linear_combination ((spake_I : ℤ) : F) ^ 2 * hk - x0 ^ 2 * hI
  rcases hpar with ⟨-, hr⟩ | ⟨-, hr⟩
  · rw [hr]; exact hx2F
  · rw [hr]; push_cast; rw [ZMod.natCast_self]; linear_combination hx2F

/-- A.2: completeness of x-recovery: if some curve point has y-coordinate `y`, the recovered
x-coordinate together with `y` is a curve point. -/
theorem xrecover_complete (y : ℤ) (x0 : F) (h : OnCurve (x0, (y : F))) :
    OnCurve (((spake_xrecover y : ℤ) : F), (y : F)) := by
  have hsq := xrecover_sq_eq y x0 h
  simp only [OnCurve] at h ⊢
  linear_combination h + (-1 - dF * (y : F) ^ 2) * hsq

/-- A.3: the recovered x is `±x0`. -/
theorem xrecover_sq (y : ℤ) (x0 : F) (h : OnCurve (x0, (y : F))) :
    ((spake_xrecover y : ℤ) : F) = x0 ∨ ((spake_xrecover y : ℤ) : F) = -x0 :=
  enc_injective_core (p := (((spake_xrecover y : ℤ) : F), (y : F))) (q := (x0, (y : F)))
    (xrecover_complete y x0 h) h rfl

end ExtraA

/-! # Part B: points of small order and the ladder difference -/

section ExtraB
variable [Fact (Nat.Prime Q)]

/-- B.4: a curve point with a zero coordinate is one of `(0,±1)`, `(±i,0)`; its fourfold is `eO`. -/
theorem zero_coord_order_four (p : F × F) (h : OnCurve p) (hz : p.1 = 0 ∨ p.2 = 0) :
    eadd (eadd p p) (eadd p p) = eO := by
  obtain ⟨x, y⟩ := p
  simp only [OnCurve] at h
  simp only at hz
  rcases hz with hx | hy
  · subst hx
    have hy2 : y * y = 1 := by linear_combination h
    simp [eadd, eO, hy2]
  · subst hy
    have hx2 : x * x = -1 := by linear_combination -h
    simp [eadd, eO, hx2]

end ExtraB

section ExtraC
variable {G : Type*} [AddCommGroup G]

/-- in a group, an element killed by a prime `L` and non-zero is not killed by any non-multiple -/
theorem prime_order_local (L : ℕ) (hL : L.Prime) (n : ℤ) (P : G) (hP : (L : ℤ) • P = 0)
    (hne : P ≠ 0) (hn : ¬ (L : ℤ) ∣ n) : n • P ≠ 0 := by
  intro h0
  have hL' : Prime (L : ℤ) := Nat.prime_iff_prime_int.mp hL
  have hcop : IsCoprime (L : ℤ) n := by
    rw [hL'.irreducible.coprime_iff_not_dvd]; exact hn
  obtain ⟨u, v, huv⟩ := hcop
  apply hne
  calc P = (1 : ℤ) • P := (one_zsmul P).symm
    _ = (u * L + v * n) • P := by rw [huv]
    _ = u • ((L : ℤ) • P) + v • (n • P) := by rw [add_zsmul, mul_zsmul, mul_zsmul]
    _ = 0 := by rw [hP, h0, zsmul_zero, zsmul_zero, add_zero]

/-- B.5: in a subgroup of odd prime order `L`, the ladder difference `(2k)•P − P`
(`0 ≤ k`, `2k+1 < L`) is never a point of order dividing 4. -/
theorem ladder_diff_abstract (L : ℕ) (hL : L.Prime) (hodd : L % 2 = 1) (P T : G)
    (hP : (L : ℤ) • P = 0) (hne : P ≠ 0) (k : ℤ) (hk0 : 0 ≤ k) (hk : 2 * k + 1 < L)
    (hT : (4 : ℤ) • T = 0) (h : (2 * k) • P - P = T) : False := by
  have h1 : (4 * (2 * k - 1)) • P = 0 := by
    have e : (4 * (2 * k - 1)) • P = (4 : ℤ) • ((2 * k) • P - P) := by module
    rw [e, h, hT]
  have hdvd : (L : ℤ) ∣ 4 * (2 * k - 1) := by
    by_contra hnd
    exact prime_order_local L hL _ P hP hne hnd h1
  have hL' : Prime (L : ℤ) := Nat.prime_iff_prime_int.mp hL
  have hL2 : (2 : ℤ) ≤ (L : ℤ) := by exact_mod_cast hL.two_le
  rcases hL'.dvd_mul.mp hdvd with h4 | hk'
  · have h4' : L ∣ 4 := by exact_mod_cast h4
    have hle : L ≤ 4 := Nat.le_of_dvd (by norm_num) h4'
    have h2 := hL.two_le
    interval_cases L <;> omega
  · obtain ⟨c, hc⟩ := hk'
    rcases lt_trichotomy c 0 with hc0 | hc0 | hc0
    · nlinarith
    · subst hc0; omega
    · nlinarith

end ExtraC

/-! # Axiom audit (parsed by build_extra.sh) -/
#print axioms xrecover_range
#print axioms xrecover_sq_eq
#print axioms xrecover_complete
#print axioms xrecover_sq
#print axioms zero_coord_order_four
#print axioms prime_order_local
#print axioms ladder_diff_abstract
/-!
# EdwardsGroup.lean — the curve points form an abelian group under `eadd`

Appended after Header + Generated + EdwardsProofs + EdwardsExtra (see build_group.sh).
Associativity follows Hales, "The Group Law for Edwards Curves" (2016): after clearing the
(non-zero, by `edwards_complete` + `eadd_closed`) denominators, each coordinate of
`(P1+P2)+P3 = P1+(P2+P3)` is a polynomial identity that lies in the ideal generated by the three
curve equations; the cofactors were computed by `scratch/cert.py` and are checked here by
`linear_combination`.
-/

section GroupGeneric
variable {K : Type*} [Field K]

/-- the x-coordinate associativity numerator lies in the ideal of the three curve equations
(cofactors found by scratch/cert.py) -/
theorem assoc_poly_x {d x1 y1 x2 y2 x3 y3 : K}
    (h1 : -x1^2 + y1^2 = 1 + d*x1^2*y1^2)
    (h2 : -x2^2 + y2^2 = 1 + d*x2^2*y2^2)
    (h3 : -x3^2 + y3^2 = 1 + d*x3^2*y3^2) :
    ((x1*y2 + x2*y1)*y3*(1 - d*x1*x2*y1*y2) + x3*(y1*y2 + x1*x2)*(1 + d*x1*x2*y1*y2))
        * ((1 + d*x2*x3*y2*y3)*(1 - d*x2*x3*y2*y3) + d*x1*y1*(x2*y3 + x3*y2)*(y2*y3 + x2*x3))
      - (x1*(y2*y3 + x2*x3)*(1 + d*x2*x3*y2*y3) + (x2*y3 + x3*y2)*y1*(1 - d*x2*x3*y2*y3))
        * ((1 + d*x1*x2*y1*y2)*(1 - d*x1*x2*y1*y2) + d*x3*y3*(x1*y2 + x2*y1)*(y1*y2 + x1*x2)) = 0 := by
  linear_combination (exp := 1)
    (- d^2*x1*x2^4*y2^3*x3^2*y3 - d^2*x1*x2^3*y2^4*x3*y3^2 + d^2*y1*x2^4*y2^3*x3*y3^2 +
      d^2*y1*x2^3*y2^4*x3^2*y3 - d*x1*x2^4*y2*x3^2*y3 - d*x1*x2^3*y2^2*x3^3 - d*x1*x2^3*y2^2*x3 +
      d*x1*x2^2*y2^3*y3^3 - d*x1*x2^2*y2^3*y3 + d*x1*x2*y2^4*x3*y3^2 + d*y1*x2^4*y2*x3*y3^2 +
      d*y1*x2^3*y2^2*y3^3 - d*y1*x2^3*y2^2*y3 - d*y1*x2^2*y2^3*x3^3 - d*y1*x2^2*y2^3*x3 -
      d*y1*x2*y2^4*x3^2*y3) * h1
    + (d^2*x1^2*y1*x2^2*y2*x3^3*y3^2 - d^2*x1^2*y1*x2*y2^2*x3^2*y3^3 - d^2*x1*y1^2*x2^2*y2*x3^2*y3^3 +
      d^2*x1*y1^2*x2*y2^2*x3^3*y3^2 + d*x1^3*x2^2*y2*x3^2*y3 + d*x1^3*x2*y2^2*x3*y3^2 +
      d*x1^3*x2*x3^3*y3^2 + d*x1^3*y2*x3^2*y3^3 - d*x1^2*y1*x2^2*y2*x3*y3^2 -
      d*x1^2*y1*x2*y2^2*x3^2*y3 + d*x1^2*y1*x2*x3^2*y3^3 + d*x1^2*y1*y2*x3^3*y3^2 -
      d*x1*y1^2*x2^2*y2*x3^2*y3 - d*x1*y1^2*x2*y2^2*x3*y3^2 - d*x1*y1^2*x2*x3^3*y3^2 -
      d*x1*y1^2*y2*x3^2*y3^3 + d*x1*x2^2*y2*x3^2*y3 + d*x1*x2*y2^2*x3*y3^2 + d*x1*x2*x3^3*y3^2 +
      d*x1*y2*x3^2*y3^3 + d*y1^3*x2^2*y2*x3*y3^2 + d*y1^3*x2*y2^2*x3^2*y3 - d*y1^3*x2*x3^2*y3^3 -
      d*y1^3*y2*x3^3*y3^2 - d*y1*x2^2*y2*x3*y3^2 - d*y1*x2*y2^2*x3^2*y3 + d*y1*x2*x3^2*y3^3 +
      d*y1*y2*x3^3*y3^2 + x1^3*x2*x3^3 - x1^3*x2*x3*y3^2 + x1^3*x2*x3 + x1^3*y2*x3^2*y3 - x1^3*y2*y3^3
      + x1^3*y2*y3 + x1^2*y1*x2*x3^2*y3 - x1^2*y1*x2*y3^3 + x1^2*y1*x2*y3 + x1^2*y1*y2*x3^3 -
      x1^2*y1*y2*x3*y3^2 + x1^2*y1*y2*x3 - x1*y1^2*x2*x3^3 + x1*y1^2*x2*x3*y3^2 - x1*y1^2*x2*x3 -
      x1*y1^2*y2*x3^2*y3 + x1*y1^2*y2*y3^3 - x1*y1^2*y2*y3 + x1*x2*x3^3 - x1*x2*x3*y3^2 + x1*x2*x3 +
      x1*y2*x3^2*y3 - x1*y2*y3^3 + x1*y2*y3 - y1^3*x2*x3^2*y3 + y1^3*x2*y3^3 - y1^3*x2*y3 -
      y1^3*y2*x3^3 + y1^3*y2*x3*y3^2 - y1^3*y2*x3 + y1*x2*x3^2*y3 - y1*x2*y3^3 + y1*x2*y3 + y1*y2*x3^3
      - y1*y2*x3*y3^2 + y1*y2*x3) * h2
    + (- d*x1^2*y1*x2^2*y2*x3 + d*x1^2*y1*x2*y2^2*y3 + d*x1*y1^2*x2^2*y2*y3 - d*x1*y1^2*x2*y2^2*x3 -
      x1^3*x2^3*x3 - x1^3*x2^2*y2*y3 + x1^3*x2*y2^2*x3 - x1^3*x2*x3 + x1^3*y2^3*y3 - x1^3*y2*y3 -
      x1^2*y1*x2^3*y3 - x1^2*y1*x2^2*y2*x3 + x1^2*y1*x2*y2^2*y3 - x1^2*y1*x2*y3 + x1^2*y1*y2^3*x3 -
      x1^2*y1*y2*x3 + x1*y1^2*x2^3*x3 + x1*y1^2*x2^2*y2*y3 - x1*y1^2*x2*y2^2*x3 + x1*y1^2*x2*x3 -
      x1*y1^2*y2^3*y3 + x1*y1^2*y2*y3 - x1*x2^3*x3 - x1*x2^2*y2*y3 + x1*x2*y2^2*x3 - x1*x2*x3 +
      x1*y2^3*y3 - x1*y2*y3 + y1^3*x2^3*y3 + y1^3*x2^2*y2*x3 - y1^3*x2*y2^2*y3 + y1^3*x2*y3 -
      y1^3*y2^3*x3 + y1^3*y2*x3 - y1*x2^3*y3 - y1*x2^2*y2*x3 + y1*x2*y2^2*y3 - y1*x2*y3 + y1*y2^3*x3 -
      y1*y2*x3) * h3

/-- the y-coordinate associativity numerator lies in the ideal of the three curve equations
(cofactors found by scratch/cert.py) -/
theorem assoc_poly_y {d x1 y1 x2 y2 x3 y3 : K}
    (h1 : -x1^2 + y1^2 = 1 + d*x1^2*y1^2)
    (h2 : -x2^2 + y2^2 = 1 + d*x2^2*y2^2)
    (h3 : -x3^2 + y3^2 = 1 + d*x3^2*y3^2) :
    ((y1*y2 + x1*x2)*y3*(1 + d*x1*x2*y1*y2) + (x1*y2 + x2*y1)*x3*(1 - d*x1*x2*y1*y2))
        * ((1 + d*x2*x3*y2*y3)*(1 - d*x2*x3*y2*y3) - d*x1*y1*(x2*y3 + x3*y2)*(y2*y3 + x2*x3))
      - (y1*(y2*y3 + x2*x3)*(1 + d*x2*x3*y2*y3) + x1*(x2*y3 + x3*y2)*(1 - d*x2*x3*y2*y3))
        * ((1 + d*x1*x2*y1*y2)*(1 - d*x1*x2*y1*y2) - d*x3*y3*(x1*y2 + x2*y1)*(y1*y2 + x1*x2)) = 0 := by
  linear_combination (exp := 1)
    (d^2*x1*x2^4*y2^3*x3*y3^2 + d^2*x1*x2^3*y2^4*x3^2*y3 - d^2*y1*x2^4*y2^3*x3^2*y3 -
      d^2*y1*x2^3*y2^4*x3*y3^2 + d*x1*x2^4*y2*x3*y3^2 + d*x1*x2^3*y2^2*y3^3 - d*x1*x2^3*y2^2*y3 -
      d*x1*x2^2*y2^3*x3^3 - d*x1*x2^2*y2^3*x3 - d*x1*x2*y2^4*x3^2*y3 - d*y1*x2^4*y2*x3^2*y3 -
      d*y1*x2^3*y2^2*x3^3 - d*y1*x2^3*y2^2*x3 + d*y1*x2^2*y2^3*y3^3 - d*y1*x2^2*y2^3*y3 +
      d*y1*x2*y2^4*x3*y3^2) * h1
    + (d^2*x1^2*y1*x2^2*y2*x3^2*y3^3 - d^2*x1^2*y1*x2*y2^2*x3^3*y3^2 - d^2*x1*y1^2*x2^2*y2*x3^3*y3^2 +
      d^2*x1*y1^2*x2*y2^2*x3^2*y3^3 - d*x1^3*x2^2*y2*x3*y3^2 - d*x1^3*x2*y2^2*x3^2*y3 +
      d*x1^3*x2*x3^2*y3^3 + d*x1^3*y2*x3^3*y3^2 + d*x1^2*y1*x2^2*y2*x3^2*y3 +
      d*x1^2*y1*x2*y2^2*x3*y3^2 + d*x1^2*y1*x2*x3^3*y3^2 + d*x1^2*y1*y2*x3^2*y3^3 +
      d*x1*y1^2*x2^2*y2*x3*y3^2 + d*x1*y1^2*x2*y2^2*x3^2*y3 - d*x1*y1^2*x2*x3^2*y3^3 -
      d*x1*y1^2*y2*x3^3*y3^2 - d*x1*x2^2*y2*x3*y3^2 - d*x1*x2*y2^2*x3^2*y3 + d*x1*x2*x3^2*y3^3 +
      d*x1*y2*x3^3*y3^2 - d*y1^3*x2^2*y2*x3^2*y3 - d*y1^3*x2*y2^2*x3*y3^2 - d*y1^3*x2*x3^3*y3^2 -
      d*y1^3*y2*x3^2*y3^3 + d*y1*x2^2*y2*x3^2*y3 + d*y1*x2*y2^2*x3*y3^2 + d*y1*x2*x3^3*y3^2 +
      d*y1*y2*x3^2*y3^3 + x1^3*x2*x3^2*y3 - x1^3*x2*y3^3 + x1^3*x2*y3 + x1^3*y2*x3^3 - x1^3*y2*x3*y3^2
      + x1^3*y2*x3 + x1^2*y1*x2*x3^3 - x1^2*y1*x2*x3*y3^2 + x1^2*y1*x2*x3 + x1^2*y1*y2*x3^2*y3 -
      x1^2*y1*y2*y3^3 + x1^2*y1*y2*y3 - x1*y1^2*x2*x3^2*y3 + x1*y1^2*x2*y3^3 - x1*y1^2*x2*y3 -
      x1*y1^2*y2*x3^3 + x1*y1^2*y2*x3*y3^2 - x1*y1^2*y2*x3 + x1*x2*x3^2*y3 - x1*x2*y3^3 + x1*x2*y3 +
      x1*y2*x3^3 - x1*y2*x3*y3^2 + x1*y2*x3 - y1^3*x2*x3^3 + y1^3*x2*x3*y3^2 - y1^3*x2*x3 -
      y1^3*y2*x3^2*y3 + y1^3*y2*y3^3 - y1^3*y2*y3 + y1*x2*x3^3 - y1*x2*x3*y3^2 + y1*x2*x3 +
      y1*y2*x3^2*y3 - y1*y2*y3^3 + y1*y2*y3) * h2
    + (- d*x1^2*y1*x2^2*y2*y3 + d*x1^2*y1*x2*y2^2*x3 + d*x1*y1^2*x2^2*y2*x3 - d*x1*y1^2*x2*y2^2*y3 -
      x1^3*x2^3*y3 - x1^3*x2^2*y2*x3 + x1^3*x2*y2^2*y3 - x1^3*x2*y3 + x1^3*y2^3*x3 - x1^3*y2*x3 -
      x1^2*y1*x2^3*x3 - x1^2*y1*x2^2*y2*y3 + x1^2*y1*x2*y2^2*x3 - x1^2*y1*x2*x3 + x1^2*y1*y2^3*y3 -
      x1^2*y1*y2*y3 + x1*y1^2*x2^3*y3 + x1*y1^2*x2^2*y2*x3 - x1*y1^2*x2*y2^2*y3 + x1*y1^2*x2*y3 -
      x1*y1^2*y2^3*x3 + x1*y1^2*y2*x3 - x1*x2^3*y3 - x1*x2^2*y2*x3 + x1*x2*y2^2*y3 - x1*x2*y3 +
      x1*y2^3*x3 - x1*y2*x3 + y1^3*x2^3*x3 + y1^3*x2^2*y2*y3 - y1^3*x2*y2^2*x3 + y1^3*x2*x3 -
      y1^3*y2^3*y3 + y1^3*y2*y3 - y1*x2^3*x3 - y1*x2^2*y2*y3 + y1*x2*y2^2*x3 - y1*x2*x3 + y1*y2^3*y3 -
      y1*y2*y3) * h3

/-- clearing the inner denominators of the cross-multiplied x-coordinate equation -/
theorem assoc_frac_x (d x1 y1 x3 y3 n1 n2 a b m1 m2 a' b' : K)
    (ha : a ≠ 0) (hb : b ≠ 0) (ha' : a' ≠ 0) (hb' : b' ≠ 0) :
    (n1/a*y3 + x3*(n2/b)) * (1 + d*x1*(m1/a')*y1*(m2/b'))
      - (x1*(m2/b') + (m1/a')*y1) * (1 + d*(n1/a)*x3*(n2/b)*y3)
    = ((n1*y3*b + x3*n2*a) * (a'*b' + d*x1*y1*m1*m2)
        - (x1*m2*a' + m1*y1*b') * (a*b + d*x3*y3*n1*n2)) / (a*b*a'*b') := by
  field_simp

/-- clearing the inner denominators of the cross-multiplied y-coordinate equation -/
theorem assoc_frac_y (d x1 y1 x3 y3 n1 n2 a b m1 m2 a' b' : K)
    (ha : a ≠ 0) (hb : b ≠ 0) (ha' : a' ≠ 0) (hb' : b' ≠ 0) :
    (n2/b*y3 + n1/a*x3) * (1 - d*x1*(m1/a')*y1*(m2/b'))
      - (y1*(m2/b') + x1*(m1/a')) * (1 - d*(n1/a)*x3*(n2/b)*y3)
    = ((n2*y3*a + n1*x3*b) * (a'*b' - d*x1*y1*m1*m2)
        - (y1*m2*a' + x1*m1*b') * (a*b - d*x3*y3*n1*n2)) / (a*b*a'*b') := by
  field_simp

/-- Associativity of the a = −1 twisted Edwards law over an arbitrary field, for three curve
points, given that all six pairs of denominators that occur are non-zero. -/
theorem assoc_generic {d x1 y1 x2 y2 x3 y3 : K}
    (h1 : -x1^2 + y1^2 = 1 + d*x1^2*y1^2)
    (h2 : -x2^2 + y2^2 = 1 + d*x2^2*y2^2)
    (h3 : -x3^2 + y3^2 = 1 + d*x3^2*y3^2)
    (ha : 1 + d*x1*x2*y1*y2 ≠ 0) (hb : 1 - d*x1*x2*y1*y2 ≠ 0)
    (ha' : 1 + d*x2*x3*y2*y3 ≠ 0) (hb' : 1 - d*x2*x3*y2*y3 ≠ 0)
    (hLp : 1 + d*((x1*y2 + x2*y1)/(1 + d*x1*x2*y1*y2))*x3
              *((y1*y2 + x1*x2)/(1 - d*x1*x2*y1*y2))*y3 ≠ 0)
    (hLm : 1 - d*((x1*y2 + x2*y1)/(1 + d*x1*x2*y1*y2))*x3
              *((y1*y2 + x1*x2)/(1 - d*x1*x2*y1*y2))*y3 ≠ 0)
    (hRp : 1 + d*x1*((x2*y3 + x3*y2)/(1 + d*x2*x3*y2*y3))*y1
              *((y2*y3 + x2*x3)/(1 - d*x2*x3*y2*y3)) ≠ 0)
    (hRm : 1 - d*x1*((x2*y3 + x3*y2)/(1 + d*x2*x3*y2*y3))*y1
              *((y2*y3 + x2*x3)/(1 - d*x2*x3*y2*y3)) ≠ 0) :
    (((x1*y2 + x2*y1)/(1 + d*x1*x2*y1*y2))*y3 + x3*((y1*y2 + x1*x2)/(1 - d*x1*x2*y1*y2)))
        / (1 + d*((x1*y2 + x2*y1)/(1 + d*x1*x2*y1*y2))*x3
              *((y1*y2 + x1*x2)/(1 - d*x1*x2*y1*y2))*y3)
      = (x1*((y2*y3 + x2*x3)/(1 - d*x2*x3*y2*y3)) + ((x2*y3 + x3*y2)/(1 + d*x2*x3*y2*y3))*y1)
        / (1 + d*x1*((x2*y3 + x3*y2)/(1 + d*x2*x3*y2*y3))*y1
              *((y2*y3 + x2*x3)/(1 - d*x2*x3*y2*y3)))
    ∧
    (((y1*y2 + x1*x2)/(1 - d*x1*x2*y1*y2))*y3 + ((x1*y2 + x2*y1)/(1 + d*x1*x2*y1*y2))*x3)
        / (1 - d*((x1*y2 + x2*y1)/(1 + d*x1*x2*y1*y2))*x3
              *((y1*y2 + x1*x2)/(1 - d*x1*x2*y1*y2))*y3)
      = (y1*((y2*y3 + x2*x3)/(1 - d*x2*x3*y2*y3)) + x1*((x2*y3 + x3*y2)/(1 + d*x2*x3*y2*y3)))
        / (1 - d*x1*((x2*y3 + x3*y2)/(1 + d*x2*x3*y2*y3))*y1
              *((y2*y3 + x2*x3)/(1 - d*x2*x3*y2*y3))) := by
  constructor
  · rw [div_eq_div_iff hLp hRp]
    have key := assoc_frac_x d x1 y1 x3 y3 (x1*y2 + x2*y1) (y1*y2 + x1*x2)
      (1 + d*x1*x2*y1*y2) (1 - d*x1*x2*y1*y2) (x2*y3 + x3*y2) (y2*y3 + x2*x3)
      (1 + d*x2*x3*y2*y3) (1 - d*x2*x3*y2*y3) ha hb ha' hb'
    rw [assoc_poly_x h1 h2 h3, zero_div] at key
    linear_combination key
  · rw [div_eq_div_iff hLm hRm]
    have key := assoc_frac_y d x1 y1 x3 y3 (x1*y2 + x2*y1) (y1*y2 + x1*x2)
      (1 + d*x1*x2*y1*y2) (1 - d*x1*x2*y1*y2) (x2*y3 + x3*y2) (y2*y3 + x2*x3)
      (1 + d*x2*x3*y2*y3) (1 - d*x2*x3*y2*y3) ha hb ha' hb'
    rw [assoc_poly_y h1 h2 h3, zero_div] at key
    linear_combination key

end GroupGeneric

/-! # The group law on the real curve -/
section Group
variable [Fact (Nat.Prime Q)]

/-- commutativity needs no curve hypothesis -/
theorem eadd_comm (p q : F × F) : eadd p q = eadd q p := by
  unfold eadd
  refine Prod.ext ?_ ?_
  · show (p.1*q.2 + q.1*p.2) / (1 + dF*p.1*q.1*p.2*q.2)
        = (q.1*p.2 + p.1*q.2) / (1 + dF*q.1*p.1*q.2*p.2)
    congr 1 <;> ring
  · show (p.2*q.2 + p.1*q.1) / (1 - dF*p.1*q.1*p.2*q.2)
        = (q.2*p.2 + q.1*p.1) / (1 - dF*q.1*p.1*q.2*p.2)
    congr 1 <;> ring

theorem eO_onCurve : OnCurve eO := by
  simp [OnCurve, eO]

theorem eadd_zero (p : F × F) : eadd p eO = p := by
  obtain ⟨x, y⟩ := p
  simp [eadd, eO]

theorem zero_eadd (p : F × F) : eadd eO p = p := by
  rw [eadd_comm, eadd_zero]

theorem eneg_closed {p : F × F} (h : OnCurve p) : OnCurve (eneg p) := by
  unfold OnCurve eneg at *
  simpa using h

theorem eneg_eneg (p : F × F) : eneg (eneg p) = p := by
  simp [eneg]

theorem eneg_zero : eneg eO = eO := by
  simp [eneg, eO]

theorem eadd_neg (p : F × F) (h : OnCurve p) : eadd p (eneg p) = eO := by
  obtain ⟨hp, hm⟩ := edwards_complete h (eneg_closed h)
  obtain ⟨x, y⟩ := p
  simp only [eneg] at hp hm
  simp only [OnCurve] at h
  refine Prod.ext ?_ ?_
  · show (x*y + (-x)*y) / (1 + dF*x*(-x)*y*y) = 0
    rw [div_eq_zero_iff]; left; ring
  · show (y*y + x*(-x)) / (1 - dF*x*(-x)*y*y) = 1
    rw [div_eq_one_iff_eq hm]
    linear_combination h

theorem neg_eadd (p : F × F) (h : OnCurve p) : eadd (eneg p) p = eO := by
  rw [eadd_comm, eadd_neg p h]

/-- negation distributes over addition (no curve hypothesis needed) -/
theorem eadd_eneg_distrib (p q : F × F) : eneg (eadd p q) = eadd (eneg p) (eneg q) := by
  obtain ⟨x1, y1⟩ := p
  obtain ⟨x2, y2⟩ := q
  refine Prod.ext ?_ ?_
  · show -((x1*y2 + x2*y1) / (1 + dF*x1*x2*y1*y2))
        = ((-x1)*y2 + (-x2)*y1) / (1 + dF*(-x1)*(-x2)*y1*y2)
    rw [← neg_div]
    congr 1 <;> ring
  · show (y1*y2 + x1*x2) / (1 - dF*x1*x2*y1*y2)
        = (y1*y2 + (-x1)*(-x2)) / (1 - dF*(-x1)*(-x2)*y1*y2)
    congr 1 <;> ring

/-- **Associativity of the Edwards addition law on curve points.** -/
theorem eadd_assoc (p q r : F × F) (hp : OnCurve p) (hq : OnCurve q) (hr : OnCurve r) :
    eadd (eadd p q) r = eadd p (eadd q r) := by
  obtain ⟨ha, hb⟩ := edwards_complete hp hq
  obtain ⟨ha', hb'⟩ := edwards_complete hq hr
  obtain ⟨hLp, hLm⟩ := edwards_complete (eadd_closed hp hq) hr
  obtain ⟨hRp, hRm⟩ := edwards_complete hp (eadd_closed hq hr)
  obtain ⟨x1, y1⟩ := p
  obtain ⟨x2, y2⟩ := q
  obtain ⟨x3, y3⟩ := r
  obtain ⟨ex, ey⟩ := assoc_generic (d := dF) hp hq hr ha hb ha' hb' hLp hLm hRp hRm
  exact Prod.ext ex ey

/-! ## The curve as an `AddCommGroup` -/

/-- points of the twisted Edwards curve over `F = ZMod Q` -/
def Curve : Type := {p : F × F // OnCurve p}

namespace Curve

instance : Add Curve := ⟨fun p q => ⟨eadd p.1 q.1, eadd_closed p.2 q.2⟩⟩
instance : Zero Curve := ⟨⟨eO, eO_onCurve⟩⟩
instance : Neg Curve := ⟨fun p => ⟨eneg p.1, eneg_closed p.2⟩⟩

@[simp] theorem add_val (p q : Curve) : (p + q).1 = eadd p.1 q.1 := rfl
@[simp] theorem zero_val : (0 : Curve).1 = eO := rfl
@[simp] theorem neg_val (p : Curve) : (-p).1 = eneg p.1 := rfl

@[ext] theorem ext {p q : Curve} (h : p.1 = q.1) : p = q := Subtype.ext h

instance instAddCommGroup : AddCommGroup Curve where
  add_assoc p q r := Curve.ext (eadd_assoc p.1 q.1 r.1 p.2 q.2 r.2)
  zero_add p := Curve.ext (zero_eadd p.1)
  add_zero p := Curve.ext (eadd_zero p.1)
  nsmul := nsmulRec
  zsmul := zsmulRec
  neg_add_cancel p := Curve.ext (neg_eadd p.1 p.2)
  add_comm p q := Curve.ext (eadd_comm p.1 q.1)

/-- subtraction on `Curve` is addition of the Edwards negative -/
theorem sub_val (p q : Curve) : (p - q).1 = eadd p.1 (eneg q.1) := rfl

/-- sanity check: the abstract ℤ-module lemmas of EdwardsExtra apply to the real curve -/
theorem prime_order_local_curve (L : ℕ) (hL : L.Prime) (n : ℤ) (P : Curve)
    (hP : (L : ℤ) • P = 0) (hne : P ≠ 0) (hn : ¬ (L : ℤ) ∣ n) : n • P ≠ 0 :=
  prime_order_local (G := Curve) L hL n P hP hne hn

/-- the operations of the `AddCommGroup` structure are the Edwards operations (no diamond) -/
example : (instAddCommGroup.toAddCommMonoid.toAddMonoid.toAddSemigroup.toAdd : Add Curve) = instAdd := rfl
example : (instAddCommGroup.toAddGroup.toSubNegMonoid.toNeg : Neg Curve) = instNeg := rfl

/-- B.4 in group form: a curve point with a zero coordinate is killed by 4 -/
theorem four_zsmul_of_zero_coord (P : Curve) (hz : P.1.1 = 0 ∨ P.1.2 = 0) : (4 : ℤ) • P = 0 := by
  have h4 : (4 : ℤ) • P = (P + P) + (P + P) := by abel
  rw [h4]
  exact Curve.ext (zero_coord_order_four P.1 P.2 hz)

/-- B.5 on the real curve: if `P` is a non-zero curve point killed by an odd prime `L`, then for
`0 ≤ k`, `2k+1 < L` the ladder difference `(2k)•P − P` has both coordinates non-zero. -/
theorem ladder_diff_coords_ne_zero (L : ℕ) (hL : L.Prime) (hodd : L % 2 = 1) (P : Curve)
    (hP : (L : ℤ) • P = 0) (hne : P ≠ 0) (k : ℤ) (hk0 : 0 ≤ k) (hk : 2 * k + 1 < L) :
    ((2 * k) • P - P).1.1 ≠ 0 ∧ ((2 * k) • P - P).1.2 ≠ 0 := by
  have key : ¬ (((2 * k) • P - P).1.1 = 0 ∨ ((2 * k) • P - P).1.2 = 0) := fun hz =>
    ladder_diff_abstract (G := Curve) L hL hodd P _ hP hne k hk0 hk
      (four_zsmul_of_zero_coord _ hz) rfl
  exact ⟨fun h => key (Or.inl h), fun h => key (Or.inr h)⟩

end Curve

end Group

/-! # Axiom audit (parsed by build_group.sh) -/
#print axioms assoc_poly_x
#print axioms assoc_poly_y
#print axioms assoc_generic
#print axioms eadd_comm
#print axioms eO_onCurve
#print axioms eadd_zero
#print axioms zero_eadd
#print axioms eneg_closed
#print axioms eneg_eneg
#print axioms eadd_neg
#print axioms neg_eadd
#print axioms eadd_eneg_distrib
#print axioms eadd_assoc
#print axioms Curve.instAddCommGroup
#print axioms Curve.sub_val
#print axioms Curve.prime_order_local_curve
#print axioms Curve.four_zsmul_of_zero_coord
#print axioms Curve.ladder_diff_coords_ne_zero
