/-!
# EdwardsExtra.lean — x-recovery and small-order facts

Concatenated AFTER `Header.lean`, `Generated.lean`, `EdwardsProofs.lean` by `build_extra.sh`.

Part A: the generated `spake_xrecover` (RFC 8032 §5.1.3 for p ≡ 5 mod 8) returns an even
canonical representative, and whenever SOME curve point has the given y-coordinate the
recovered x is (up to sign) that point's x-coordinate.

Part B: curve points with a zero coordinate have order dividing 4; an abstract lemma shows
that in a prime-order subgroup the ladder difference `(2k)•P − P` is never such a point.

All syntactic dependence on the shape of `spake_xrecover` is confined to `xr_master`, which
unfolds the definition, abstracts the sub-terms by pattern (`generalize` with holes) and
records only SEMANTIC facts about them (casts into `ZMod Q`, ranges, the exponent value).
-/

/-! # Part A: x-recovery -/

/-- the exponent `(Q+3)/8` used for candidate square roots -/
def sqrtExp : ℕ := (Q + 3) / 8

theorem sqrtExp_spec : 8 * sqrtExp = Q + 3 := by decide +kernel
theorem Q_odd : Q % 2 = 1 := by decide +kernel
theorem Q_mod8 : Q % 8 = 5 := by decide +kernel

/-- orientation lemma: put a product with `spake_inv` into the form `a * spake_inv z` -/
theorem xr_inv_mul_comm (z a : ℤ) : spake_inv z * a = a * spake_inv z := mul_comm _ _

section ExtraA
variable [Fact (Nat.Prime Q)]

theorem xr_emod_zero_iff (a : ℤ) : a % (Q:ℤ) = 0 ↔ (a : F) = 0 := by
  rw [ZMod.intCast_zmod_eq_zero_iff_dvd]
  exact ⟨Int.dvd_of_emod_eq_zero, Int.emod_eq_zero_of_dvd⟩

theorem xr_emod_eq_iff (a b : ℤ) : a % (Q:ℤ) = b % (Q:ℤ) ↔ (a : F) = (b : F) :=
  (ZMod.intCast_eq_intCast_iff a b Q).symm

/-- Candidate square root for `p ≡ 5 (mod 8)`: for a square `u = x0²`, `r = u^((Q+3)/8)`
satisfies `r² = u` or `r² = −u`. (`r⁴ = x0^(Q+3) = x0^Q · x0³ = x0⁴ = u²`.) -/
theorem xr_sqrt_core (x0 : F) :
    ((x0 ^ 2) ^ sqrtExp) ^ 2 = x0 ^ 2 ∨ ((x0 ^ 2) ^ sqrtExp) ^ 2 = -(x0 ^ 2) := by
  have h4 : (((x0 ^ 2) ^ sqrtExp) ^ 2) ^ 2 = (x0 ^ 2) ^ 2 := by
    have e1 : (((x0 ^ 2) ^ sqrtExp) ^ 2) ^ 2 = x0 ^ (8 * sqrtExp) := by
      rw [← pow_mul, ← pow_mul, ← pow_mul]
      exact congrArg (fun n : ℕ => x0 ^ n) (by ring)
    rw [e1, sqrtExp_spec, pow_add, ZMod.pow_card]; ring
  have hfac : (((x0 ^ 2) ^ sqrtExp) ^ 2 - x0 ^ 2) * (((x0 ^ 2) ^ sqrtExp) ^ 2 + x0 ^ 2) = 0 := by
    linear_combination h4
  rcases mul_eq_zero.mp hfac with h | h
  · left; linear_combination h
  · right; linear_combination h

/-- On a curve point the denominator `d·y² + 1` of the x-recovery quotient is non-zero. -/
theorem xr_den_ne_zero {x0 y : F} (h : OnCurve (x0, y)) : dF * y ^ 2 + 1 ≠ 0 := by
  intro hd
  have hy0 : y ≠ 0 := by
    intro h0; rw [h0] at hd; simp at hd
  apply d_nonsquare (iF / y)
  have hi : iF * iF = -1 := curveConsts.i_sq
  rw [div_mul_div_comm, hi, div_eq_iff (mul_ne_zero hy0 hy0)]
  linear_combination -hd

/-- Structural normal form of `spake_xrecover`: the ONLY lemma that looks at the shape of the
generated definition.  Everything else is derived from these semantic facts. -/
theorem xr_master (y : ℤ) :
    ∃ a z xx x1 x2 : ℤ,
      (a : F) = (y : F) ^ 2 - 1 ∧ (z : F) = dF * (y : F) ^ 2 + 1 ∧
      xx = a * spake_inv z ∧
      x1 = xx ^ sqrtExp % (Q : ℤ) ∧
      (((x1 : F) ^ 2 = (xx : F) ∧ x2 = x1) ∨
        ((x1 : F) ^ 2 ≠ (xx : F) ∧ (x2 : F) = (x1 : F) * iF ∧ 0 ≤ x2 ∧ x2 < Q)) ∧
      ((x2 % 2 = 0 ∧ spake_xrecover y = x2) ∨
        (x2 % 2 = 1 ∧ spake_xrecover y = (Q : ℤ) - x2)) := by
  -- name the result, so that all pattern matching below happens in `hr` only
  obtain ⟨r, hr⟩ : ∃ r : ℤ, r = spake_xrecover y := ⟨_, rfl⟩
  rw [← hr]
  simp only [spake_xrecover] at hr
  -- abstract the quotient `xx = (y²-1)·inv(d·y²+1)` and the candidate root `x1 = xx^e % Q`
  try simp only [xr_inv_mul_comm] at hr
  generalize hxx : _ * spake_inv _ = xx at hr
  generalize hx1 : xx ^ _ % (Q : ℤ) = x1 at hr
  -- the two factors of xx (semantic facts only)
  obtain ⟨a, z, ha, hz, hxx'⟩ : ∃ a z : ℤ, (a : F) = (y : F) ^ 2 - 1 ∧
      (z : F) = dF * (y : F) ^ 2 + 1 ∧ a * spake_inv z = xx := by
    refine ⟨_, _, ?_, ?_, hxx⟩ <;> ((try unfold dF); push_cast; ring)
  -- the exponent, whatever closed expression it is, evaluates to (Q+3)/8
  obtain ⟨E, hE, hx1'⟩ : ∃ E : ℕ, E = sqrtExp ∧ xx ^ E % (Q : ℤ) = x1 := by
    refine ⟨_, ?_, hx1⟩
    decide +kernel
  subst hE
  -- four branches: (multiply by sqrt(-1) or not) × (negate or not); `x2` is found by unification
  split_ifs at hr with hc hp hp
  all_goals
    have hcF := hc
    simp only [ne_eq, not_not, xr_emod_zero_iff, xr_emod_eq_iff] at hcF
    push_cast at hcF
    first
      | (refine ⟨a, z, xx, x1, _, ha, hz, hxx'.symm, hx1'.symm,
            Or.inr ⟨?_, ?_, Int.emod_nonneg _ Q_ne_zero_int, Int.emod_lt_of_pos _ Q_pos_int⟩,
            Or.inr ⟨?_, hr⟩⟩
         · intro he; apply hcF; linear_combination he
         · simp only [iF]; push_cast [ZMod.intCast_mod]; ring
         · omega)
      | (refine ⟨a, z, xx, x1, _, ha, hz, hxx'.symm, hx1'.symm,
            Or.inr ⟨?_, ?_, Int.emod_nonneg _ Q_ne_zero_int, Int.emod_lt_of_pos _ Q_pos_int⟩,
            Or.inl ⟨?_, hr⟩⟩
         · intro he; apply hcF; linear_combination he
         · simp only [iF]; push_cast [ZMod.intCast_mod]; ring
         · omega)
      | (refine ⟨a, z, xx, x1, x1, ha, hz, hxx'.symm, hx1'.symm,
            Or.inl ⟨?_, rfl⟩, Or.inr ⟨?_, hr⟩⟩
         · linear_combination hcF
         · omega)
      | (refine ⟨a, z, xx, x1, x1, ha, hz, hxx'.symm, hx1'.symm,
            Or.inl ⟨?_, rfl⟩, Or.inl ⟨?_, hr⟩⟩
         · linear_combination hcF
         · omega)

/-- Semantic summary of `xr_master`: an intermediate canonical `x2` with `x2² = xx` whenever
`xx` is a square, and the result is `x2` (even) or `Q − x2` (x2 odd). -/
theorem xr_x2_range (y : ℤ) :
    ∃ x2 : ℤ, 0 ≤ x2 ∧ x2 < Q ∧
      ((x2 % 2 = 0 ∧ spake_xrecover y = x2) ∨
        (x2 % 2 = 1 ∧ spake_xrecover y = (Q : ℤ) - x2)) := by
  obtain ⟨a, z, xx, x1, x2, -, -, -, hx1, hx2, hpar⟩ := xr_master y
  refine ⟨x2, ?_, ?_, hpar⟩
  · rcases hx2 with ⟨-, h⟩ | ⟨-, -, h, -⟩
    · rw [h, hx1]; exact Int.emod_nonneg _ Q_ne_zero_int
    · exact h
  · rcases hx2 with ⟨-, h⟩ | ⟨-, -, -, h⟩
    · rw [h, hx1]; exact Int.emod_lt_of_pos _ Q_pos_int
    · exact h

/-- A.1: the recovered x is a canonical, even representative. -/
theorem xrecover_range (y : ℤ) :
    0 ≤ spake_xrecover y ∧ spake_xrecover y < Q ∧ spake_xrecover y % 2 = 0 := by
  obtain ⟨x2, h0, h1, hpar⟩ := xr_x2_range y
  have hQ := Q_odd
  rcases hpar with ⟨hp, hr⟩ | ⟨hp, hr⟩
  · rw [hr]; exact ⟨h0, h1, hp⟩
  · rw [hr]; refine ⟨by omega, by omega, by omega⟩

/-- the recovered x squares to `x0²` whenever `(x0, y)` is on the curve -/
theorem xrecover_sq_eq (y : ℤ) (x0 : F) (h : OnCurve (x0, (y : F))) :
    ((spake_xrecover y : ℤ) : F) ^ 2 = x0 ^ 2 := by
  obtain ⟨a, z, xx, x1, x2, ha, hz, hxx, hx1, hx2, hpar⟩ := xr_master y
  have hden : dF * (y : F) ^ 2 + 1 ≠ 0 := xr_den_ne_zero h
  have hzne : (z : F) ≠ 0 := by rw [hz]; exact hden
  have hcurve : x0 ^ 2 * (dF * (y : F) ^ 2 + 1) = (y : F) ^ 2 - 1 := by
    simp only [OnCurve] at h; linear_combination -h
  -- xx is the square x0²
  have hxxF : (xx : F) = x0 ^ 2 := by
    rw [hxx]; push_cast; rw [spake_inv_cast hzne, ha, hz, ← hcurve]
    field_simp
  -- candidate root
  have hx1F : (x1 : F) = (x0 ^ 2) ^ sqrtExp := by
    rw [hx1]; push_cast [ZMod.intCast_mod]; rw [hxxF]
  have hI : ((spake_I : ℤ) : F) ^ 2 = -1 := I_sq
  have hx2F : (x2 : F) ^ 2 = x0 ^ 2 := by
    rcases hx2 with ⟨hs, he⟩ | ⟨hs, he, -, -⟩
    · rw [he, hs, hxxF]
    · rw [he]; simp only [iF]
      rcases xr_sqrt_core x0 with hk | hk
      · exfalso; apply hs; rw [hx1F, hxxF]; exact hk
      · rw [← hx1F] at hk
        linear_combination ((spake_I : ℤ) : F) ^ 2 * hk - x0 ^ 2 * hI
  rcases hpar with ⟨-, hr⟩ | ⟨-, hr⟩
  · rw [hr]; exact hx2F
  · rw [hr]; push_cast; rw [ZMod.natCast_self]; linear_combination hx2F

/-- A.2: completeness of x-recovery: if some curve point has y-coordinate `y`, the recovered
x-coordinate together with `y` is a curve point. -/
theorem xrecover_complete (y : ℤ) (x0 : F) (h : OnCurve (x0, (y : F))) :
    OnCurve (((spake_xrecover y : ℤ) : F), (y : F)) := by
  have hsq := xrecover_sq_eq y x0 h
  simp only [OnCurve] at h ⊢
  linear_combination h + (-1 - dF * (y : F) ^ 2) * hsq

/-- A.3: the recovered x is `±x0`. -/
theorem xrecover_sq (y : ℤ) (x0 : F) (h : OnCurve (x0, (y : F))) :
    ((spake_xrecover y : ℤ) : F) = x0 ∨ ((spake_xrecover y : ℤ) : F) = -x0 :=
  enc_injective_core (p := (((spake_xrecover y : ℤ) : F), (y : F))) (q := (x0, (y : F)))
    (xrecover_complete y x0 h) h rfl

end ExtraA

/-! # Part B: points of small order and the ladder difference -/

section ExtraB
variable [Fact (Nat.Prime Q)]

/-- B.4: a curve point with a zero coordinate is one of `(0,±1)`, `(±i,0)`; its fourfold is `eO`. -/
theorem zero_coord_order_four (p : F × F) (h : OnCurve p) (hz : p.1 = 0 ∨ p.2 = 0) :
    eadd (eadd p p) (eadd p p) = eO := by
  obtain ⟨x, y⟩ := p
  simp only [OnCurve] at h
  simp only at hz
  rcases hz with hx | hy
  · subst hx
    have hy2 : y * y = 1 := by linear_combination h
    simp [eadd, eO, hy2]
  · subst hy
    have hx2 : x * x = -1 := by linear_combination -h
    simp [eadd, eO, hx2]

end ExtraB

section ExtraC
variable {G : Type*} [AddCommGroup G]

/-- in a group, an element killed by a prime `L` and non-zero is not killed by any non-multiple -/
theorem prime_order_local (L : ℕ) (hL : L.Prime) (n : ℤ) (P : G) (hP : (L : ℤ) • P = 0)
    (hne : P ≠ 0) (hn : ¬ (L : ℤ) ∣ n) : n • P ≠ 0 := by
  intro h0
  have hL' : Prime (L : ℤ) := Nat.prime_iff_prime_int.mp hL
  have hcop : IsCoprime (L : ℤ) n := by
    rw [hL'.irreducible.coprime_iff_not_dvd]; exact hn
  obtain ⟨u, v, huv⟩ := hcop
  apply hne
  calc P = (1 : ℤ) • P := (one_zsmul P).symm
    _ = (u * L + v * n) • P := by rw [huv]
    _ = u • ((L : ℤ) • P) + v • (n • P) := by rw [add_zsmul, mul_zsmul, mul_zsmul]
    _ = 0 := by rw [hP, h0, zsmul_zero, zsmul_zero, add_zero]

/-- B.5: in a subgroup of odd prime order `L`, the ladder difference `(2k)•P − P`
(`0 ≤ k`, `2k+1 < L`) is never a point of order dividing 4. -/
theorem ladder_diff_abstract (L : ℕ) (hL : L.Prime) (hodd : L % 2 = 1) (P T : G)
    (hP : (L : ℤ) • P = 0) (hne : P ≠ 0) (k : ℤ) (hk0 : 0 ≤ k) (hk : 2 * k + 1 < L)
    (hT : (4 : ℤ) • T = 0) (h : (2 * k) • P - P = T) : False := by
  have h1 : (4 * (2 * k - 1)) • P = 0 := by
    have e : (4 * (2 * k - 1)) • P = (4 : ℤ) • ((2 * k) • P - P) := by module
    rw [e, h, hT]
  have hdvd : (L : ℤ) ∣ 4 * (2 * k - 1) := by
    by_contra hnd
    exact prime_order_local L hL _ P hP hne hnd h1
  have hL' : Prime (L : ℤ) := Nat.prime_iff_prime_int.mp hL
  have hL2 : (2 : ℤ) ≤ (L : ℤ) := by exact_mod_cast hL.two_le
  rcases hL'.dvd_mul.mp hdvd with h4 | hk'
  · have h4' : L ∣ 4 := by exact_mod_cast h4
    have hle : L ≤ 4 := Nat.le_of_dvd (by norm_num) h4'
    have h2 := hL.two_le
    interval_cases L <;> omega
  · obtain ⟨c, hc⟩ := hk'
    rcases lt_trichotomy c 0 with hc0 | hc0 | hc0
    · nlinarith
    · subst hc0; omega
    · nlinarith

end ExtraC

/-! # Axiom audit (parsed by build_extra.sh) -/
#print axioms xrecover_range
#print axioms xrecover_sq_eq
#print axioms xrecover_complete
#print axioms xrecover_sq
#print axioms zero_coord_order_four
#print axioms prime_order_local
#print axioms ladder_diff_abstract
