-- GENERATED on every run from src/spake2/ed25519_basic.py by pyvc/leangen.py; do not edit
def Q : ℕ := 2^255 - 19
def spake_d : ℤ := (-4513249062541557337682894930092624173785641285191125241628941591882900924598840740 : ℤ)
def spake_I : ℤ := (19681161376707505956807079304988542015446066515923890162744021073123829784752 : ℤ)

def spake_inv (x : ℤ) : ℤ :=
  ((x ^ (((Q : ℤ) - (2 : ℤ))).toNat) % (Q : ℤ))

def spake_xrecover (y : ℤ) : ℤ :=
  let xx := (((y * y) - (1 : ℤ)) * (spake_inv (((spake_d * y) * y) + (1 : ℤ))))
  let x := ((xx ^ ((((Q : ℤ) + (3 : ℤ)) / (8 : ℤ))).toNat) % (Q : ℤ))
  let x := (if ((((x * x) - xx) % (Q : ℤ)) ≠ (0 : ℤ)) then ((x * spake_I) % (Q : ℤ)) else x)
  let x := (if ((x % (2 : ℤ)) ≠ (0 : ℤ)) then ((Q : ℤ) - x) else x)
  x

def spake_double_element (X1 Y1 Z1 _u_3 : ℤ) : ℤ × ℤ × ℤ × ℤ :=
  let A := (X1 * X1)
  let B := (Y1 * Y1)
  let C := (((2 : ℤ) * Z1) * Z1)
  let D := ((-A) % (Q : ℤ))
  let J := ((X1 + Y1) % (Q : ℤ))
  let E := ((((J * J) - A) - B) % (Q : ℤ))
  let G := ((D + B) % (Q : ℤ))
  let F := ((G - C) % (Q : ℤ))
  let H := ((D - B) % (Q : ℤ))
  let X3 := ((E * F) % (Q : ℤ))
  let Y3 := ((G * H) % (Q : ℤ))
  let Z3 := ((F * G) % (Q : ℤ))
  let T3 := ((E * H) % (Q : ℤ))
  (X3, Y3, Z3, T3)

def spake_add_elements (X1 Y1 Z1 T1 X2 Y2 Z2 T2 : ℤ) : ℤ × ℤ × ℤ × ℤ :=
  let A := (((Y1 - X1) * (Y2 - X2)) % (Q : ℤ))
  let B := (((Y1 + X1) * (Y2 + X2)) % (Q : ℤ))
  let C := (((T1 * ((2 : ℤ) * spake_d)) * T2) % (Q : ℤ))
  let D := (((Z1 * (2 : ℤ)) * Z2) % (Q : ℤ))
  let E := ((B - A) % (Q : ℤ))
  let F := ((D - C) % (Q : ℤ))
  let G := ((D + C) % (Q : ℤ))
  let H := ((B + A) % (Q : ℤ))
  let X3 := ((E * F) % (Q : ℤ))
  let Y3 := ((G * H) % (Q : ℤ))
  let T3 := ((E * H) % (Q : ℤ))
  let Z3 := ((F * G) % (Q : ℤ))
  (X3, Y3, Z3, T3)

def spake__add_elements_nonunfied (X1 Y1 Z1 T1 X2 Y2 Z2 T2 : ℤ) : ℤ × ℤ × ℤ × ℤ :=
  let A := (((Y1 - X1) * (Y2 + X2)) % (Q : ℤ))
  let B := (((Y1 + X1) * (Y2 - X2)) % (Q : ℤ))
  let C := (((Z1 * (2 : ℤ)) * T2) % (Q : ℤ))
  let D := (((T1 * (2 : ℤ)) * Z2) % (Q : ℤ))
  let E := ((D + C) % (Q : ℤ))
  let F := ((B - A) % (Q : ℤ))
  let G := ((B + A) % (Q : ℤ))
  let H := ((D - C) % (Q : ℤ))
  let X3 := ((E * F) % (Q : ℤ))
  let Y3 := ((G * H) % (Q : ℤ))
  let Z3 := ((F * G) % (Q : ℤ))
  let T3 := ((E * H) % (Q : ℤ))
  (X3, Y3, Z3, T3)

def spake_xform_affine_to_extended (x y : ℤ) : ℤ × ℤ × ℤ × ℤ :=
  ((x % (Q : ℤ)), (y % (Q : ℤ)), (1 : ℤ), ((x * y) % (Q : ℤ)))

def spake_xform_extended_to_affine (x y z _u_3 : ℤ) : ℤ × ℤ :=
  (((x * (spake_inv z)) % (Q : ℤ)), ((y * (spake_inv z)) % (Q : ℤ)))

def spake_is_extended_zero (X Y Z T : ℤ) : Prop :=
  let Y := (Y % (Q : ℤ))
  let Z := (Z % (Q : ℤ))
  ((X = (0 : ℤ)) ∧ (Y = Z) ∧ (Y ≠ (0 : ℤ)))

def spake_isoncurve (P_0 P_1 : ℤ) : Prop :=
  let x := P_0
  let y := P_1
  (((((((-x) * x) + (y * y)) - (1 : ℤ)) - ((((spake_d * x) * x) * y) * y)) % (Q : ℤ)) = (0 : ℤ))

