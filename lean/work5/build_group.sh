#!/usr/bin/env bash
# Concatenate Header.lean + Generated.lean + EdwardsProofs.lean + EdwardsExtra.lean + EdwardsGroup.lean
#   -> EdwardsGroupAll.lean and check it.
# Usage: build_group.sh [GENERATED_FILE] [OUT_BASENAME]
#   GENERATED_FILE defaults to Generated.lean next to this script,
#   OUT_BASENAME   defaults to EdwardsGroupAll (OUT.lean / OUT.log are written next to this script).
# Exit status 0 iff lean accepts the file with no error, no `sorry`, no forbidden construct,
# and every audited theorem (base + extra + group) depends only on the three standard axioms.
set -u
here="$(cd "$(dirname "${BASH_SOURCE[0]}")" && pwd)"
gen="${1:-$here/Generated.lean}"
out="${2:-EdwardsGroupAll}"
all="$here/$out.lean"
log="$here/$out.log"
LEAN="${LEAN:-lean}"

expected_theorems="d_nonsquare I_sq F_two_ne_zero d_times edwards_complete eadd_closed
add_elements_correct double_element_correct nonunified_correct xform_affine_correct
is_extended_zero_correct inv_correct xform_extended_correct pt_oncurve enc_injective_core
xrecover_range xrecover_sq_eq xrecover_complete xrecover_sq
zero_coord_order_four prime_order_local ladder_diff_abstract
assoc_poly_x assoc_poly_y assoc_generic
eadd_comm eO_onCurve eadd_zero zero_eadd eneg_closed eneg_eneg eadd_neg neg_eadd
eadd_eneg_distrib eadd_assoc Curve.instAddCommGroup Curve.sub_val Curve.prime_order_local_curve
Curve.four_zsmul_of_zero_coord Curve.ladder_diff_coords_ne_zero"

srcs=("$here/Header.lean" "$gen" "$here/EdwardsProofs.lean" "$here/EdwardsExtra.lean"
      "$here/EdwardsGroup.lean")
for f in "${srcs[@]}"; do
  [ -f "$f" ] || { echo "build_group: missing $f" >&2; exit 2; }
done

# forbidden constructs anywhere in the sources (comments included: keep it simple and strict)
if grep -nEw 'sorry|admit|native_decide|axiom|unsafe|implemented_by|extern|ofReduceBool|trustCompiler' \
     "${srcs[@]}" ; then
  echo "build_group: FAIL (forbidden construct in sources)" >&2
  exit 1
fi

cat "${srcs[@]}" > "$all"

start=$(date +%s)
"$LEAN" "$all" > "$log" 2>&1
rc=$?
end=$(date +%s)
echo "build_group: lean exit=$rc wall=$((end-start))s log=$log"

fail=0
if [ $rc -ne 0 ]; then fail=1; fi
if grep -qE '(^|: )error' "$log"; then fail=1; fi
if grep -qi 'sorry' "$log"; then echo "build_group: 'sorry' found in output" >&2; fail=1; fi
if grep -q 'warning' "$log"; then echo "build_group: note: warnings present (see log)" >&2; fi

# axiom audit: every expected theorem must be reported, with only the standard axioms
flat="$(tr '\n' ' ' < "$log" | sed -e 's/  */ /g')"
for t in $expected_theorems; do
  line="$(printf '%s' "$flat" | grep -oE "'$t' (depends on axioms: \[[^]]*\]|does not depend on any axioms)" | head -n1)"
  if [ -z "$line" ]; then
    echo "build_group: theorem $t not reported by axiom audit" >&2; fail=1; continue
  fi
  axs="$(printf '%s' "$line" | sed -n 's/.*\[\(.*\)\].*/\1/p' | tr ',' '\n' | sed 's/ //g')"
  for a in $axs; do
    case "$a" in
      propext|Classical.choice|Quot.sound) ;;
      *) echo "build_group: theorem $t depends on non-standard axiom $a" >&2; fail=1 ;;
    esac
  done
done

if [ $fail -ne 0 ]; then
  echo "build_group: FAIL" >&2
  grep -E 'error' "$log" | head -n 20 >&2
  exit 1
fi
echo "build_group: OK ($(echo $expected_theorems | wc -w) theorems audited)"
exit 0
