/-!
# EdwardsProofs.lean — hand-written proofs about the generated int-level mirrors

This file is concatenated AFTER `Header.lean` (imports/options) and `Generated.lean`
(definitions `Q`, `spake_d`, `spake_I`, `spake_*` mirrors of ed25519_basic.py) by
`build_edwards.sh`.  Every theorem about a generated function is proved by unfolding
the definition, pushing casts into `ZMod Q`, and comparing the RESULT polynomials
with `ring`; no step depends on the shape of the intermediate `let`s.

No placeholders, no added axioms, no compiler-trusting decision procedures
(the build script greps for them and audits `#print axioms`).  Primality of `Q` is a hypothesis
(`[Fact (Nat.Prime Q)]`), discharged elsewhere by a Pratt certificate.
-/
/-! # Part 0: number-theoretic facts about the literals -/

/-- the base field -/
abbrev F : Type := ZMod Q

/-- square-and-multiply, fuel-bounded (structural on the fuel) so the kernel can evaluate it -/
def powMod (m : ℕ) : ℕ → ℕ → ℕ → ℕ
  | 0, _, _ => 1 % m
  | fuel + 1, b, e =>
    if e = 0 then 1 % m
    else
      let h := powMod m fuel (b * b % m) (e / 2)
      if e % 2 = 1 then (b * h) % m else h

theorem powMod_eq (m : ℕ) : ∀ (fuel b e : ℕ), e < 2 ^ fuel → powMod m fuel b e = b ^ e % m := by
  intro fuel
  induction fuel with
  | zero =>
    intro b e he
    have : e = 0 := by simpa using he
    subst this; simp [powMod]
  | succ n ih =>
    intro b e he
    unfold powMod
    by_cases h0 : e = 0
    · subst h0; simp
    · rw [if_neg h0]
      have hlt : e / 2 < 2 ^ n := by
        rw [pow_succ] at he; omega
      have hrec := ih (b * b % m) (e / 2) hlt
      simp only [hrec]
      have hpow : (b * b % m) ^ (e / 2) % m = (b * b) ^ (e / 2) % m := by
        rw [Nat.pow_mod, Nat.mod_mod, ← Nat.pow_mod]
      rw [hpow]
      by_cases h1 : e % 2 = 1
      · rw [if_pos h1]
        have he2 : b ^ e = b * (b * b) ^ (e / 2) := by
          conv_lhs => rw [show e = 2 * (e / 2) + 1 by omega]
          ring
        rw [he2, Nat.mul_mod_mod]
      · rw [if_neg h1]
        have he2 : b ^ e = (b * b) ^ (e / 2) := by
          conv_lhs => rw [show e = 2 * (e / 2) by omega]
          ring
        rw [he2]

theorem Q_pos : 0 < Q := by decide +kernel
theorem Q_gt_two : 2 < Q := by decide +kernel

/-- `spake_d` reduced mod `Q`, as a natural number -/
def dNat : ℕ := (spake_d % (Q : ℤ)).toNat

theorem dNat_cast : ((dNat : ℕ) : ℤ) = spake_d % (Q : ℤ) := by
  unfold dNat
  exact Int.toNat_of_nonneg (Int.emod_nonneg _ (by exact_mod_cast Q_pos.ne'))

theorem d_euler_nat : powMod Q 256 dNat (Q / 2) = Q - 1 := by decide +kernel
theorem Q_half_lt : Q / 2 < 2 ^ 256 := by decide +kernel
theorem I_sq_int : (spake_I ^ 2 + 1) % (Q : ℤ) = 0 := by decide +kernel
theorem d_times_int : (spake_d * 121666 + 121665) % (Q : ℤ) = 0 := by decide +kernel

section FieldFacts
variable [Fact (Nat.Prime Q)]

/-- the curve constant in the field -/
def dF : F := ((spake_d : ℤ) : F)
/-- a square root of −1 -/
def iF : F := ((spake_I : ℤ) : F)

theorem F_two_ne_zero : (2 : F) ≠ 0 := by
  intro h
  have h' : ((2 : ℕ) : F) = 0 := by exact_mod_cast h
  rw [ZMod.natCast_eq_zero_iff] at h'
  exact absurd (Nat.le_of_dvd (by norm_num) h') (not_le.mpr Q_gt_two)

theorem I_sq : ((spake_I : ℤ) : F) ^ 2 = -1 := by
  have h : (((spake_I ^ 2 + 1) % (Q : ℤ) : ℤ) : F) = ((0 : ℤ) : F) := by rw [I_sq_int]
  rw [ZMod.intCast_mod] at h
  push_cast at h
  linear_combination h

theorem d_times : dF * 121666 = -121665 := by
  have h : (((spake_d * 121666 + 121665) % (Q : ℤ) : ℤ) : F) = ((0 : ℤ) : F) := by rw [d_times_int]
  rw [ZMod.intCast_mod] at h
  push_cast at h
  unfold dF
  linear_combination h

theorem dF_eq_dNat : dF = ((dNat : ℕ) : F) := by
  have : (((dNat : ℕ) : ℤ) : F) = dF := by rw [dNat_cast, ZMod.intCast_mod]; rfl
  rw [← this]; push_cast; rfl

theorem d_euler : dF ^ (Q / 2) = -1 := by
  have h := powMod_eq Q 256 dNat (Q / 2) Q_half_lt
  rw [d_euler_nat] at h
  have h2 : (((dNat ^ (Q / 2) % Q : ℕ)) : F) = ((Q - 1 : ℕ) : F) := by rw [← h]
  rw [ZMod.natCast_mod, Nat.cast_pow, ← dF_eq_dNat] at h2
  rw [h2, Nat.cast_sub (Nat.one_le_of_lt Q_gt_two), ZMod.natCast_self]
  simp

theorem d_nonsquare : ∀ r : F, r * r ≠ dF := by
  intro r hr
  have hd0 : dF ≠ 0 := by
    intro h0
    have := d_euler
    rw [h0, zero_pow (by decide +kernel : Q / 2 ≠ 0)] at this
    exact absurd this.symm (by simp)
  have hsq : IsSquare dF := ⟨r, hr.symm⟩
  have h1 := (ZMod.euler_criterion Q hd0).mp hsq
  rw [d_euler] at h1
  apply F_two_ne_zero
  linear_combination -h1

end FieldFacts

/-! # Part 1: algebra of the a = −1 twisted Edwards law over an arbitrary field -/
section Generic
variable {K : Type*} [Field K]

/-- DESIGN.md Appendix A.1: `e = d·x1·x2·y1·y2` cannot satisfy `e² = 1` on curve points. -/
theorem edwards_complete_core (d i x1 y1 x2 y2 : K)
    (h2ne : (2:K) ≠ 0)
    (hi : i*i = -1) (hd : ∀ r : K, r*r ≠ d)
    (h1 : -(x1*x1) + y1*y1 = 1 + d*x1*x1*y1*y1)
    (h2 : -(x2*x2) + y2*y2 = 1 + d*x2*x2*y2*y2)
    (e : K) (he : e = d*x1*x2*y1*y2) (hee : e*e = 1) : False := by
  have hx1 : x1 ≠ 0 := by
    rintro rfl; simp at he; subst he; simp at hee
  have hy1 : y1 ≠ 0 := by
    rintro rfl; simp at he; subst he; simp at hee
  have key (s : K) (hs : s*s = 1) :
      (i*x1 + s*e*y1)^2 = d*x1^2*y1^2*(i*x2 + s*y2)^2 := by
    have h3 : d*x1^2*y1^2*(-(x2*x2) + y2*y2) = -(x1*x1) + y1*y1 := by
      rw [h2, h1]
      have : d*x1^2*y1^2*(d*x2*x2*y2*y2) = e*e := by rw [he]; ring
      linear_combination this + hee
    have hi2 : i^2 = -1 := by rw [pow_two]; exact hi
    have hs2 : s^2 = 1 := by rw [pow_two]; exact hs
    have he2 : e^2 = 1 := by rw [pow_two]; exact hee
    linear_combination (x1^2 - d*x1^2*y1^2*x2^2) * hi2 + (y1^2*e^2 - d*x1^2*y1^2*y2^2) * hs2
      + y1^2 * he2 - h3 + (2*i*x1*s*y1) * he
  have hp := key 1 (by ring)
  have hm := key (-1) (by ring)
  by_cases hz : i*x2 + 1*y2 = 0
  · by_cases hz' : i*x2 + (-1)*y2 = 0
    · have hy2 : y2 = 0 := by
        have : (2:K)*y2 = 0 := by linear_combination hz - hz'
        rcases mul_eq_zero.mp this with h | h
        · exact absurd h h2ne
        · exact h
      subst hy2; simp at he; subst he; simp at hee
    · apply hd ((i*x1 + (-1)*e*y1) / (x1*y1*(i*x2 + (-1)*y2)))
      have hne : x1*y1*(i*x2 + (-1)*y2) ≠ 0 := mul_ne_zero (mul_ne_zero hx1 hy1) hz'
      rw [div_mul_div_comm, div_eq_iff (mul_ne_zero hne hne)]
      linear_combination hm
  · apply hd ((i*x1 + 1*e*y1) / (x1*y1*(i*x2 + 1*y2)))
    have hne : x1*y1*(i*x2 + 1*y2) ≠ 0 := mul_ne_zero (mul_ne_zero hx1 hy1) hz
    rw [div_mul_div_comm, div_eq_iff (mul_ne_zero hne hne)]
    linear_combination hp

/-- The hypotheses on the field constants, bundled. -/
structure CurveConsts (d i : K) : Prop where
  two_ne : (2:K) ≠ 0
  i_sq : i*i = -1
  d_nsq : ∀ r : K, r*r ≠ d

theorem complete_generic {d i : K} (hc : CurveConsts d i) {x1 y1 x2 y2 : K}
    (h1 : -x1^2 + y1^2 = 1 + d*x1^2*y1^2)
    (h2 : -x2^2 + y2^2 = 1 + d*x2^2*y2^2) :
    1 + d*x1*x2*y1*y2 ≠ 0 ∧ 1 - d*x1*x2*y1*y2 ≠ 0 := by
  have h1' : -(x1*x1) + y1*y1 = 1 + d*x1*x1*y1*y1 := by linear_combination h1
  have h2' : -(x2*x2) + y2*y2 = 1 + d*x2*x2*y2*y2 := by linear_combination h2
  constructor
  · intro h
    exact edwards_complete_core d i x1 y1 x2 y2 hc.two_ne hc.i_sq hc.d_nsq h1' h2' _ rfl
      (by linear_combination (d*x1*x2*y1*y2 - 1) * h)
  · intro h
    exact edwards_complete_core d i x1 y1 x2 y2 hc.two_ne hc.i_sq hc.d_nsq h1' h2' _ rfl
      (by linear_combination (-(d*x1*x2*y1*y2) - 1) * h)

/-- closure of the addition law (certificate from sympy, DESIGN.md A.3) -/
theorem closed_generic {d x1 y1 x2 y2 : K}
    (h1 : -x1^2 + y1^2 = 1 + d*x1^2*y1^2)
    (h2 : -x2^2 + y2^2 = 1 + d*x2^2*y2^2)
    (hp : 1 + d*x1*x2*y1*y2 ≠ 0) (hm : 1 - d*x1*x2*y1*y2 ≠ 0) :
    -((x1*y2 + x2*y1) / (1 + d*x1*x2*y1*y2))^2 + ((y1*y2 + x1*x2) / (1 - d*x1*x2*y1*y2))^2
      = 1 + d * ((x1*y2 + x2*y1) / (1 + d*x1*x2*y1*y2))^2
              * ((y1*y2 + x1*x2) / (1 - d*x1*x2*y1*y2))^2 := by
  have hpoly : -(x1*y2 + x2*y1)^2 * (1 - d*x1*x2*y1*y2)^2
        + (y1*y2 + x1*x2)^2 * (1 + d*x1*x2*y1*y2)^2
      = (1 + d*x1*x2*y1*y2)^2 * (1 - d*x1*x2*y1*y2)^2
        + d * (x1*y2 + x2*y1)^2 * (y1*y2 + x1*x2)^2 := by
    linear_combination
      (d^3*x1^2*x2^4*y1^2*y2^4 - d^2*x1^2*x2^4*y2^4 + d^2*x2^4*y1^2*y2^4 - d^2*x2^4*y2^4
        - d*x1^2*x2^4*y2^2 + d*x1^2*x2^2*y2^4 + d*x2^4*y1^2*y2^2 - 2*d*x2^4*y2^4
        - d*x2^2*y1^2*y2^4 - 2*d*x2^2*y2^2 - 2*x2^4*y2^2 + x2^4 + 2*x2^2*y2^4
        - 4*x2^2*y2^2 + y2^4) * h1
      + (d*x1^4*x2^2*y2^2 + 2*d*x1^2*x2^2*y2^2 + d*x2^2*y1^4*y2^2 - 2*d*x2^2*y1^2*y2^2
        + d*x2^2*y2^2 + 2*x1^2*x2^2*y2^2 - x1^2*x2^2 + x1^2*y2^2 - 2*x2^2*y1^2*y2^2
        + x2^2*y1^2 + 2*x2^2*y2^2 - x2^2 - y1^2*y2^2 + y2^2 + 1) * h2
  rw [← sub_eq_zero]
  have key : ∀ a b n1 n2 : K, a ≠ 0 → b ≠ 0 →
      -(n1/a)^2 + (n2/b)^2 - (1 + d*(n1/a)^2*(n2/b)^2)
        = (-n1^2*b^2 + n2^2*a^2 - (a^2*b^2 + d*n1^2*n2^2)) / (a^2*b^2) := by
    intro a b n1 n2 ha hb; field_simp
  rw [key _ _ _ _ hp hm, hpoly, sub_self, zero_div]

/-- projective ↔ affine curve equation -/
theorem proj_iff {d X Y Z : K} (hZ : Z ≠ 0) :
    (-(X/Z)^2 + (Y/Z)^2 = 1 + d*(X/Z)^2*(Y/Z)^2) ↔
    ((-X^2 + Y^2) * Z^2 = Z^4 + d*X^2*Y^2) := by
  constructor
  · intro h
    have : ((-X^2 + Y^2) * Z^2 - (Z^4 + d*X^2*Y^2))
        = Z^4 * (-(X/Z)^2 + (Y/Z)^2 - (1 + d*(X/Z)^2*(Y/Z)^2)) := by field_simp
    rw [← sub_eq_zero, this, h, sub_self, mul_zero]
  · intro h
    have : (-(X/Z)^2 + (Y/Z)^2 - (1 + d*(X/Z)^2*(Y/Z)^2))
        = ((-X^2 + Y^2) * Z^2 - (Z^4 + d*X^2*Y^2)) / Z^4 := by field_simp
    rw [← sub_eq_zero, this, h, sub_self, zero_div]

end Generic

section Generic2
variable {K : Type*} [Field K]

/-- unified extended addition (add-2008-hwcd-3), result polynomials -/
theorem add_generic {d i : K} (hc : CurveConsts d i)
    {X1 Y1 Z1 T1 X2 Y2 Z2 T2 X3 Y3 Z3 T3 : K}
    (hZ1 : Z1 ≠ 0) (hT1 : T1*Z1 = X1*Y1) (hC1 : (-X1^2+Y1^2)*Z1^2 = Z1^4 + d*X1^2*Y1^2)
    (hZ2 : Z2 ≠ 0) (hT2 : T2*Z2 = X2*Y2) (hC2 : (-X2^2+Y2^2)*Z2^2 = Z2^4 + d*X2^2*Y2^2)
    (hX3 : X3 = (2*(X1*Y2+X2*Y1)) * (2*Z1*Z2 - 2*d*T1*T2))
    (hY3 : Y3 = (2*Z1*Z2 + 2*d*T1*T2) * (2*(Y1*Y2+X1*X2)))
    (hZ3 : Z3 = (2*Z1*Z2 - 2*d*T1*T2) * (2*Z1*Z2 + 2*d*T1*T2))
    (hT3 : T3 = (2*(X1*Y2+X2*Y1)) * (2*(Y1*Y2+X1*X2))) :
    Z3 ≠ 0 ∧ T3*Z3 = X3*Y3 ∧ ((-X3^2+Y3^2)*Z3^2 = Z3^4 + d*X3^2*Y3^2) ∧
    X3/Z3 = ((X1/Z1)*(Y2/Z2) + (X2/Z2)*(Y1/Z1)) / (1 + d*(X1/Z1)*(X2/Z2)*(Y1/Z1)*(Y2/Z2)) ∧
    Y3/Z3 = ((Y1/Z1)*(Y2/Z2) + (X1/Z1)*(X2/Z2)) / (1 - d*(X1/Z1)*(X2/Z2)*(Y1/Z1)*(Y2/Z2)) := by
  have hT1' : T1 = X1*Y1/Z1 := eq_div_of_mul_eq hZ1 hT1
  have hT2' : T2 = X2*Y2/Z2 := eq_div_of_mul_eq hZ2 hT2
  have hA1 := (proj_iff (d := d) hZ1).mpr hC1
  have hA2 := (proj_iff (d := d) hZ2).mpr hC2
  obtain ⟨hp, hm⟩ := complete_generic hc hA1 hA2
  have h2 := hc.two_ne
  set x1 := X1/Z1 with hx1
  set y1 := Y1/Z1 with hy1
  set x2 := X2/Z2 with hx2
  set y2 := Y2/Z2 with hy2
  set e := d*x1*x2*y1*y2 with he
  have hc0 : 2*Z1*Z2 ≠ 0 := mul_ne_zero (mul_ne_zero h2 hZ1) hZ2
  have hF : 2*Z1*Z2 - 2*d*T1*T2 = 2*Z1*Z2*(1 - e) := by
    rw [hT1', hT2', he, hx1, hx2, hy1, hy2]; field_simp
  have hG : 2*Z1*Z2 + 2*d*T1*T2 = 2*Z1*Z2*(1 + e) := by
    rw [hT1', hT2', he, hx1, hx2, hy1, hy2]; field_simp
  have hE : 2*(X1*Y2+X2*Y1) = 2*Z1*Z2*(x1*y2 + x2*y1) := by
    rw [hx1, hx2, hy1, hy2]; field_simp
  have hH : 2*(Y1*Y2+X1*X2) = 2*Z1*Z2*(y1*y2 + x1*x2) := by
    rw [hx1, hx2, hy1, hy2]; field_simp
  rw [hF, hE] at hX3
  rw [hG, hH] at hY3
  rw [hF, hG] at hZ3
  have hZ3ne : Z3 ≠ 0 := by
    rw [hZ3]; exact mul_ne_zero (mul_ne_zero hc0 hm) (mul_ne_zero hc0 hp)
  have hxq : X3/Z3 = (x1*y2 + x2*y1) / (1 + e) := by
    rw [div_eq_div_iff hZ3ne hp, hX3, hZ3]; ring
  have hyq : Y3/Z3 = (y1*y2 + x1*x2) / (1 - e) := by
    rw [div_eq_div_iff hZ3ne hm, hY3, hZ3]; ring
  refine ⟨hZ3ne, ?_, ?_, hxq, hyq⟩
  · rw [hT3, hZ3, hX3, hY3, hE, hH]; ring
  · rw [← proj_iff hZ3ne, hxq, hyq]
    exact closed_generic hA1 hA2 hp hm

end Generic2

section Generic3
variable {K : Type*} [Field K]

/-- dedicated doubling (dbl-2008-hwcd, a = −1), result polynomials -/
theorem double_generic {d i : K} (hc : CurveConsts d i)
    {X1 Y1 Z1 X3 Y3 Z3 T3 : K}
    (hZ1 : Z1 ≠ 0) (hC1 : (-X1^2+Y1^2)*Z1^2 = Z1^4 + d*X1^2*Y1^2)
    (hX3 : X3 = (2*X1*Y1) * (Y1^2 - X1^2 - 2*Z1^2))
    (hY3 : Y3 = (Y1^2 - X1^2) * (-X1^2 - Y1^2))
    (hZ3 : Z3 = (Y1^2 - X1^2 - 2*Z1^2) * (Y1^2 - X1^2))
    (hT3 : T3 = (2*X1*Y1) * (-X1^2 - Y1^2)) :
    Z3 ≠ 0 ∧ T3*Z3 = X3*Y3 ∧ ((-X3^2+Y3^2)*Z3^2 = Z3^4 + d*X3^2*Y3^2) ∧
    X3/Z3 = ((X1/Z1)*(Y1/Z1) + (X1/Z1)*(Y1/Z1)) / (1 + d*(X1/Z1)*(X1/Z1)*(Y1/Z1)*(Y1/Z1)) ∧
    Y3/Z3 = ((Y1/Z1)*(Y1/Z1) + (X1/Z1)*(X1/Z1)) / (1 - d*(X1/Z1)*(X1/Z1)*(Y1/Z1)*(Y1/Z1)) := by
  have hA1 := (proj_iff (d := d) hZ1).mpr hC1
  obtain ⟨hp, hm⟩ := complete_generic hc hA1 hA1
  set x := X1/Z1 with hx
  set y := Y1/Z1 with hy
  set e := d*x*x*y*y with he
  have hZ2ne : Z1^2 ≠ 0 := pow_ne_zero 2 hZ1
  have hG : Y1^2 - X1^2 = Z1^2*(1 + e) := by
    have : Y1^2 - X1^2 = Z1^2*(-x^2 + y^2) := by rw [hx, hy]; field_simp; ring
    rw [this, hA1, he]; ring
  have hF : Y1^2 - X1^2 - 2*Z1^2 = -(Z1^2*(1 - e)) := by rw [hG]; ring
  have hE : 2*X1*Y1 = Z1^2*(x*y + x*y) := by rw [hx, hy]; field_simp; ring
  have hH : -X1^2 - Y1^2 = -(Z1^2*(y*y + x*x)) := by rw [hx, hy]; field_simp; ring
  rw [hF, hE] at hX3
  rw [hG, hH] at hY3
  rw [hF, hG] at hZ3
  rw [hE, hH] at hT3
  have hZ3ne : Z3 ≠ 0 := by
    rw [hZ3]; exact mul_ne_zero (neg_ne_zero.mpr (mul_ne_zero hZ2ne hm)) (mul_ne_zero hZ2ne hp)
  have hxq : X3/Z3 = (x*y + x*y) / (1 + e) := by
    rw [div_eq_div_iff hZ3ne hp, hX3, hZ3]; ring
  have hyq : Y3/Z3 = (y*y + x*x) / (1 - e) := by
    rw [div_eq_div_iff hZ3ne hm, hY3, hZ3]; ring
  refine ⟨hZ3ne, ?_, ?_, hxq, hyq⟩
  · rw [hT3, hZ3, hX3, hY3]; ring
  · rw [← proj_iff hZ3ne, hxq, hyq]
    exact closed_generic hA1 hA1 hp hm

/-- dedicated (non-unified) addition (add-2008-hwcd-4), result polynomials; valid when
`P1 − P2` has both coordinates non-zero -/
theorem nonunified_generic {d i : K} (hc : CurveConsts d i)
    {X1 Y1 Z1 T1 X2 Y2 Z2 T2 X3 Y3 Z3 T3 : K}
    (hZ1 : Z1 ≠ 0) (hT1 : T1*Z1 = X1*Y1) (hC1 : (-X1^2+Y1^2)*Z1^2 = Z1^4 + d*X1^2*Y1^2)
    (hZ2 : Z2 ≠ 0) (hT2 : T2*Z2 = X2*Y2) (hC2 : (-X2^2+Y2^2)*Z2^2 = Z2^4 + d*X2^2*Y2^2)
    (hn1 : (X1/Z1)*(Y2/Z2) + (-(X2/Z2))*(Y1/Z1) ≠ 0)
    (hn2 : (Y1/Z1)*(Y2/Z2) + (X1/Z1)*(-(X2/Z2)) ≠ 0)
    (hX3 : X3 = (2*(T1*Z2 + Z1*T2)) * (2*(X1*Y2 - Y1*X2)))
    (hY3 : Y3 = (2*(Y1*Y2 - X1*X2)) * (2*(T1*Z2 - Z1*T2)))
    (hZ3 : Z3 = (2*(X1*Y2 - Y1*X2)) * (2*(Y1*Y2 - X1*X2)))
    (hT3 : T3 = (2*(T1*Z2 + Z1*T2)) * (2*(T1*Z2 - Z1*T2))) :
    Z3 ≠ 0 ∧ T3*Z3 = X3*Y3 ∧ ((-X3^2+Y3^2)*Z3^2 = Z3^4 + d*X3^2*Y3^2) ∧
    X3/Z3 = ((X1/Z1)*(Y2/Z2) + (X2/Z2)*(Y1/Z1)) / (1 + d*(X1/Z1)*(X2/Z2)*(Y1/Z1)*(Y2/Z2)) ∧
    Y3/Z3 = ((Y1/Z1)*(Y2/Z2) + (X1/Z1)*(X2/Z2)) / (1 - d*(X1/Z1)*(X2/Z2)*(Y1/Z1)*(Y2/Z2)) := by
  have hT1' : T1 = X1*Y1/Z1 := eq_div_of_mul_eq hZ1 hT1
  have hT2' : T2 = X2*Y2/Z2 := eq_div_of_mul_eq hZ2 hT2
  have hA1 := (proj_iff (d := d) hZ1).mpr hC1
  have hA2 := (proj_iff (d := d) hZ2).mpr hC2
  obtain ⟨hp, hm⟩ := complete_generic hc hA1 hA2
  have h2 := hc.two_ne
  set x1 := X1/Z1 with hx1
  set y1 := Y1/Z1 with hy1
  set x2 := X2/Z2 with hx2
  set y2 := Y2/Z2 with hy2
  set e := d*x1*x2*y1*y2 with he
  have hc0 : 2*Z1*Z2 ≠ 0 := mul_ne_zero (mul_ne_zero h2 hZ1) hZ2
  have hE : 2*(T1*Z2 + Z1*T2) = 2*Z1*Z2*(x1*y1 + x2*y2) := by
    rw [hT1', hT2', hx1, hx2, hy1, hy2]; field_simp
  have hH : 2*(T1*Z2 - Z1*T2) = 2*Z1*Z2*(x1*y1 - x2*y2) := by
    rw [hT1', hT2', hx1, hx2, hy1, hy2]; field_simp
  have hF : 2*(X1*Y2 - Y1*X2) = 2*Z1*Z2*(x1*y2 + (-x2)*y1) := by
    rw [hx1, hx2, hy1, hy2]; field_simp; ring
  have hG : 2*(Y1*Y2 - X1*X2) = 2*Z1*Z2*(y1*y2 + x1*(-x2)) := by
    rw [hx1, hx2, hy1, hy2]; field_simp; ring
  rw [hE, hF] at hX3
  rw [hG, hH] at hY3
  rw [hF, hG] at hZ3
  rw [hE, hH] at hT3
  have hZ3ne : Z3 ≠ 0 := by
    rw [hZ3]; exact mul_ne_zero (mul_ne_zero hc0 hn1) (mul_ne_zero hc0 hn2)
  have hxq : X3/Z3 = (x1*y2 + x2*y1) / (1 + e) := by
    rw [div_eq_div_iff hZ3ne hp, hX3, hZ3, he]
    linear_combination (2*Z1*Z2)^2 * (x1*y2 + (-x2)*y1) * ((-x2*y2) * hA1 + (-x1*y1) * hA2)
  have hyq : Y3/Z3 = (y1*y2 + x1*x2) / (1 - e) := by
    rw [div_eq_div_iff hZ3ne hm, hY3, hZ3, he]
    linear_combination (2*Z1*Z2)^2 * (y1*y2 + x1*(-x2)) * ((x2*y2) * hA1 + (-x1*y1) * hA2)
  refine ⟨hZ3ne, ?_, ?_, hxq, hyq⟩
  · rw [hT3, hZ3, hX3, hY3]; ring
  · rw [← proj_iff hZ3ne, hxq, hyq]
    exact closed_generic hA1 hA2 hp hm

end Generic3

/-! # Part 2: the curve over `F = ZMod Q` and the int-level mirrors -/
theorem Q_ne_zero_int : (Q : ℤ) ≠ 0 := by exact_mod_cast Q_pos.ne'
theorem Q_pos_int : 0 < (Q : ℤ) := by exact_mod_cast Q_pos
theorem Q_gt_one_int : 1 < (Q : ℤ) := by exact_mod_cast (lt_trans (by norm_num) Q_gt_two : 1 < Q)

/-- normal form of the generated predicate (propositional reshuffling only) -/
theorem is_extended_zero_def (X Y Z T : ℤ) : spake_is_extended_zero X Y Z T ↔
    (X = 0 ∧ Y % (Q:ℤ) = Z % (Q:ℤ) ∧ Y % (Q:ℤ) ≠ 0) := by
  simp only [spake_is_extended_zero] <;>
    (generalize Y % (Q:ℤ) = a; generalize Z % (Q:ℤ) = b
     constructor
     · rintro h
       have hx : X = 0 := by tauto
       have hab : a = b := by tauto
       have hne : a ≠ 0 ∨ b ≠ 0 := by tauto
       refine ⟨hx, hab, ?_⟩
       rcases hne with h1 | h1
       · exact h1
       · rw [hab]; exact h1
     · rintro ⟨hx, hab, hne⟩
       have hb : b ≠ 0 := by rw [← hab]; exact hne
       tauto)

section Main
variable [Fact (Nat.Prime Q)]

def Valid (X Y Z T : ℤ) : Prop :=
  0 ≤ X ∧ X < Q ∧ 0 ≤ Y ∧ Y < Q ∧ 0 ≤ Z ∧ Z < Q ∧ 0 ≤ T ∧ T < Q ∧
  ((Z:F) ≠ 0) ∧ ((T:F) * (Z:F) = (X:F) * (Y:F)) ∧
  ((-(X:F)^2 + (Y:F)^2) * (Z:F)^2 = (Z:F)^4 + dF * (X:F)^2 * (Y:F)^2)

def Valid3 (X Y Z : ℤ) : Prop :=
  0 ≤ X ∧ X < Q ∧ 0 ≤ Y ∧ Y < Q ∧ 0 ≤ Z ∧ Z < Q ∧
  ((Z:F) ≠ 0) ∧
  ((-(X:F)^2 + (Y:F)^2) * (Z:F)^2 = (Z:F)^4 + dF * (X:F)^2 * (Y:F)^2)

def pt (X Y Z : ℤ) : F × F := ((X:F) / (Z:F), (Y:F) / (Z:F))
def OnCurve (p : F × F) : Prop := -p.1^2 + p.2^2 = 1 + dF * p.1^2 * p.2^2
def eadd (p q : F × F) : F × F :=
  ((p.1*q.2 + q.1*p.2) / (1 + dF*p.1*q.1*p.2*q.2), (p.2*q.2 + p.1*q.1) / (1 - dF*p.1*q.1*p.2*q.2))
def eneg (p : F × F) : F × F := (-p.1, p.2)
def eO : F × F := (0, 1)

theorem curveConsts : CurveConsts dF iF :=
  ⟨F_two_ne_zero, by have := I_sq; unfold iF; linear_combination this, d_nonsquare⟩

theorem edwards_complete {p q : F × F} (hp : OnCurve p) (hq : OnCurve q) :
    1 + dF*p.1*q.1*p.2*q.2 ≠ 0 ∧ 1 - dF*p.1*q.1*p.2*q.2 ≠ 0 :=
  complete_generic curveConsts hp hq

theorem eadd_closed {p q : F × F} (hp : OnCurve p) (hq : OnCurve q) : OnCurve (eadd p q) := by
  obtain ⟨h1, h2⟩ := edwards_complete hp hq
  have := closed_generic hp hq h1 h2
  simpa only [OnCurve, eadd] using this

theorem add_elements_correct {X1 Y1 Z1 T1 X2 Y2 Z2 T2 : ℤ}
    (h1 : Valid X1 Y1 Z1 T1) (h2 : Valid X2 Y2 Z2 T2) :
    let r := spake_add_elements X1 Y1 Z1 T1 X2 Y2 Z2 T2
    Valid r.1 r.2.1 r.2.2.1 r.2.2.2 ∧
      pt r.1 r.2.1 r.2.2.1 = eadd (pt X1 Y1 Z1) (pt X2 Y2 Z2) := by
  intro r
  obtain ⟨-, -, -, -, -, -, -, -, hZ1, hT1, hC1⟩ := h1
  obtain ⟨-, -, -, -, -, -, -, -, hZ2, hT2, hC2⟩ := h2
  have hX : ((r.1 : ℤ) : F)
      = (2*((X1:F)*Y2 + X2*Y1)) * (2*Z1*Z2 - 2*dF*T1*T2) := by
    simp only [r, spake_add_elements, dF]; push_cast [ZMod.intCast_mod]; ring
  have hY : ((r.2.1 : ℤ) : F)
      = (2*(Z1:F)*Z2 + 2*dF*T1*T2) * (2*((Y1:F)*Y2 + X1*X2)) := by
    simp only [r, spake_add_elements, dF]; push_cast [ZMod.intCast_mod]; ring
  have hZ : ((r.2.2.1 : ℤ) : F)
      = (2*(Z1:F)*Z2 - 2*dF*T1*T2) * (2*(Z1:F)*Z2 + 2*dF*T1*T2) := by
    simp only [r, spake_add_elements, dF]; push_cast [ZMod.intCast_mod]; ring
  have hT : ((r.2.2.2 : ℤ) : F)
      = (2*((X1:F)*Y2 + X2*Y1)) * (2*((Y1:F)*Y2 + X1*X2)) := by
    simp only [r, spake_add_elements, dF]; push_cast [ZMod.intCast_mod]; ring
  obtain ⟨hz, ht, hc, hx, hy⟩ :=
    add_generic curveConsts hZ1 hT1 hC1 hZ2 hT2 hC2 hX hY hZ hT
  refine ⟨⟨?_, ?_, ?_, ?_, ?_, ?_, ?_, ?_, hz, ht, hc⟩, ?_⟩
  · simp only [r, spake_add_elements]; exact Int.emod_nonneg _ Q_ne_zero_int
  · simp only [r, spake_add_elements]; exact Int.emod_lt_of_pos _ Q_pos_int
  · simp only [r, spake_add_elements]; exact Int.emod_nonneg _ Q_ne_zero_int
  · simp only [r, spake_add_elements]; exact Int.emod_lt_of_pos _ Q_pos_int
  · simp only [r, spake_add_elements]; exact Int.emod_nonneg _ Q_ne_zero_int
  · simp only [r, spake_add_elements]; exact Int.emod_lt_of_pos _ Q_pos_int
  · simp only [r, spake_add_elements]; exact Int.emod_nonneg _ Q_ne_zero_int
  · simp only [r, spake_add_elements]; exact Int.emod_lt_of_pos _ Q_pos_int
  · simp only [pt, eadd]; rw [hx, hy]

theorem double_element_correct {X1 Y1 Z1 : ℤ} (h1 : Valid3 X1 Y1 Z1) :
    ∀ T1 : ℤ, let r := spake_double_element X1 Y1 Z1 T1
    Valid r.1 r.2.1 r.2.2.1 r.2.2.2 ∧
      pt r.1 r.2.1 r.2.2.1 = eadd (pt X1 Y1 Z1) (pt X1 Y1 Z1) := by
  intro T1 r
  obtain ⟨-, -, -, -, -, -, hZ1, hC1⟩ := h1
  have hX : ((r.1 : ℤ) : F) = (2*(X1:F)*Y1) * ((Y1:F)^2 - X1^2 - 2*Z1^2) := by
    simp only [r, spake_double_element, dF]; push_cast [ZMod.intCast_mod]; ring
  have hY : ((r.2.1 : ℤ) : F) = ((Y1:F)^2 - X1^2) * (-(X1:F)^2 - Y1^2) := by
    simp only [r, spake_double_element, dF]; push_cast [ZMod.intCast_mod]; ring
  have hZ : ((r.2.2.1 : ℤ) : F) = ((Y1:F)^2 - X1^2 - 2*Z1^2) * ((Y1:F)^2 - X1^2) := by
    simp only [r, spake_double_element, dF]; push_cast [ZMod.intCast_mod]; ring
  have hT : ((r.2.2.2 : ℤ) : F) = (2*(X1:F)*Y1) * (-(X1:F)^2 - Y1^2) := by
    simp only [r, spake_double_element, dF]; push_cast [ZMod.intCast_mod]; ring
  obtain ⟨hz, ht, hc, hx, hy⟩ := double_generic curveConsts hZ1 hC1 hX hY hZ hT
  refine ⟨⟨?_, ?_, ?_, ?_, ?_, ?_, ?_, ?_, hz, ht, hc⟩, ?_⟩
  · simp only [r, spake_double_element]; exact Int.emod_nonneg _ Q_ne_zero_int
  · simp only [r, spake_double_element]; exact Int.emod_lt_of_pos _ Q_pos_int
  · simp only [r, spake_double_element]; exact Int.emod_nonneg _ Q_ne_zero_int
  · simp only [r, spake_double_element]; exact Int.emod_lt_of_pos _ Q_pos_int
  · simp only [r, spake_double_element]; exact Int.emod_nonneg _ Q_ne_zero_int
  · simp only [r, spake_double_element]; exact Int.emod_lt_of_pos _ Q_pos_int
  · simp only [r, spake_double_element]; exact Int.emod_nonneg _ Q_ne_zero_int
  · simp only [r, spake_double_element]; exact Int.emod_lt_of_pos _ Q_pos_int
  · simp only [pt, eadd]; rw [hx, hy]

theorem nonunified_correct {X1 Y1 Z1 T1 X2 Y2 Z2 T2 : ℤ}
    (h1 : Valid X1 Y1 Z1 T1) (h2 : Valid X2 Y2 Z2 T2)
    (hne1 : (eadd (pt X1 Y1 Z1) (eneg (pt X2 Y2 Z2))).1 ≠ 0)
    (hne2 : (eadd (pt X1 Y1 Z1) (eneg (pt X2 Y2 Z2))).2 ≠ 0) :
    let r := spake__add_elements_nonunfied X1 Y1 Z1 T1 X2 Y2 Z2 T2
    Valid r.1 r.2.1 r.2.2.1 r.2.2.2 ∧
      pt r.1 r.2.1 r.2.2.1 = eadd (pt X1 Y1 Z1) (pt X2 Y2 Z2) := by
  intro r
  obtain ⟨-, -, -, -, -, -, -, -, hZ1, hT1, hC1⟩ := h1
  obtain ⟨-, -, -, -, -, -, -, -, hZ2, hT2, hC2⟩ := h2
  simp only [pt, eadd, eneg] at hne1 hne2
  have hn1 := (div_ne_zero_iff.mp hne1).1
  have hn2 := (div_ne_zero_iff.mp hne2).1
  have hX : ((r.1 : ℤ) : F)
      = (2*((T1:F)*Z2 + Z1*T2)) * (2*((X1:F)*Y2 - Y1*X2)) := by
    simp only [r, spake__add_elements_nonunfied, dF]; push_cast [ZMod.intCast_mod]; ring
  have hY : ((r.2.1 : ℤ) : F)
      = (2*((Y1:F)*Y2 - X1*X2)) * (2*((T1:F)*Z2 - Z1*T2)) := by
    simp only [r, spake__add_elements_nonunfied, dF]; push_cast [ZMod.intCast_mod]; ring
  have hZ : ((r.2.2.1 : ℤ) : F)
      = (2*((X1:F)*Y2 - Y1*X2)) * (2*((Y1:F)*Y2 - X1*X2)) := by
    simp only [r, spake__add_elements_nonunfied, dF]; push_cast [ZMod.intCast_mod]; ring
  have hT : ((r.2.2.2 : ℤ) : F)
      = (2*((T1:F)*Z2 + Z1*T2)) * (2*((T1:F)*Z2 - Z1*T2)) := by
    simp only [r, spake__add_elements_nonunfied, dF]; push_cast [ZMod.intCast_mod]; ring
  obtain ⟨hz, ht, hc, hx, hy⟩ :=
    nonunified_generic curveConsts hZ1 hT1 hC1 hZ2 hT2 hC2 hn1 hn2 hX hY hZ hT
  refine ⟨⟨?_, ?_, ?_, ?_, ?_, ?_, ?_, ?_, hz, ht, hc⟩, ?_⟩
  · simp only [r, spake__add_elements_nonunfied]; exact Int.emod_nonneg _ Q_ne_zero_int
  · simp only [r, spake__add_elements_nonunfied]; exact Int.emod_lt_of_pos _ Q_pos_int
  · simp only [r, spake__add_elements_nonunfied]; exact Int.emod_nonneg _ Q_ne_zero_int
  · simp only [r, spake__add_elements_nonunfied]; exact Int.emod_lt_of_pos _ Q_pos_int
  · simp only [r, spake__add_elements_nonunfied]; exact Int.emod_nonneg _ Q_ne_zero_int
  · simp only [r, spake__add_elements_nonunfied]; exact Int.emod_lt_of_pos _ Q_pos_int
  · simp only [r, spake__add_elements_nonunfied]; exact Int.emod_nonneg _ Q_ne_zero_int
  · simp only [r, spake__add_elements_nonunfied]; exact Int.emod_lt_of_pos _ Q_pos_int
  · simp only [pt, eadd]; rw [hx, hy]

end Main

section Main2
variable [Fact (Nat.Prime Q)]

theorem pt_oncurve {X Y Z : ℤ} (h : Valid3 X Y Z) : OnCurve (pt X Y Z) := by
  obtain ⟨-, -, -, -, -, -, hZ, hC⟩ := h
  simp only [OnCurve, pt]
  exact (proj_iff hZ).mpr hC

theorem Valid.toValid3 {X Y Z T : ℤ} (h : Valid X Y Z T) : Valid3 X Y Z := by
  obtain ⟨a, b, c, d, e, f, -, -, hZ, -, hC⟩ := h
  exact ⟨a, b, c, d, e, f, hZ, hC⟩

theorem enc_injective_core {p q : F × F} (hp : OnCurve p) (hq : OnCurve q) (hy : p.2 = q.2) :
    p.1 = q.1 ∨ p.1 = -q.1 := by
  simp only [OnCurve] at hp hq
  rw [hy] at hp
  have hfac : (p.1 - q.1) * (p.1 + q.1) * (-1 - dF * q.2^2) = 0 := by
    linear_combination hp - hq
  rcases mul_eq_zero.mp hfac with h | h
  · rcases mul_eq_zero.mp h with h | h
    · left; exact sub_eq_zero.mp h
    · right; exact eq_neg_of_add_eq_zero_left h
  · exfalso
    have hy0 : q.2 ≠ 0 := by
      intro h0; rw [h0] at h; simp at h
    apply d_nonsquare (iF / q.2)
    have hi : iF * iF = -1 := curveConsts.i_sq
    rw [div_mul_div_comm, hi, div_eq_iff (mul_ne_zero hy0 hy0)]
    linear_combination h

theorem xform_affine_correct {x y : ℤ} (h : spake_isoncurve x y) :
    let r := spake_xform_affine_to_extended x y
    Valid r.1 r.2.1 r.2.2.1 r.2.2.2 ∧ pt r.1 r.2.1 r.2.2.1 = ((x:F), (y:F)) := by
  intro r
  have hcurve : -(x:F)*x + y*y - 1 - dF*x*x*y*y = 0 := by
    simp only [spake_isoncurve] at h
    have h' := congrArg (Int.cast : ℤ → F) h
    rw [ZMod.intCast_mod] at h'
    simp only [dF]
    push_cast at h'
    linear_combination h'
  have hX : ((r.1 : ℤ) : F) = x := by
    simp only [r, spake_xform_affine_to_extended]; push_cast [ZMod.intCast_mod]; ring
  have hY : ((r.2.1 : ℤ) : F) = y := by
    simp only [r, spake_xform_affine_to_extended]; push_cast [ZMod.intCast_mod]; ring
  have hZ : ((r.2.2.1 : ℤ) : F) = 1 := by
    simp only [r, spake_xform_affine_to_extended]; push_cast [ZMod.intCast_mod]; ring
  have hT : ((r.2.2.2 : ℤ) : F) = x*y := by
    simp only [r, spake_xform_affine_to_extended]; push_cast [ZMod.intCast_mod]; ring
  refine ⟨⟨?_, ?_, ?_, ?_, ?_, ?_, ?_, ?_, ?_, ?_, ?_⟩, ?_⟩
  · simp only [r, spake_xform_affine_to_extended]; exact Int.emod_nonneg _ Q_ne_zero_int
  · simp only [r, spake_xform_affine_to_extended]; exact Int.emod_lt_of_pos _ Q_pos_int
  · simp only [r, spake_xform_affine_to_extended]; exact Int.emod_nonneg _ Q_ne_zero_int
  · simp only [r, spake_xform_affine_to_extended]; exact Int.emod_lt_of_pos _ Q_pos_int
  · simp only [r, spake_xform_affine_to_extended]; exact zero_le_one
  · simp only [r, spake_xform_affine_to_extended]; exact Q_gt_one_int
  · simp only [r, spake_xform_affine_to_extended]; exact Int.emod_nonneg _ Q_ne_zero_int
  · simp only [r, spake_xform_affine_to_extended]; exact Int.emod_lt_of_pos _ Q_pos_int
  · rw [hZ]; exact one_ne_zero
  · rw [hT, hZ, hX, hY]; ring
  · rw [hZ, hX, hY]; linear_combination hcurve
  · simp only [pt]; rw [hX, hY, hZ, div_one, div_one]

theorem int_eq_zero_of_cast {X : ℤ} (h0 : 0 ≤ X) (h1 : X < Q) (h : (X:F) = 0) : X = 0 := by
  rw [ZMod.intCast_zmod_eq_zero_iff_dvd] at h
  exact Int.eq_zero_of_dvd_of_nonneg_of_lt h0 h1 h

theorem is_extended_zero_correct {X Y Z T : ℤ} (h : Valid X Y Z T) :
    (spake_is_extended_zero X Y Z T ↔ pt X Y Z = eO) := by
  obtain ⟨hX0, hX1, hY0, hY1, hZ0, hZ1, -, -, hZ, -, -⟩ := h
  rw [is_extended_zero_def]
  simp only [pt, eO, Prod.mk.injEq]
  constructor
  · rintro ⟨hx, hyz, -⟩
    have hyz' : (Y:F) = Z := by
      have := congrArg (Int.cast : ℤ → F) hyz
      simpa only [ZMod.intCast_mod] using this
    refine ⟨?_, ?_⟩
    · rw [hx]; simp
    · rw [hyz']; exact div_self hZ
  · rintro ⟨hx, hy⟩
    have hx' : (X:F) = 0 := by
      rcases div_eq_zero_iff.mp hx with h | h
      · exact h
      · exact absurd h hZ
    have hy' : (Y:F) = Z := by
      rw [div_eq_one_iff_eq hZ] at hy; exact hy
    have hmod : Y % (Q:ℤ) = Z % (Q:ℤ) := (ZMod.intCast_eq_intCast_iff Y Z Q).mp hy'
    refine ⟨int_eq_zero_of_cast hX0 hX1 hx', hmod, ?_⟩
    intro h0
    apply hZ
    rw [← hy', ← ZMod.intCast_mod Y Q, h0]; simp

theorem spake_inv_cast {z : ℤ} (hz : (z:F) ≠ 0) : ((spake_inv z : ℤ) : F) = (z:F)⁻¹ := by
  have hn : ((Q:ℤ) - 2).toNat = Q - 2 := by
    have := Q_gt_two; omega
  simp only [spake_inv]
  push_cast [ZMod.intCast_mod]
  try rw [hn]
  have h1 : (z:F)^(Q-1) = 1 := ZMod.pow_card_sub_one_eq_one hz
  have h2 : (z:F)^(Q-2) * z = 1 := by
    rw [← pow_succ, show Q - 2 + 1 = Q - 1 by have := Q_gt_two; omega]; exact h1
  exact eq_inv_of_mul_eq_one_left h2

/-- `inv` returns the canonical representative of the field inverse -/
theorem inv_correct {z : ℤ} (hz : (z:F) ≠ 0) :
    0 ≤ spake_inv z ∧ spake_inv z < Q ∧ ((spake_inv z : ℤ) : F) * (z:F) = 1 := by
  refine ⟨?_, ?_, ?_⟩
  · simp only [spake_inv]; exact Int.emod_nonneg _ Q_ne_zero_int
  · simp only [spake_inv]; exact Int.emod_lt_of_pos _ Q_pos_int
  · rw [spake_inv_cast hz]; exact inv_mul_cancel₀ hz

theorem xform_extended_correct {X Y Z T : ℤ} (h : Valid X Y Z T) :
    let r := spake_xform_extended_to_affine X Y Z T
    0 ≤ r.1 ∧ r.1 < Q ∧ 0 ≤ r.2 ∧ r.2 < Q ∧ ((r.1:F), (r.2:F)) = pt X Y Z := by
  intro r
  obtain ⟨-, -, -, -, -, -, -, -, hZ, -, -⟩ := h
  have hX : ((r.1 : ℤ) : F) = X * (Z:F)⁻¹ := by
    simp only [r, spake_xform_extended_to_affine]
    push_cast [ZMod.intCast_mod]; rw [spake_inv_cast hZ] <;> ring
  have hY : ((r.2 : ℤ) : F) = Y * (Z:F)⁻¹ := by
    simp only [r, spake_xform_extended_to_affine]
    push_cast [ZMod.intCast_mod]; rw [spake_inv_cast hZ] <;> ring
  refine ⟨?_, ?_, ?_, ?_, ?_⟩
  · simp only [r, spake_xform_extended_to_affine]; exact Int.emod_nonneg _ Q_ne_zero_int
  · simp only [r, spake_xform_extended_to_affine]; exact Int.emod_lt_of_pos _ Q_pos_int
  · simp only [r, spake_xform_extended_to_affine]; exact Int.emod_nonneg _ Q_ne_zero_int
  · simp only [r, spake_xform_extended_to_affine]; exact Int.emod_lt_of_pos _ Q_pos_int
  · simp only [pt]; rw [hX, hY, div_eq_mul_inv, div_eq_mul_inv]

end Main2

/-! # Axiom audit (parsed by build_edwards.sh) -/
#print axioms d_nonsquare
#print axioms I_sq
#print axioms F_two_ne_zero
#print axioms d_times
#print axioms edwards_complete
#print axioms eadd_closed
#print axioms add_elements_correct
#print axioms double_element_correct
#print axioms nonunified_correct
#print axioms xform_affine_correct
#print axioms is_extended_zero_correct
#print axioms inv_correct
#print axioms xform_extended_correct
#print axioms pt_oncurve
#print axioms enc_injective_core
