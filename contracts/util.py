"""Contracts for src/spake2/util.py (C15, C11)."""
from pyvc.contracts import REG

c = REG.contract("util.size_bits")
c.params(maxval="int").returns("int").pure()
c.requires("maxval >= 0")
c.ensures("result == spec.size_bits(maxval)", name="val", tags="C15 C11")
c.ensures("result >= 1", name="pos", tags="C15 C11")
c.canary("result == spec.size_bits(maxval) + 1")
c.witness("dict(maxval=0)", "dict(maxval=255)", "dict(maxval=256)")

c = REG.contract("util.size_bytes")
c.params(maxval="int").returns("int").pure()
c.requires("maxval >= 0")
c.ensures("result == spec.size_bytes(maxval)", name="val", tags="C15 C11")
c.ensures("result >= 1", name="pos", tags="C15 C11")
c.ensures("8 * result >= spec.size_bits(maxval) and 8 * result < spec.size_bits(maxval) + 8", name="ceil", tags="C15 C11")
c.canary("result == spec.size_bytes(maxval) + 1")

c = REG.contract("util.number_to_bytes")
c.params(num="int", maxval="int").returns("bytes").pure()
c.requires("maxval >= 0")
c.raises("ValueError", "num > maxval", name="too-big", tags="C15")
c.raises("binascii.Error", "num < 0", name="negative", tags="C15")
c.ensures("len(result) == spec.size_bytes(maxval)", name="len", tags="C15 C03 C08 C10")
c.ensures("spec.be(result) == num", name="val", tags="C15 C01 C03 C08 C10")
c.canary("len(result) == spec.size_bytes(maxval) + 1")
c.canary("spec.be(result) == num + 1")

c = REG.contract("util.bytes_to_number")
c.params(s="bytes").returns("int").pure()
c.raises("ValueError", "len(s) == 0", name="empty", tags="C15")
c.ensures("result == spec.be(s)", name="val", tags="C15 C01 C03 C08 C10")
c.ensures("0 <= result and result < spec.p256(len(s))", name="range", tags="C15")
c.canary("result == spec.be(s) + 1")

c = REG.contract("util.generate_mask")
c.params(maxval="int").returns("tuple:int,int").pure()
c.requires("maxval >= 0")
c.ensures("result[1] == spec.size_bytes(maxval)", name="num-bytes", tags="C11")
c.ensures("result[0] == spec.p2(spec.topbits(maxval)) - 1", name="mask", tags="C11")
c.ensures("1 <= spec.topbits(maxval) and spec.topbits(maxval) <= 8", name="topbits-range", tags="C11")
c.canary("result[0] == spec.p2(spec.topbits(maxval))")

c = REG.contract("util.list_of_ints_to_number")
c.params(l="bytelist").returns("int").pure()
c.raises("ValueError", "len(l) == 0", name="empty", tags="C11")
c.ensures("result == spec.be(l)", name="val", tags="C11")
c.canary("result == spec.be(l) + 1")

from pyvc import vc
vc.INLINE_OK |= {"util.random_list_of_ints", "util.mask_list_of_ints"}

c = REG.contract("util.unbiased_randrange")
c.params(start="int", stop="int", entropy_f="entropy").returns("int").pure()
c.requires("start < stop")
c.loop(1, "spec.rr(stop - start, entropy_f, spec.entropy_pos(entropy_f)) == spec.rr(stop - start, entropy_f, 0)", name="first-accepted")
c.loop(1, "spec.entropy_pos(entropy_f) >= 0", name="pos")
c.ensures("start <= result and result < stop", name="in-range", tags="C11 C04 C01")
c.ensures("result == start + spec.rr(stop - start, entropy_f, 0)", name="rejection-sampling", tags="C11 C03 C16")
c.ensures("spec.entropy_sizes_all(spec.size_bytes(stop - start))", name="block-size", tags="C11 C16")
c.ensures("spec.no_global_entropy()", name="entropy-only-from-the-argument", tags="C11 C16 C04")
c.canary("result == start + spec.rr(stop - start, entropy_f, 1)")
