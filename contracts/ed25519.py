"""Contracts for src/spake2/ed25519_basic.py and ed25519_group.py.

Two layers (DESIGN.md 7, C12/C13/C05):
 * coordinate level (double_element, add_elements, _add_elements_nonunfied, xform_*, is_extended_zero): the clause
   texts below are what callers may assume; they are DISCHARGED BY LEAN on the mechanical Lean mirror of the real
   function body (c.lean(<theorem>)), where ed_valid / ed_pt / ed_add have their mathematical definitions;
 * group level (ladders, the three element classes, decoding, arbitrary_element): z3 over the abstract curve group
   (sort EPt, ed_add / ed_mul uninterpreted) with explicitly instantiated group-theory lemmas (pyvc/theory.py, T1)."""
from pyvc.contracts import REG
from pyvc import vc

M = "ed25519_basic."
PT = "tuple:int,int,int,int"
EOUG, ELT, ZERO = M + "ElementOfUnknownGroup", M + "Element", M + "_ZeroElement"
vc.SINGLETONS[ZERO] = ("ed25519_basic", "Zero")
vc.CANON_GLOBALS.update({"ed25519_group.Ed25519Group.Zero": "ed25519_basic.Zero", "ed25519_group.Ed25519Group.Base": "ed25519_basic.Base"})

REG.shape(EOUG, XYTZ=PT)
# ghost view of the element classes for the EltSpec refinement: _g = the Ed25519 group object, _v = the curve point
from pyvc import spec_sym as _S
REG.ghost_attrs["_g"] = ("ed25519_basic.", lambda ip, o: _S.ed_group(ip))
REG.ghost_attrs["_v"] = ("ed25519_basic.", lambda ip, o: _S.ed_view(ip, o))
REG.class_invariant(EOUG, "spec.ed_valid(self.XYTZ)", name="valid-representation", tags="C12 C13")
REG.class_invariant(ELT, "spec.ed_insub(spec.ed_view(self)) and spec.ed_view(self) != spec.ed_O()", name="prime-order", tags="C13 C05")
REG.class_invariant(ZERO, "spec.ed_view(self) == spec.ed_O()", name="is-identity", tags="C13")

# ---- field / coordinate level --------------------------------------------------------------------------------------------
c = REG.contract(M + "inv")
c.params(x="int").returns("int").pure()
c.ensures("result == spec.powmod(x, Q - 2, Q)", name="val", tags="C12 C13")
c.ensures("0 <= result and result < Q", name="range", tags="C12")

c = REG.contract(M + "xrecover")
c.params(y="int").returns("int").pure()
c.requires("spec.ed_xrecover(y) == spec.ed_xrecover_def(y)", name="definition-of-ed_xrecover")
c.ensures("result == spec.ed_xrecover_def(y)", name="rfc8032-recovery", tags="C14 C03 C05", export=False)
c.ensures("result == spec.ed_xrecover(y)", name="val", tags="C14 C05")
c.ensures("0 <= result and result < Q and result % 2 == 0", name="even-root-in-range", tags="C14 C05")

c = REG.contract(M + "xform_affine_to_extended")
c.params(pt="seq:int,int").returns(PT).pure().lean("xform_affine_correct")
c.requires("spec.ed_oncurve(pt[0], pt[1])")
c.ensures("spec.ed_valid(result)", name="valid", tags="C12 C13 C05")
c.ensures("spec.ed_pt(result) == spec.ed_aff(pt[0], pt[1])", name="val", tags="C12 C13 C05")

c = REG.contract(M + "xform_extended_to_affine")
c.params(pt=PT).returns("tuple:int,int").pure().lean("xform_extended_correct")
c.requires("spec.ed_valid(pt)")
c.ensures("result[0] == spec.ed_x(spec.ed_pt(pt)) and result[1] == spec.ed_y(spec.ed_pt(pt))", name="val", tags="C13 C15")

c = REG.contract(M + "double_element")
c.params(pt=PT).returns(PT).pure().lean("double_element_correct")
c.requires("spec.ed_valid3(pt)")
c.ensures("spec.ed_valid(result)", name="valid", tags="C12")
c.ensures("spec.ed_pt(result) == spec.ed_add(spec.ed_pt(pt), spec.ed_pt(pt))", name="sum", tags="C12")

c = REG.contract(M + "add_elements")
c.params(pt1=PT, pt2=PT).returns(PT).pure().lean("add_elements_correct")
c.requires("spec.ed_valid(pt1) and spec.ed_valid(pt2)")
c.ensures("spec.ed_valid(result)", name="valid", tags="C12")
c.ensures("spec.ed_pt(result) == spec.ed_add(spec.ed_pt(pt1), spec.ed_pt(pt2))", name="sum", tags="C12")

c = REG.contract(M + "_add_elements_nonunfied")
c.params(pt1=PT, pt2=PT).returns(PT).pure().lean("nonunified_correct")
c.requires("spec.ed_valid(pt1) and spec.ed_valid(pt2)")
c.requires("spec.ed_diff_ok(spec.ed_pt(pt1), spec.ed_pt(pt2))", name="difference-not-of-order-1-2-4")
c.ensures("spec.ed_valid(result)", name="valid", tags="C12")
c.ensures("spec.ed_pt(result) == spec.ed_add(spec.ed_pt(pt1), spec.ed_pt(pt2))", name="sum", tags="C12")

c = REG.contract(M + "is_extended_zero")
c.params(XYTZ=PT).returns("bool").pure().lean("is_extended_zero_correct")
c.requires("spec.ed_valid(XYTZ)")
c.ensures("result == (spec.ed_pt(XYTZ) == spec.ed_O())", name="val", tags="C13 C05 C14")

c = REG.contract(M + "isoncurve")
c.params(P="seq:int,int").returns("bool").pure()
c.requires("spec.ed_oncurve(P[0], P[1]) == spec.ed_oncurve_def(P[0], P[1])", name="definition-of-ed_oncurve")
c.ensures("result == spec.ed_oncurve_def(P[0], P[1])", name="curve-equation", tags="C05 C14 C12", export=False)
c.ensures("result == spec.ed_oncurve(P[0], P[1])", name="val", tags="C05 C14")

# ---- ladders (group level, recursion) ----------------------------------------------------------------------------------------
c = REG.contract(M + "scalarmult_element_safe_slow")
c.params(pt=PT, n="int").returns(PT).pure().decreases("n")
c.requires("spec.ed_valid(pt)")
c.raises("AssertionError", "n < 0", name="negative", tags="C13")
c.lemma("entry", "ed_mul_zero", "spec.ed_pt(pt)")
c.lemma("entry", "ed_mul_step", "n", "spec.ed_pt(pt)")
c.ensures("spec.ed_valid(result)", name="valid", tags="C12 C13 C05")
c.ensures("spec.ed_pt(result) == spec.ed_mul(n, spec.ed_pt(pt))", name="multiple", tags="C12 C13 C05 C14")
c.canary("spec.ed_pt(result) == spec.ed_mul(n + 1, spec.ed_pt(pt))")

c = REG.contract(M + "scalarmult_element")
c.params(pt=PT, n="int").returns(PT).pure().decreases("n")
c.requires("spec.ed_valid(pt)")
c.requires("spec.ed_insub(spec.ed_pt(pt)) and spec.ed_pt(pt) != spec.ed_O()", name="prime-order-point")
c.requires("n < spec.ed_L()", name="scalar-below-order")
c.raises("AssertionError", "n < 0", name="negative", tags="C13")
c.lemma("entry", "ed_mul_zero", "spec.ed_pt(pt)")
c.lemma("entry", "ed_mul_step", "n", "spec.ed_pt(pt)")
c.lemma("entry", "ed_ladder_diff", "n // 2", "spec.ed_pt(pt)")
c.ensures("spec.ed_valid(result)", name="valid", tags="C12 C13")
c.ensures("spec.ed_pt(result) == spec.ed_mul(n, spec.ed_pt(pt))", name="multiple", tags="C12 C13")

# ---- encodings -----------------------------------------------------------------------------------------------------------------
c = REG.contract(M + "encodepoint")
c.params(P="seq:int,int").returns("bytes").pure()
c.raises("AssertionError", "not (0 <= P[1] and P[1] < 2**255)", name="y-range", tags="C15")
c.ensures("result == spec.ed_encode_xy(P[0], P[1])", name="val", tags="C15 C13 C03")
c.ensures("len(result) == 32", name="len", tags="C15 C03")
c.canary("result == spec.ed_encode_xy(P[1], P[0])")

c = REG.contract(M + "decodepoint")
c.params(s="bytes").returns("list:int,int").pure()
c.raises("ValueError", "len(s) == 0", name="empty", tags="C05")
c.raises("NotOnCurve", "len(s) > 0 and not spec.ed_oncurve(spec.ed_decode_xy(s)[0], spec.ed_decode_xy(s)[1])", name="off-curve", tags="C05")
c.ensures("result[0] == spec.ed_decode_xy(s)[0] and result[1] == spec.ed_decode_xy(s)[1]", name="val", tags="C05 C15")
c.ensures("spec.ed_oncurve(result[0], result[1])", name="on-curve", tags="C05")

c = REG.contract(M + "bytes_to_scalar")
c.params(s="bytes").returns("int").pure()
c.raises("AssertionError", "len(s) != 32", name="length", tags="C15")
c.ensures("result == spec.le(s)", name="little-endian", tags="C15 C08 C10")
c.canary("result == spec.be(s)")

c = REG.contract(M + "random_scalar")
c.params(entropy_f="entropy").returns("int").pure()
c.ensures("result == spec.be(spec.ent(entropy_f, 0, 64)) % L", name="512-bits-mod-L", tags="C11 C03 C16")
c.ensures("0 <= result and result < L", name="range", tags="C11 C04")
c.ensures("spec.entropy_calls() == 1 and spec.entropy_sizes_all(64)", name="one-draw-of-64-bytes", tags="C11")
c.canary("result == spec.be(spec.ent(entropy_f, 0, 32)) % L")

c = REG.contract(M + "scalar_to_bytes")
c.params(y="int").returns("bytes").pure()
c.ensures("result == spec.rev(spec.mkbytes(32, y % L))", name="val", tags="C15 C10 C08")
c.ensures("len(result) == 32 and spec.le(result) == y % L", name="fixed-width-little-endian", tags="C15 C10")
c.canary("spec.be(result) == y % L")

# ---- element classes -------------------------------------------------------------------------------------------------------------
ANY = "obj:%s|%s|%s" % (EOUG, ELT, ZERO)

c = REG.contract(EOUG + ".add")
c.params(self="obj:%s|%s" % (EOUG, ELT), other=ANY).returns("obj:%s|%s" % (EOUG, ZERO)).pure()
c.ensures("spec.ed_view(result) == spec.ed_add(spec.ed_view(self), spec.ed_view(other))", name="sum", tags="C13 C12")
c.ensures("(result is Zero) == (spec.ed_add(spec.ed_view(self), spec.ed_view(other)) == spec.ed_O())", name="zero-iff-identity", tags="C13")

c = REG.contract(EOUG + ".scalarmult")
c.params(self="obj:" + EOUG, s="int").returns("obj:" + EOUG).pure()
c.raises("AssertionError", "s < 0", name="negative", tags="C13")
c.ensures("spec.ed_view(result) == spec.ed_mul(s, spec.ed_view(self))", name="multiple", tags="C13 C05 C14")

c = REG.contract(EOUG + ".to_bytes")
c.params(self=ANY).returns("bytes").pure()
c.ensures("result == spec.ed_enc(spec.ed_view(self))", name="val", tags="C13 C15 C03")
c.ensures("len(result) == 32", name="len", tags="C15 C03")

c = REG.contract(EOUG + ".__eq__")
c.params(self=ANY, other=ANY).returns("bool").pure()
c.ensures("result == (spec.ed_view(self) == spec.ed_view(other))", name="value-equality", tags="C13")

c = REG.contract(EOUG + ".__ne__")
c.params(self=ANY, other=ANY).returns("bool").pure()
c.ensures("result == (spec.ed_view(self) != spec.ed_view(other))", name="value-inequality", tags="C13")

SUB = "obj:%s|%s" % (ELT, ZERO)
c = REG.contract(ELT + ".add")
c.params(self="obj:" + ELT, other=ANY).returns("obj:%s|%s|%s" % (ELT, ZERO, EOUG)).pure().refines("EltSpec.add")
c.lemma("entry", "ed_insub_add", "spec.ed_view(self)", "spec.ed_view(other)")
c.lemma("entry", "ed_insub_O")
c.ensures("spec.ed_view(result) == spec.ed_add(spec.ed_view(self), spec.ed_view(other))", name="sum", tags="C13 C01")
c.ensures("(result is Zero) == (spec.ed_add(spec.ed_view(self), spec.ed_view(other)) == spec.ed_O())", name="zero-iff-identity", tags="C13")
c.ensures("implies(classof(other) in ('Element', '_ZeroElement'), classof(result) in ('Element', '_ZeroElement'))", name="closure", tags="C13 C01")

c = REG.contract(ELT + ".scalarmult")
c.params(self="obj:" + ELT, s="int").returns(SUB).pure().refines("EltSpec.scalarmult")
c.lemma("entry", "ed_mul_mod", "s", "spec.ed_view(self)")
c.lemma("entry", "ed_prime_order", "s % L", "spec.ed_view(self)")
c.lemma("entry", "ed_insub_mul", "s % L", "spec.ed_view(self)")
c.lemma("entry", "ed_mul_zero", "spec.ed_view(self)")
c.ensures("spec.ed_view(result) == spec.ed_mul(s, spec.ed_view(self))", name="multiple", tags="C13 C01 C12")
c.ensures("(result is Zero) == (s % L == 0)", name="zero-iff-multiple-of-L", tags="C13")

c = REG.contract(ELT + ".negate")
c.params(self="obj:" + ELT).returns("obj:" + ELT).pure()
c.lemma("entry", "ed_neg_mul", "spec.ed_view(self)")
c.lemma("entry", "ed_prime_order", "L - 1", "spec.ed_view(self)")
c.lemma("entry", "ed_insub_mul", "L - 1", "spec.ed_view(self)")
c.ensures("spec.ed_view(result) == spec.ed_neg(spec.ed_view(self))", name="additive-inverse", tags="C13 C12")

c = REG.contract(ELT + ".subtract")
c.params(self="obj:" + ELT, other=SUB).returns("obj:%s|%s|%s" % (ELT, ZERO, EOUG)).pure()
c.ensures("spec.ed_view(result) == spec.ed_add(spec.ed_view(self), spec.ed_neg(spec.ed_view(other)))", name="difference", tags="C13")
c.ensures("classof(result) in ('Element', '_ZeroElement')", name="closure", tags="C13")

c = REG.contract(ZERO + ".add")
c.params(self="obj:" + ZERO, other=ANY).returns(ANY).pure().refines("EltSpec.add")
c.lemma("entry", "ed_add_zero", "spec.ed_view(other)")
c.ensures("spec.ed_view(result) == spec.ed_add(spec.ed_view(self), spec.ed_view(other))", name="sum", tags="C13")
c.ensures("classof(result) == classof(other)", name="closure", tags="C13")

c = REG.contract(ZERO + ".scalarmult")
c.params(self="obj:" + ZERO, s="int").returns("obj:" + ZERO).pure().refines("EltSpec.scalarmult")
c.lemma("entry", "ed_mul_O", "s")
c.ensures("spec.ed_view(result) == spec.ed_mul(s, spec.ed_view(self))", name="multiple", tags="C13")

c = REG.contract(ZERO + ".negate")
c.params(self="obj:" + ZERO).returns("obj:" + ZERO).pure()
c.lemma("entry", "ed_neg_O")
c.ensures("spec.ed_view(result) == spec.ed_neg(spec.ed_view(self))", name="additive-inverse", tags="C13")

# ---- decoding (C05) ---------------------------------------------------------------------------------------------------------------
c = REG.contract(M + "bytes_to_unknown_group_element")
c.params(bytes="bytes").returns("obj:%s|%s" % (EOUG, ZERO)).pure()
c.raises("ValueError", "bytes != _zero_bytes and len(bytes) == 0", name="empty", tags="C05")
c.raises("NotOnCurve", "bytes != _zero_bytes and len(bytes) > 0 and not spec.ed_oncurve(spec.ed_decode_xy(bytes)[0], spec.ed_decode_xy(bytes)[1])", name="off-curve", tags="C05")
c.ensures("(result is Zero) == (bytes == _zero_bytes)", name="zero-iff-zero-bytes", tags="C05")
c.ensures("implies(bytes != _zero_bytes, spec.ed_view(result) == spec.ed_aff(spec.ed_decode_xy(bytes)[0], spec.ed_decode_xy(bytes)[1]))", name="val", tags="C05")

c = REG.contract(M + "bytes_to_element")
c.params(bytes="bytes").returns("obj:" + ELT).pure()
c.raises("Exception", "not spec.ed_decodable(bytes)", name="undecodable", tags="C05 C15 C01")
# completeness of decoding, from the Lean theorem about the real xrecover (no cited lemma any more): if `bytes` is the
# canonical encoding of P then decodepoint finds exactly P
c.hint("entry", "spec.ed_point_facts(spec.dec(spec.ed_group(), bytes))", name="points-are-coordinate-pairs")
# stepping stone (proved first, then available): the y field of a decodable string IS the y coordinate of the point it encodes
c.hint("entry", "implies(spec.ed_decodable(bytes), spec.ed_y(spec.dec(spec.ed_group(), bytes)) == spec.ed_decode_xy(bytes)[1])", name="y-field-of-a-decodable-string")
c.lemma("entry", "ed_xrecover_complete", "spec.ed_decode_xy(bytes)[1]", "spec.dec(spec.ed_group(), bytes)")
# second stepping stone, proved once at entry from the lemma instance above: decoding a decodable string finds its point
c.hint("entry", "implies(spec.ed_decodable(bytes), spec.ed_oncurve(spec.ed_decode_xy(bytes)[0], spec.ed_decode_xy(bytes)[1]) and spec.ed_aff(spec.ed_decode_xy(bytes)[0], spec.ed_decode_xy(bytes)[1]) == spec.dec(spec.ed_group(), bytes))", name="decoding-is-complete")
c.lemma("after:P", "ed_insub_def", "spec.ed_view(P)")
c.hint("entry", "spec.ed_enc(spec.ed_O()) == _zero_bytes", name="zero-bytes-encode-the-identity")
c.hint("after:P", "spec.ed_decodable_intro(spec.ed_view(P), bytes)", name="definition-of-decodable")
c.ensures("len(bytes) == 32", name="exact-length", tags="C05 C02")
c.ensures("spec.ed_enc(spec.ed_view(result)) == bytes", name="canonical", tags="C05 C02 C15")
c.ensures("spec.ed_decodable_intro(spec.ed_view(result), bytes) and spec.ed_decodable(bytes) and spec.ed_view(result) == spec.dec(Ed25519Group, bytes)", name="strict", tags="C05 C02")
c.bind("Ed25519Group", "spec.ed_group()")

# ---- arbitrary_element: try-and-increment (C14) ----------------------------------------------------------------------------------
c = REG.contract(M + "arbitrary_element")
c.params(seed="bytes").returns("obj:" + ELT).pure()
c.loop(1, "spec.ed_ae_from(y, plus) == spec.ed_ae_from(y, 0)", name="first-good-point")
c.loop(1, "plus >= 0", name="counter")
# the same search written by stepping the candidate itself (y = (y+1) % Q) instead of a counter
c.loop_variant(1, 1, "spec.ed_ae_from(y, 0) == spec.ed_ae(seed)", name="first-good-point")
c.loop_variant(1, 1, "0 <= y and y < Q", name="candidate-reduced")
c.lemma("after:P8", "ed_insub_def", "spec.ed_view(P8)")
c.lemma("after:P8", "ed_cofactor", "spec.ed_view(P)")
c.ensures("spec.ed_view(result) == spec.ed_ae(seed)", name="published-construction", tags="C14 C03")
c.ensures("spec.ed_insub(spec.ed_view(result)) and spec.ed_view(result) != spec.ed_O()", name="non-identity-member", tags="C14 C04 C18")
c.canary("spec.ed_view(result) == spec.ed_ae_from(0, 0)")

# ---- the group object (ed25519_group.py): thin delegations that refine GroupSpec ----------------------------------------------------
GRP = "ed25519_group._Ed25519Group"
REG.shape(GRP, Base="global:ed25519_basic.Base", Zero="global:ed25519_basic.Zero", scalar_size_bytes="int", element_size_bytes="int")
REG.class_invariant(GRP, "self.scalar_size_bytes == 32 and self.element_size_bytes == 32", name="sizes")
REG.class_invariant(GRP, "spec.ed_view(self.Base) == spec.ed_B() and spec.ed_view(self.Zero) == spec.ed_O()", name="base-and-zero")
vc.SINGLETONS[GRP] = ("ed25519_group", "Ed25519Group")

c = REG.contract(GRP + ".random_scalar")
c.params(self="obj:" + GRP, entropy_f="entropy").returns("int").pure().refines("GroupSpec.random_scalar")
c.ensures("0 <= result and result < L", name="range", tags="C11")
c.bind("L", "spec.ed_L()")

c = REG.contract(GRP + ".scalar_to_bytes")
c.params(self="obj:" + GRP, i="int").returns("bytes").pure().refines("GroupSpec.scalar_to_bytes")
c.ensures("len(result) == 32", name="len", tags="C15")

c = REG.contract(GRP + ".bytes_to_scalar")
c.params(self="obj:" + GRP, b="bytes").returns("int").pure().refines("GroupSpec.bytes_to_scalar")
c.ensures("result == spec.le(b)", name="little-endian", tags="C15")

c = REG.contract(GRP + ".password_to_scalar")
c.params(self="obj:" + GRP, pw="bytes").returns("int").pure().refines("GroupSpec.password_to_scalar")
c.ensures("result == spec.p2s_def(pw, 32, spec.ed_L())", name="val", tags="C14 C03")

c = REG.contract(GRP + ".arbitrary_element")
c.params(self="obj:" + GRP, seed="bytes").returns("obj:" + ELT).pure().refines("GroupSpec.arbitrary_element")
c.ensures("spec.ed_view(result) == spec.ed_ae(seed)", name="val", tags="C14 C03")

c = REG.contract(GRP + ".bytes_to_element")
c.params(self="obj:" + GRP, b="bytes").returns("obj:" + ELT).pure().refines("GroupSpec.bytes_to_element")
c.ensures("spec.decodable(self, b)", name="strict", tags="C05 C02")

vc.INLINE_OK |= {GRP + ".order"}
