"""Contracts for src/spake2/groups.py: IntegerGroup over SYMBOLIC (p, q, g) and the module-level derivations.
IntegerGroup.* refine the abstract GroupSpec.* contracts (same clause texts through the polymorphic spec
functions: for an IntegerGroup object, gadd(a,b) = a*b mod p, gmul(n,a) = a^(n mod q) mod p, enc = fixed-width
big-endian, view(e) = e._e)."""
from pyvc.contracts import REG
from pyvc import vc

G = "groups.IntegerGroup"
REG.shape(G, q="int", p="int", scalar_size_bytes="int", element_size_bits="int", element_size_bytes="int",
          Zero="obj:groups._Element;_group=$owner", Base="obj:groups._Element;_group=$owner")
REG.shape("groups._Element", _group="obj:groups.IntegerGroup", _e="int")

# valid_group(p, q, g): the hypotheses under which IntegerGroup is a prime-order group (C18 states them for the
# shipped constants; here they are the precondition "any valid (p,q,g)")
for n, e in [
    ("primes", "spec.is_prime(self.p) and spec.is_prime(self.q)"),
    ("q-divides-p-1", "self.q >= 2 and self.p >= 3 and (self.p - 1) % self.q == 0"),
    ("sizes", "self.scalar_size_bytes == spec.size_bytes(self.q) and self.element_size_bytes == spec.size_bytes(self.p) and self.element_size_bits == spec.size_bits(self.p)"),
    ("A-hkdf-len", "self.scalar_size_bytes + 16 <= 8160 and self.element_size_bytes <= 8160"),
    ("zero", "self.Zero._e == 1"),
]:
    REG.class_invariant(G, e, name=n)
REG.class_invariant("groups._Element", "0 < self._e and self._e < self._group.p", name="in-field", tags="C13 C05")
REG.class_invariant("groups._Element", "spec.powmod(self._e, self._group.q, self._group.p) == 1", name="order-divides-q", tags="C13 C05")

vc.INLINE_OK |= {"groups.expand_password", "groups.expand_arbitrary_element_seed", "groups.IntegerGroup.order",
                 "groups._Element.add", "groups._Element.scalarmult", "groups._Element.to_bytes"}

# ---- module-level derivations (C14) -------------------------------------------------------------------------------
c = REG.contract("groups.password_to_scalar")
c.params(pw="bytes", scalar_size_bytes="int", q="int").returns("int").pure()
c.requires("scalar_size_bytes >= 1 and scalar_size_bytes + 16 <= 8160 and q >= 1")
c.ensures("result == spec.p2s_def(pw, scalar_size_bytes, q)", name="val", tags="C14 C03")
c.ensures("0 <= result and result < q", name="range", tags="C14 C01 C04")
c.canary("result == spec.be(spec.hkdf(pw, b'', b'SPAKE2 pw', scalar_size_bytes)) % q")

# ---- IntegerGroup methods ---------------------------------------------------------------------------------------------
c = REG.contract(G + ".password_to_scalar")
c.params(self="obj:" + G, pw="bytes").returns("int").pure().refines("GroupSpec.password_to_scalar")
c.ensures("result == spec.p2s(self, pw)", name="val", tags="C14 C03")
c.ensures("0 <= result and result < self.q", name="range", tags="C14 C01")

c = REG.contract(G + ".scalar_to_bytes")
c.params(self="obj:" + G, i="int").returns("bytes").pure().refines("GroupSpec.scalar_to_bytes")
c.raises("ValueError", "i > self.q", name="too-big", tags="C15")
c.raises("binascii.Error", "i < 0", name="negative", tags="C15")
c.ensures("result == spec.s2b(self, i)", name="val", tags="C15 C10 C08")
c.ensures("len(result) == self.scalar_size_bytes and spec.be(result) == i", name="fixed-width-big-endian", tags="C15 C10")
c.canary("len(result) == self.scalar_size_bytes + 1")

c = REG.contract(G + ".bytes_to_scalar")
c.params(self="obj:" + G, b="bytes").returns("int").pure().refines("GroupSpec.bytes_to_scalar")
c.raises("AssertionError", "not spec.b2s_ok(self, b)", name="bad-scalar", tags="C15")
c.ensures("result == spec.b2s(self, b)", name="val", tags="C15 C08")
c.ensures("result == spec.be(b) and 0 <= result and result < self.q", name="big-endian-in-range", tags="C15")
c.ensures("spec.s2b(self, result) == b", name="roundtrip", tags="C15 C08")
c.canary("result == spec.be(b) + 1")

c = REG.contract(G + "._element_to_bytes")
c.params(self="obj:" + G, e="obj:groups._Element;_group=$self").returns("bytes").pure()
c.ensures("result == spec.enc(self, e._e)", name="val", tags="C15 C13 C03")
c.ensures("len(result) == self.element_size_bytes and spec.be(result) == e._e", name="fixed-width-big-endian", tags="C15 C13")
c.canary("len(result) == self.element_size_bytes + 1")

c = REG.contract(G + "._is_member")
c.params(self="obj:" + G, e="rawobj:groups._Element;_group=$self").returns("bool").pure()
c.ensures("result == (e._group is self and spec.powmod(e._e, self.q, self.p) == 1)", name="val", tags="C05 C14")

c = REG.contract(G + ".bytes_to_element")
c.params(self="obj:" + G, b="bytes").returns("obj:groups._Element").pure().refines("GroupSpec.bytes_to_element")
c.raises("AssertionError", "len(b) != self.element_size_bytes", name="wrong-length", tags="C05 C02")
c.raises("ValueError", "len(b) == self.element_size_bytes and not spec.insub(self, spec.be(b))", name="not-member", tags="C05")
c.ensures("result._group is self", name="group", tags="C05 C13")
c.ensures("result._e == spec.be(b) and result._e == spec.dec(self, b)", name="val", tags="C05 C15")
c.ensures("spec.decodable(self, b)", name="strict", tags="C05 C02")
c.ensures("spec.enc(self, result._e) == b", name="canonical", tags="C05 C15 C02")
c.canary("result._e == spec.be(b) + 1")

c = REG.contract(G + "._add")
c.params(self="obj:" + G, e1="obj:groups._Element;_group=$self", e2="obj:groups._Element;_group=$self").returns("obj:groups._Element").pure()
c.lemma("entry", "powmod_mul", "e1._e", "e2._e", "self.q", "self.p")
c.lemma("entry", "prime_mul_nonzero", "e1._e", "e2._e", "self.p")
c.ensures("result._group is self", name="group", tags="C13")
c.ensures("result._e == spec.gadd(self, e1._e, e2._e)", name="val", tags="C13 C01 C03")
c.canary("result._e == e1._e * e2._e")

c = REG.contract(G + "._scalarmult")
c.params(self="obj:" + G, e1="obj:groups._Element;_group=$self", i="int").returns("obj:groups._Element").pure()
c.lemma("entry", "powmod_pow", "e1._e", "i % self.q", "self.q", "self.p")
c.lemma("entry", "powmod_base_one", "i % self.q", "self.p")
c.lemma("entry", "powmod_zero", "spec.powmod(e1._e, i % self.q, self.p)", "self.q", "self.p")
c.ensures("result._group is self", name="group", tags="C13")
c.ensures("result._e == spec.gmul(self, i, e1._e)", name="val", tags="C13 C01 C03")
c.canary("result._e == spec.powmod(e1._e, i, self.p)")

c = REG.contract(G + ".arbitrary_element")
c.params(self="obj:" + G, seed="bytes").returns("obj:groups._Element").pure().refines("GroupSpec.arbitrary_element")
c.bind("h", "spec.be(spec.hkdf(seed, b'', b'SPAKE2 arbitrary element', self.element_size_bytes)) % self.p")
c.bind("r", "(self.p - 1) // self.q")
c.lemma("entry", "powmod_exp_mul", "h", "r", "self.q", "self.p")
c.lemma("entry", "fermat", "h", "self.p")
c.lemma("entry", "powmod_zero", "h", "r", "self.p")
c.lemma("entry", "powmod_zero", "spec.powmod(h, r, self.p)", "self.q", "self.p")
c.raises("AssertionError", "h == 0 or spec.powmod(h, r, self.p) == 1", name="no-element", tags="C14")
c.ensures("result._group is self", name="group", tags="C14")
c.ensures("result._e == spec.ae(self, seed)", name="val", tags="C14 C03")
c.ensures("spec.insub(self, result._e)", name="member", tags="C14 C04 C18")
c.ensures("result._e != spec.O(self)", name="non-identity", tags="C14 C18")
c.canary("result._e == spec.powmod(h, r + 1, self.p)")

# ---- the element API of integer groups refines EltSpec ---------------------------------------------------------------
REG.alias("groups._Element", _g="_group", _v="_e")
REG.alias(G, )
E = "groups._Element"
c = REG.contract(E + ".add")
c.params(self="obj:" + E, other="obj:%s;_group=$self._group" % E).returns("obj:" + E).pure().refines("EltSpec.add")
c.ensures("result._group is self._group", name="group", tags="C13")
c.ensures("result._e == (self._e * other._e) % self._group.p", name="val", tags="C13")

c = REG.contract(E + ".scalarmult")
c.params(self="obj:" + E, s="int").returns("obj:" + E).pure().refines("EltSpec.scalarmult")
c.ensures("result._group is self._group", name="group", tags="C13")
c.ensures("result._e == spec.powmod(self._e, s % self._group.q, self._group.p)", name="val", tags="C13")

c = REG.contract(E + ".to_bytes")
c.params(self="obj:" + E).returns("bytes").pure().refines("EltSpec.to_bytes")
c.ensures("spec.be(result) == self._e and len(result) == self._group.element_size_bytes", name="val", tags="C13 C15")

c = REG.contract(G + ".random_scalar")
c.params(self="obj:" + G, entropy_f="entropy").returns("int").pure().refines("GroupSpec.random_scalar")
c.ensures("0 <= result and result < self.q", name="range", tags="C11 C04")
c.ensures("result == spec.rr(self.q, entropy_f, 0)", name="rejection-sampling", tags="C11 C03 C16")
c.ensures("spec.entropy_sizes_all(self.scalar_size_bytes)", name="block-size", tags="C11")

c = REG.contract(G + ".__init__")
c.params(self="obj:" + G, p="int", q="int", g="int").returns("none").setup("fresh_self")
# the constructor calls two methods on the partially initialised object: they are executed inline here
c.inline_callees = {G + ".password_to_scalar", G + ".scalar_to_bytes"}
c.requires("q >= 1 and p >= 1 and spec.size_bytes(q) + 16 <= 8160")
c.raises("AssertionError", "spec.powmod(g, q, p) != 1", name="generator-order", tags="C18 C13")
c.ensures("self.p == p and self.q == q and self.Base._e == g and self.Zero._e == 1", name="fields", tags="C01 C03 C04 C05 C13 C14 C15 C18 C16")
c.ensures("self.Base._group is self and self.Zero._group is self", name="elements-of-self", tags="C01 C03 C04 C05 C13 C14 C15 C18")
c.ensures("self.scalar_size_bytes == spec.size_bytes(q) and self.element_size_bytes == spec.size_bytes(p) and self.element_size_bits == spec.size_bits(p)", name="sizes", tags="C01 C03 C04 C05 C13 C14 C15 C18")
c.ensures("spec.powmod(g, q, p) == 1", name="order-divides-q", tags="C01 C03 C04 C05 C13 C14 C15 C18")

c = REG.contract(E + ".__eq__")
c.params(self="obj:" + E, other="obj:%s;_group=$self._group" % E).returns("bool").pure()
c.ensures("result == (self._e == other._e)", name="value-equality", tags="C13")

c = REG.contract(E + ".__ne__")
c.params(self="obj:" + E, other="obj:%s;_group=$self._group" % E).returns("bool").pure()
c.ensures("result == (self._e != other._e)", name="value-inequality", tags="C13")
