"""Property-level lemmas as GHOST PROGRAMS: Python text executed by the same symbolic executor, in which every
call of a repository function is resolved by that function's CONTRACT (never its body).  Each `assert` is a
proof obligation.  These are the steps from the per-function contracts to the statements of the properties."""
from pyvc.contracts import REG

SESSION = dict(pw="bytes", params="obj:params._Params", ea="entropy", eb="entropy")

# ---------------------------------------------------------------------------------------------------------------
# C01  key agreement (asymmetric)
# ---------------------------------------------------------------------------------------------------------------
c = REG.ghost_function("lemma.C01_agree_AB", "spake2", '''
def C01_agree_AB(pw, idA, idB, params, ea, eb):
    a = SPAKE2_A(pw, idA, idB, params, ea)
    b = SPAKE2_B(pw, idA, idB, params, eb)
    ma = a.start()
    mb = b.start()
    g = params.group
    XA = spec.msg_of(a)
    XB = spec.msg_of(b)
    if spec.refuses_identity(g) and (XA == spec.O(g) or XB == spec.O(g)):
        return None            # degenerate: a blinded element is the identity (the peer rejects it)
    if spec.enc(g, XA) == spec.enc(g, XB):
        return None            # degenerate: both ends sent the same blinded element (ReflectionThwarted)
    lemma("spake2_agree", spec.gid(g), a.xy_scalar, b.xy_scalar, a.pw_scalar, spec.G(g), spec.view(params.M), spec.view(params.N))
    ka = a.finish(mb)
    kb = b.finish(ma)
    assert ka == kb, "keys-agree"
    assert len(ka) == 32, "key-length"
    return ka
''')
c.params(pw="bytes", idA="bytes", idB="bytes", params="obj:params._Params", ea="entropy", eb="entropy").returns("any")
c.lemma_tags = {"C01"}

c = REG.ghost_function("lemma.C01_agree_sym", "spake2", '''
def C01_agree_sym(pw, idS, params, ea, eb):
    a = SPAKE2_Symmetric(pw, idS, params, ea)
    b = SPAKE2_Symmetric(pw, idS, params, eb)
    ma = a.start()
    mb = b.start()
    g = params.group
    XA = spec.msg_of(a)
    XB = spec.msg_of(b)
    if spec.refuses_identity(g) and (XA == spec.O(g) or XB == spec.O(g)):
        return None
    if spec.enc(g, XA) == spec.enc(g, XB):
        return None
    lemma("spake2_agree", spec.gid(g), a.xy_scalar, b.xy_scalar, a.pw_scalar, spec.G(g), spec.view(params.S), spec.view(params.S))
    ka = a.finish(mb)
    kb = b.finish(ma)
    assert ka == kb, "keys-agree"
    assert len(ka) == 32, "key-length"
    return ka
''')
c.params(pw="bytes", idS="bytes", params="obj:params._Params", ea="entropy", eb="entropy").returns("any")
c.lemma_tags = {"C01"}

# the same with a persist/restore cycle on side A between start and finish (uses C08's clauses)
c = REG.ghost_function("lemma.C01_agree_AB_restored", "spake2", '''
def C01_agree_AB_restored(pw, idA, idB, params, ea, eb):
    a0 = SPAKE2_A(pw, idA, idB, params, ea)
    b0 = SPAKE2_B(pw, idA, idB, params, eb)
    ma = a0.start()
    mb = b0.start()
    a = SPAKE2_A.from_serialized(a0.serialize(), params, _ghost_x0=a0.xy_scalar)
    b = SPAKE2_B.from_serialized(b0.serialize(), params, _ghost_x0=b0.xy_scalar)
    g = params.group
    XA = spec.msg_of(a0)
    XB = spec.msg_of(b0)
    if spec.refuses_identity(g) and (XA == spec.O(g) or XB == spec.O(g)):
        return None
    if spec.enc(g, XA) == spec.enc(g, XB):
        return None
    lemma("spake2_agree", spec.gid(g), a0.xy_scalar, b0.xy_scalar, a0.pw_scalar, spec.G(g), spec.view(params.M), spec.view(params.N))
    ka = a.finish(mb)
    kb = b.finish(ma)
    assert ka == kb, "keys-agree"
    return ka
''')
c.params(pw="bytes", idA="bytes", idB="bytes", params="obj:params._Params", ea="entropy", eb="entropy").returns("any")
c.lemma_tags = {"C01", "C08"}

# ---------------------------------------------------------------------------------------------------------------
# C08  persist/restore transparency: the restored instance has the same observable state, hence (finish and
# serialize being functions of that state and their argument - their contracts are total functional specs)
# the same outcome for every inbound message, including errors and reflection.
# ---------------------------------------------------------------------------------------------------------------
for K in ("SPAKE2_A", "SPAKE2_B", "SPAKE2_Symmetric"):
    ids = "assert r.idSymmetric == s.idSymmetric, 'idS'" if K.endswith("Symmetric") else "assert r.idA == s.idA and r.idB == s.idB, 'ids'"
    c = REG.ghost_function("lemma.C08_roundtrip_" + K, "spake2", '''
def C08_roundtrip(s, m):
    assume(s._started and not s._finished and hasfield(s, 'outbound_message'))
    blob = s.serialize()
    blob2 = s.serialize()
    assert spec.json_dict(blob) == spec.json_dict(blob2), "serialize-deterministic"
    r = %s.from_serialized(blob, s.params, _ghost_x0=s.xy_scalar)
    assert r.pw == s.pw, "pw"
    %s
    assert r.pw_scalar == s.pw_scalar, "pw_scalar"
    assert r.xy_scalar == s.xy_scalar, "xy_scalar"
    assert r.outbound_message == s.outbound_message, "outbound_message"
    assert r.params is s.params, "params"
    assert r._started and not r._finished, "flags"
    assert spec.json_dict(r.serialize()) == spec.json_dict(blob), "reserialize-equal"
    o1 = try_call(s.finish, m)
    o2 = try_call(r.finish, m)
    assert o1 == o2, "same-finish-outcome"
    return None
''' % (K, ids))
    c.params(s="obj:spake2." + K, m="bytes").returns("none")
    c.lemma_tags = {"C08", "C09"}
    # C09, last sentence: a blob saved at ANY point of the session's life after start() - also after finish(), which the
    # code allows - restores to an instance with the original scalar, identities and outbound message
    c = REG.ghost_function("lemma.C09_restore_reproduces_" + K, "spake2", '''
def C09_restore_reproduces(s):
    assume(s._started and hasfield(s, 'outbound_message'))
    blob = s.serialize()
    r = %s.from_serialized(blob, s.params, _ghost_x0=s.xy_scalar)
    assert r.pw == s.pw, "pw"
    %s
    assert r.xy_scalar == s.xy_scalar, "xy_scalar"
    assert r.outbound_message == s.outbound_message, "outbound_message"
    return None
''' % (K, ids))
    c.params(s="obj:spake2." + K).returns("none")
    c.lemma_tags = {"C09"}

# ---------------------------------------------------------------------------------------------------------------
# C17  binding: with all message/K widths equal, equal keys imply equal arguments (modulo M-sha)
# ---------------------------------------------------------------------------------------------------------------
c = REG.ghost_function("lemma.C17_binding_asym", "spake2", '''
def C17_binding_asym(idA, idB, X, Y, K, pw, idA2, idB2, X2, Y2, K2, pw2, w):
    assume(len(X) == w and len(Y) == w and len(K) == w and len(X2) == w and len(Y2) == w and len(K2) == w)
    k1 = finalize_SPAKE2(idA, idB, X, Y, K, pw)
    k2 = finalize_SPAKE2(idA2, idB2, X2, Y2, K2, pw2)
    assume(k1 == k2)
    sha_injective()
    assert pw == pw2, "pw"
    assert idA == idA2, "idA"
    assert idB == idB2, "idB"
    assert X == X2, "X"
    assert Y == Y2, "Y"
    assert K == K2, "K"
    return None
''')
c.params(**{n: "bytes" for n in "idA idB X Y K pw idA2 idB2 X2 Y2 K2 pw2".split()}, w="int").returns("none")
c.lemma_tags = {"C17", "C02"}

c = REG.ghost_function("lemma.C17_binding_sym", "spake2", '''
def C17_binding_sym(idS, m1, m2, K, pw, idS2, n1, n2, K2, pw2, w):
    assume(len(m1) == w and len(m2) == w and len(K) == w and len(n1) == w and len(n2) == w and len(K2) == w)
    k1 = finalize_SPAKE2_symmetric(idS, m1, m2, K, pw)
    k2 = finalize_SPAKE2_symmetric(idS2, n1, n2, K2, pw2)
    assert k1 == finalize_SPAKE2_symmetric(idS, m2, m1, K, pw), "swap-invariant"
    assume(k1 == k2)
    sha_injective()
    assert pw == pw2, "pw"
    assert idS == idS2, "idS"
    assert K == K2, "K"
    assert (m1 == n1 and m2 == n2) or (m1 == n2 and m2 == n1), "messages-as-a-pair"
    return None
''')
c.params(**{n: "bytes" for n in "idS m1 m2 K pw idS2 n1 n2 K2 pw2".split()}, w="int").returns("none")
c.lemma_tags = {"C17", "C02"}

# ---------------------------------------------------------------------------------------------------------------
# C02  tampering / mismatch: two ends that obtain equal keys had identical views of the password, the identities
# and both messages exactly as sent (modulo M-sha).  a and b are ANY two started sessions over the same parameter
# object (possibly different passwords and identities); m, m2 are ARBITRARY delivered byte strings.
# ---------------------------------------------------------------------------------------------------------------
c = REG.ghost_function("lemma.C02_tamper_AB", "spake2", '''
def C02_tamper_AB(pwa, idAa, idBa, pwb, idAb, idBb, params, ea, eb, m, m2):
    a = SPAKE2_A(pwa, idAa, idBa, params, ea)
    b = SPAKE2_B(pwb, idAb, idBb, params, eb)
    ma = a.start()
    mb = b.start()
    ka = a.finish(m)           # A receives m   (whatever the network delivered)
    kb = b.finish(m2)          # B receives m2
    assume(ka == kb)
    sha_injective()
    assert pwa == pwb, "same-password"
    assert idAa == idAb and idBa == idBb, "same-identities"
    assert m == mb, "A-received-exactly-what-B-sent"
    assert m2 == ma, "B-received-exactly-what-A-sent"
    return None
''')
c.params(pwa="bytes", idAa="bytes", idBa="bytes", pwb="bytes", idAb="bytes", idBb="bytes", params="obj:params._Params",
         ea="entropy", eb="entropy", m="bytes", m2="bytes").returns("none")
c.may_raise("Exception")
c.lemma_tags = {"C02"}

c = REG.ghost_function("lemma.C02_tamper_sym", "spake2", '''
def C02_tamper_sym(pwa, ida, pwb, idb, params, ea, eb, m, m2):
    a = SPAKE2_Symmetric(pwa, ida, params, ea)
    b = SPAKE2_Symmetric(pwb, idb, params, eb)
    ma = a.start()
    mb = b.start()
    ka = a.finish(m)
    kb = b.finish(m2)
    assume(ka == kb)
    # non-degenerate: the two ends did not send the same blinded element (that coincidence is known finding K3)
    assume(a.outbound_message != b.outbound_message)
    sha_injective()
    assert pwa == pwb, "same-password"
    assert ida == idb, "same-identity"
    assert m == mb and m2 == ma, "both-received-exactly-what-was-sent"
    return None
''')
c.params(pwa="bytes", ida="bytes", pwb="bytes", idb="bytes", params="obj:params._Params", ea="entropy", eb="entropy", m="bytes", m2="bytes").returns("none")
c.may_raise("Exception")
c.lemma_tags = {"C02"}

# ---------------------------------------------------------------------------------------------------------------
# C09  the fingerprint pins every blinding element the role uses (same group object): equal fingerprints imply equal
# M and N (asymmetric) / S (symmetric), hence the same outbound message and keys (modulo M-sha)
# ---------------------------------------------------------------------------------------------------------------
c = REG.ghost_function("lemma.C09_fingerprint_binds", "spake2", '''
def C09_fingerprint_binds(p1, p2, s1, s2):
    g = p1.group
    assume(spec.fingerprint(SPAKE2_A, p1) == spec.fingerprint(SPAKE2_A, p2))
    sha_injective()
    assert spec.view(p1.M) == spec.view(p2.M), "M-pinned"
    assert spec.view(p1.N) == spec.view(p2.N), "N-pinned"
    return None
''')
c.params(p1="obj:params._Params", p2="obj:params._Params;group=$p1.group", s1="none", s2="none").returns("none")
c.lemma_tags = {"C09"}

c = REG.ghost_function("lemma.C09_fingerprint_binds_sym", "spake2", '''
def C09_fingerprint_binds_sym(p1, p2):
    g = p1.group
    assume(spec.fingerprint(SPAKE2_Symmetric, p1) == spec.fingerprint(SPAKE2_Symmetric, p2))
    sha_injective()
    assert spec.view(p1.S) == spec.view(p2.S), "S-pinned"
    return None
''')
c.params(p1="obj:params._Params", p2="obj:params._Params;group=$p1.group").returns("none")
c.lemma_tags = {"C09"}

# ---------------------------------------------------------------------------------------------------------------
# C15  round trips as lemmas over the codec contracts
# ---------------------------------------------------------------------------------------------------------------
c = REG.ghost_function("lemma.C15_number_roundtrip", "util", '''
def C15_number_roundtrip(n, maxval, b):
    assume(0 <= n and n <= maxval)
    s = number_to_bytes(n, maxval)
    assert len(s) == size_bytes(maxval), "fixed-width"
    assert bytes_to_number(s) == n, "decode-encode"
    assume(len(b) >= 1)
    v = bytes_to_number(b)
    t = number_to_bytes(v, spec.p256(len(b)) - 1)
    assert t == b, "encode-decode"
    return None
''')
c.params(n="int", maxval="int", b="bytes").returns("none")
c.lemma_tags = {"C15"}

c = REG.ghost_function("lemma.C15_integer_group_codecs", "groups", '''
def C15_integer_group_codecs(g, i, e, bs):
    assume(0 <= i and i < g.q)
    s = g.scalar_to_bytes(i)
    assert len(s) == g.scalar_size_bytes, "scalar-width"
    assert g.bytes_to_scalar(s) == i, "scalar-decode-encode"
    eb = e.to_bytes()
    assert len(eb) == g.element_size_bytes, "element-width"
    r = g.bytes_to_element(eb)
    assert r._e == e._e, "element-decode-encode"
    d = g.bytes_to_element(bs)
    assert d.to_bytes() == bs, "element-encode-decode"
    return None
''')
c.params(g="obj:groups.IntegerGroup", i="int", e="obj:groups._Element;_group=$g", bs="bytes").returns("none")
c.may_raise("AssertionError", "ValueError")
c.lemma_tags = {"C15"}

c = REG.ghost_function("lemma.C15_ed25519_codecs", "ed25519_basic", '''
def C15_ed25519_codecs(i, e, bs, e2):
    assume(0 <= i and i < L)
    s = scalar_to_bytes(i)
    assert len(s) == 32, "scalar-width"
    assert bytes_to_scalar(s) == i, "scalar-decode-encode"
    eb = e.to_bytes()
    assert len(eb) == 32, "element-width"
    spec.ed_decodable_intro(spec.ed_view(e), eb)
    r = bytes_to_element(eb)
    assert spec.ed_view(r) == spec.ed_view(e), "element-decode-encode"
    assert (e2.to_bytes() == eb) == (spec.ed_view(e2) == spec.ed_view(e)), "distinct-elements-distinct-encodings"
    d = bytes_to_element(bs)
    assert d.to_bytes() == bs, "element-encode-decode"
    return None
''')
c.params(i="int", e="obj:ed25519_basic.Element", bs="bytes", e2="obj:ed25519_basic.Element").returns("none")
c.may_raise("Exception")
c.lemma_tags = {"C15"}
