"""Abstract prime-order group interface used by spake2.py (GroupSpec / EltSpec).

spake2.py never sees a concrete group: it calls params.group.* and element methods.  Those calls are
resolved against these abstract contracts; IntegerGroup (symbolic p,q,g) and Ed25519 are proved to
satisfy them in contracts/groups.py and contracts/ed25519.py (refinement).
"""
from pyvc.contracts import REG

REG.shape("GroupSpec", Base="obj:EltSpec;_g=$owner", Zero="obj:EltSpec;_g=$owner",
          scalar_size_bytes="int", element_size_bytes="int")
REG.class_invariant("GroupSpec", "spec.view(self.Base) == spec.G(self)", name="base-is-G")
REG.class_invariant("GroupSpec", "self.scalar_size_bytes == spec.ssize(self) and self.element_size_bytes == spec.esize(self)", name="sizes")
# A-ae-empty: the fingerprint seed b"" derives an element (holds for the shipped groups: ground-checked in C18)
REG.class_invariant("GroupSpec", "spec.ae_ok(self, b'')", name="A-ae-empty")

REG.shape("EltSpec", _g="obj:GroupSpec", _v="spec:elt")
REG.class_invariant("EltSpec", "spec.insub(self._g, self._v)", name="in-subgroup")

c = REG.contract("GroupSpec.password_to_scalar").abstract()
c.params(self="obj:GroupSpec", pw="bytes").returns("int").pure()
c.ensures("result == spec.p2s(self, pw)", name="val")
c.ensures("0 <= result and result < spec.gq(self)", name="range")

c = REG.contract("GroupSpec.random_scalar").abstract()
c.params(self="obj:GroupSpec", entropy_f="entropy").returns("int").pure()
c.entropy_clause = "entropy_f"
c.ensures("result == spec.rs(self, entropy_f, entropy_pos)", name="val")
c.ensures("0 <= result and result < spec.gq(self)", name="range")

c = REG.contract("GroupSpec.bytes_to_element").abstract()
c.params(self="obj:GroupSpec", b="bytes").returns("obj:EltSpec").pure()
c.raises("Exception", "not spec.decodable(self, b)", name="undecodable")
c.ensures("result._g is self", name="group")
c.ensures("result._v == spec.dec(self, b)", name="val")

c = REG.contract("GroupSpec.arbitrary_element").abstract()
c.params(self="obj:GroupSpec", seed="bytes").returns("obj:EltSpec").pure()
c.raises("AssertionError", "not spec.ae_ok(self, seed)", name="no-element")
c.ensures("result._g is self", name="group")
c.ensures("result._v == spec.ae(self, seed)", name="val")

c = REG.contract("GroupSpec.scalar_to_bytes").abstract()
c.params(self="obj:GroupSpec", i="int").returns("bytes").pure()
c.requires("0 <= i and i < spec.gq(self)")
c.ensures("result == spec.s2b(self, i)", name="val")
c.ensures("len(result) == spec.ssize(self)", name="len")

c = REG.contract("GroupSpec.bytes_to_scalar").abstract()
c.params(self="obj:GroupSpec", b="bytes").returns("int").pure()
c.raises("Exception", "not spec.b2s_ok(self, b)", name="bad-scalar")
c.ensures("result == spec.b2s(self, b)", name="val")

c = REG.contract("EltSpec.scalarmult").abstract()
c.params(self="obj:EltSpec", s="int").returns("obj:EltSpec").pure()
c.ensures("result._g is self._g", name="group")
c.ensures("result._v == spec.gmul(self._g, s, self._v)", name="val")

c = REG.contract("EltSpec.add").abstract()
c.params(self="obj:EltSpec", other="obj:EltSpec").returns("obj:EltSpec").pure()
c.requires("spec.same_obj(other._g, self._g)")
c.ensures("result._g is self._g", name="group")
c.ensures("result._v == spec.gadd(self._g, self._v, other._v)", name="val")

c = REG.contract("EltSpec.to_bytes").abstract()
c.params(self="obj:EltSpec").returns("bytes").pure()
c.ensures("result == spec.enc(self._g, self._v)", name="val")
c.ensures("len(result) == spec.esize(self._g)", name="len")
