"""Contracts for src/spake2/spake2.py: the three session classes over the abstract group interface."""
from pyvc.contracts import REG
from pyvc import vc

# ---- shapes and the session representation invariant (C07/C08) ------------------------------------------
REG.shape("params._Params", group="obj:GroupSpec", M="obj:EltSpec;_g=$owner.group", N="obj:EltSpec;_g=$owner.group", S="obj:EltSpec;_g=$owner.group",
          M_str="bytes", N_str="bytes", S_str="bytes")
REG.class_invariant("params._Params", "spec.same_obj(self.M._g, self.group) and spec.same_obj(self.N._g, self.group) and spec.same_obj(self.S._g, self.group)", name="elements-of-group")

BASE = "spake2._SPAKE2_Base"
REG.shape(BASE, pw="bytes", pw_scalar="int", params="obj:params._Params", entropy_f="alt:entropy|entropy_forbidden",
          _started="bool", _finished="bool",
          xy_scalar="int?", xy_elem="obj:EltSpec;_g=$owner.params.group?", outbound_message="bytes?", inbound_message="bytes?")
REG.shape("spake2._SPAKE2_Asymmetric", idA="bytes", idB="bytes")
REG.shape("spake2.SPAKE2_Symmetric", idSymmetric="bytes")

INV = [
    ("pw-scalar", "self.pw_scalar == spec.p2s(self.params.group, self.pw)"),
    ("scalar-needs-started", "implies(hasfield(self, 'xy_scalar'), self._started)"),
    ("elem-needs-scalar", "implies(hasfield(self, 'xy_elem'), hasfield(self, 'xy_scalar'))"),
    ("msg-needs-elem", "implies(hasfield(self, 'outbound_message'), hasfield(self, 'xy_elem'))"),
    ("scalar-range", "implies(hasfield(self, 'xy_scalar'), 0 <= self.xy_scalar and self.xy_scalar < spec.gq(self.params.group))"),
    ("elem-val", "implies(hasfield(self, 'xy_elem'), spec.same_obj(self.xy_elem._g, self.params.group) and self.xy_elem._v == spec.gmul(self.params.group, self.xy_scalar, spec.G(self.params.group)))"),
    ("msg-val", "implies(hasfield(self, 'outbound_message'), self.outbound_message == spec.enc(self.params.group, spec.msg_elem(self, self.xy_scalar)))"),
    ("restored-started", "implies(spec.entropy_forbidden(self.entropy_f), self._started)"),
]
INV_TAGS = "C01 C03 C04 C06 C07 C08 C16"
for n, e in INV:
    REG.class_invariant(BASE, e, name=n, tags=INV_TAGS)

vc.INLINE_OK |= {
    "spake2._SPAKE2_Base.compute_outbound_message", "spake2._SPAKE2_Base.hash_params",
    "spake2.SPAKE2_Symmetric.hash_params",
    "spake2._SPAKE2_Asymmetric._extract_message", "spake2.SPAKE2_Symmetric._extract_message",
    "spake2._SPAKE2_Asymmetric._finalize", "spake2.SPAKE2_Symmetric._finalize",
    "spake2._SPAKE2_Asymmetric._serialize_to_dict", "spake2.SPAKE2_Symmetric._serialize_to_dict",
    "spake2._SPAKE2_Asymmetric._deserialize_from_dict", "spake2.SPAKE2_Symmetric._deserialize_from_dict",
    "spake2.SPAKE2_A.my_blinding", "spake2.SPAKE2_A.my_unblinding", "spake2.SPAKE2_A.X_msg", "spake2.SPAKE2_A.Y_msg",
    "spake2.SPAKE2_B.my_blinding", "spake2.SPAKE2_B.my_unblinding", "spake2.SPAKE2_B.X_msg", "spake2.SPAKE2_B.Y_msg",
    "spake2.SPAKE2_Symmetric.my_blinding", "spake2.SPAKE2_Symmetric.my_unblinding",
}

# ---- transcript functions (C17) ----------------------------------------------------------------------------
c = REG.contract("spake2.finalize_SPAKE2")
c.params(idA="bytes", idB="bytes", X_msg="bytes", Y_msg="bytes", K_bytes="bytes", pw="bytes").returns("bytes").pure()
c.ensures("result == spec.transcript_asym(pw, idA, idB, X_msg, Y_msg, K_bytes)", name="val", tags="C17 C03 C01 C02")
c.ensures("len(result) == 32", name="len", tags="C17 C01")
c.canary("len(result) == 31")

c = REG.contract("spake2.finalize_SPAKE2_symmetric")
c.params(idSymmetric="bytes", msg1="bytes", msg2="bytes", K_bytes="bytes", pw="bytes").returns("bytes").pure()
c.ensures("result == spec.transcript_sym(pw, idSymmetric, msg1, msg2, K_bytes)", name="val", tags="C17 C03 C01 C02")
c.ensures("result == spec.transcript_sym(pw, idSymmetric, msg2, msg1, K_bytes)", name="swap", tags="C17 C01")
c.ensures("len(result) == 32", name="len", tags="C17 C01")
c.canary("result == spec.sha256(spec.cat(spec.sha256(pw), spec.sha256(idSymmetric), msg1, msg2, K_bytes))")

MONO = [  # history clauses (C07): flags are monotone, the scalar never changes once set
    ("started-monotone", "implies(old(self._started), self._started)"),
    ("finished-monotone", "implies(old(self._finished), self._finished)"),
    ("scalar-stable", "implies(old(hasfield(self, 'xy_scalar')), hasfield(self, 'xy_scalar') and self.xy_scalar == old(self.xy_scalar))"),
]

SIDE_OK = {
    "A": "m[0:1] == b'B'", "B": "m[0:1] == b'A'", "S": "m[0:1] == b'S'",
}

for K in ("SPAKE2_A", "SPAKE2_B", "SPAKE2_Symmetric"):
    Q = "spake2." + K
    role = K.split("_")[-1][0]
    G = "self.params.group"

    # ---------------- start() ----------------
    c = REG.contract(Q + ".start")
    c.params(self="obj:" + Q).returns("bytes")
    c.writes("self._started", "self.xy_scalar", "self.xy_elem", "self.outbound_message")
    c.raises("OnlyCallStartOnce", "old(self._started)", name="once", tags="C07")
    c.ensures("result == spec.cat(spec.side(self), spec.enc(%s, spec.msg_elem(self, self.xy_scalar)))" % G, name="msg", tags="C03 C01 C04 C06 C16")
    c.ensures("self.xy_scalar == spec.rs(%s, self.entropy_f, 0)" % G, name="scalar-from-entropy", tags="C11 C03 C04 C16")
    c.ensures("0 <= self.xy_scalar and self.xy_scalar < spec.gq(%s)" % G, name="scalar-range", tags="C04 C11 C01")
    c.ensures("len(result) == 1 + spec.esize(%s)" % G, name="len", tags="C03")
    c.ensures("spec.entropy_calls() == 1 and spec.entropy_only_via('GroupSpec.random_scalar')", name="entropy", tags="C11")
    c.ensures("hasfield(self, 'xy_scalar') and hasfield(self, 'xy_elem') and hasfield(self, 'outbound_message')", name="fields-set", tags="C07 C01")
    c.ensures("self._started", name="started", tags="C07", on="both")
    c.ensures("self._finished == old(self._finished)", name="finished-unchanged", tags="C07", on="both")
    for n, e in MONO:
        c.ensures(e, name=n, tags="C07", on="both")
    for n, e in INV:
        c.ensures(e, name="inv:" + n, tags=INV_TAGS, on="both")
    c.canary("result == spec.cat(spec.side(self), spec.enc(%s, spec.gmul(%s, self.xy_scalar, spec.G(%s))))" % (G, G, G))

    # ---------------- finish() ----------------
    c = REG.contract(Q + ".finish")
    c.params(self="obj:" + Q, inbound_side_and_message="bytes").returns("bytes")
    c.bind("m", "inbound_side_and_message")
    c.writes("self._finished", "self.inbound_message")
    side_ok = SIDE_OK[role]
    c.raises("OnlyCallFinishOnce", "old(self._finished)", name="once", tags="C07")
    if role in "AB":
        c.raises("OffSides", "not old(self._finished) and not (%s)" % side_ok, name="offsides", tags="C06")
    else:
        c.raises("OffSides", "not old(self._finished) and m[0:1] in (b'A', b'B')", name="offsides", tags="C06")
        c.raises("AssertionError", "not old(self._finished) and not (m[0:1] in (b'A', b'B', b'S'))", name="unknown-side", tags="C06")
    c.raises("Exception", "not old(self._finished) and (%s) and not spec.decodable(%s, m[1:])" % (side_ok, G), name="undecodable", tags="C05 C02")
    c.raises("AttributeError", "not old(self._finished) and (%s) and spec.decodable(%s, m[1:]) and not old(hasfield(self, 'outbound_message'))" % (side_ok, G), name="not-started", tags="C07")
    c.raises("ReflectionThwarted", "not old(self._finished) and (%s) and spec.decodable(%s, m[1:]) and old(hasfield(self, 'outbound_message')) and m[1:] == old(self.outbound_message)" % (side_ok, G), name="reflection", tags="C06")
    c.ensures("result == spec.session_key(self, m[1:])", name="key", tags="C03 C01 C02 C16")
    c.ensures("len(result) == 32", name="len", tags="C01")
    c.ensures("spec.entropy_calls() == 0", name="no-entropy", tags="C11", on="both")
    c.ensures("implies(not old(self._finished), self._finished)", name="finished", tags="C07", on="both")
    c.ensures("self._started == old(self._started)", name="started-unchanged", tags="C07", on="both")
    for n, e in MONO:
        c.ensures(e, name=n, tags="C07", on="both")
    for n, e in INV:
        c.ensures(e, name="inv:" + n, tags=INV_TAGS, on="both")
    c.canary("len(result) == 33")

    # ---------------- serialize() ----------------
    c = REG.contract(Q + ".serialize")
    c.params(self="obj:" + Q).returns("jsonbytes:hashed_params=str,side=str,password=hexstr,xy_scalar=hexstr," + ("idS=hexstr" if role == "S" else "idA=hexstr,idB=hexstr")).pure()
    c.raises("SerializedTooEarly", "not self._started", name="too-early", tags="C07")
    c.raises("AttributeError", "self._started and not hasfield(self, 'xy_scalar')", name="no-scalar", tags="C07")
    c.ensures("spec.is_json_bytes(result)", name="ascii-json", tags="C08 C10")
    c.ensures("spec.json_dict(result) == spec.state_dict(self)", name="state", tags="C10 C08 C07")
    c.ensures("spec.entropy_calls() == 0", name="no-entropy", tags="C11 C08", on="both")
    c.canary("spec.json_dict(result)['xy_scalar'] == spec.hexl(spec.s2b(%s, self.xy_scalar + 1))" % G)


    # ---------------- __init__ ----------------
    c = REG.contract(Q + ".__init__")
    if role == "S":
        c.params(self="obj:" + Q, password="bytes", idSymmetric="bytes", params="obj:params._Params", entropy_f="entropy")
        ids = [("idSymmetric", "idSymmetric")]
    else:
        c.params(self="obj:" + Q, password="bytes", idA="bytes", idB="bytes", params="obj:params._Params", entropy_f="entropy")
        ids = [("idA", "idA"), ("idB", "idB")]
    c.returns("none")
    c.setup("fresh_self")
    c.writes(*(["self.pw", "self.pw_scalar", "self.params", "self.entropy_f", "self._started", "self._finished"] + ["self." + f for f, _ in ids]))
    c.ensures("self.pw == password and self.params is params and self.entropy_f is entropy_f", name="fields", tags="C16 C01 C02 C03 C04")
    for f, a in ids:
        c.ensures("self.%s == %s" % (f, a), name="id-" + f, tags="C16 C01 C02 C03 C08")
    c.ensures("not self._started and not self._finished", name="fresh-flags", tags="C07")
    c.ensures("not hasfield(self, 'xy_scalar') and not hasfield(self, 'outbound_message') and not hasfield(self, 'xy_elem')", name="no-secret-yet", tags="C07 C11")
    c.ensures("spec.entropy_calls() == 0", name="no-entropy", tags="C11", on="both")
    for n, e in INV:
        c.ensures(e, name="inv:" + n, tags=INV_TAGS)

    # ---------------- from_serialized() ----------------
    c = REG.contract(Q + ".from_serialized")
    own = "hashed_params=str,side=str,password=hexstr,xy_scalar=hexstr," + ("idS=hexstr" if role == "S" else "idA=hexstr,idB=hexstr")
    other = "hashed_params=str,side=str,password=hexstr,xy_scalar=hexstr," + ("idS=hexstr" if role != "S" else "idA=hexstr,idB=hexstr")
    c.params(klass="class:" + Q, data="jsonbytes:" + own, params="obj:params._Params").returns("obj:" + Q).pure()
    c.cases({"data": "jsonbytes:" + own}, {"data": "jsonbytes:" + other})
    c.bind("d", "spec.json_dict(data)")
    c.bind("g", "params.group")
    # released format (C10): the xy_scalar field is the fixed-width encoding of a scalar in [0,q)
    c.ghost(x0="int")
    c.requires("0 <= x0 and x0 < spec.gq(params.group)")
    c.requires("implies('xy_scalar' in spec.json_dict(data), spec.json_dict(data)['xy_scalar'] == spec.hexl(spec.s2b(params.group, x0)))")
    own_keys = "('idS' in d)" if role == "S" else "('idA' in d)"
    side_ok = "spec.ascii_bytes(d['side']) == spec.side(klass)"
    if role == "S":
        c.raises("WrongSideSerialized", "not (%s)" % side_ok, name="wrong-side", tags="C09")
        c.raises("KeyError", "(%s) and not %s" % (side_ok, own_keys), name="foreign-keys", tags="C09")
    else:
        c.raises("KeyError", "not %s" % own_keys, name="foreign-keys", tags="C09")
        c.raises("WrongSideSerialized", "%s and not (%s)" % (own_keys, side_ok), name="wrong-side", tags="C09")
    fp_ok = "d['hashed_params'] == spec.fingerprint(klass, params)"
    c.raises("WrongGroupError", "%s and (%s) and not (%s)" % (own_keys, side_ok, fp_ok), name="wrong-params", tags="C09")
    c.raises("Exception", "%s and (%s) and (%s) and not spec.b2s_ok(g, spec.unhex(d['xy_scalar']))" % (own_keys, side_ok, fp_ok), name="bad-scalar", tags="C10 C08 C01")
    c.ensures("result.pw == spec.unhex(d['password'])", name="pw", tags="C08 C10 C01 C03")
    if role == "S":
        c.ensures("result.idSymmetric == spec.unhex(d['idS'])", name="ids", tags="C08 C10 C01 C02 C03")
    else:
        c.ensures("result.idA == spec.unhex(d['idA']) and result.idB == spec.unhex(d['idB'])", name="ids", tags="C08 C10 C01 C02 C03")
    c.ensures("result.params is params", name="params", tags="C08 C09 C01 C03")
    c.ensures("result._started and not result._finished", name="flags", tags="C07 C08")
    c.ensures("hasfield(result, 'xy_scalar') and hasfield(result, 'xy_elem') and hasfield(result, 'outbound_message') and not hasfield(result, 'inbound_message')", name="fields-set", tags="C08 C07")
    c.ensures("result.xy_scalar == spec.b2s(g, spec.unhex(d['xy_scalar']))", name="scalar", tags="C08 C10 C01 C03")
    c.ensures("result.outbound_message == spec.enc(g, spec.msg_elem(result, result.xy_scalar))", name="msg", tags="C08 C09 C06 C01 C03")
    c.ensures("spec.entropy_forbidden(result.entropy_f)", name="no-entropy-source", tags="C11 C07")
    c.ensures("spec.entropy_calls() == 0", name="no-entropy", tags="C11", on="both")
    c.ensures("classof(result) == '%s'" % K, name="class", tags="C09")
    c.canary("result.xy_scalar == spec.b2s(g, spec.unhex(d['xy_scalar'])) + 1")

# ---- params._Params: the three blinding elements are derived from the seeds and belong to the group ----------------------
c = REG.contract("params._Params.__init__")
c.params(self="obj:params._Params", group="obj:GroupSpec", M="bytes", N="bytes", S="bytes").returns("none").setup("fresh_self")
c.requires("spec.ae_ok(group, M) and spec.ae_ok(group, N) and spec.ae_ok(group, S)", name="seeds-derive-elements")
c.ensures("self.group is group", name="group", tags="C18 C01 C03 C04 C09 C16")
c.ensures("spec.view(self.M) == spec.ae(group, M) and spec.view(self.N) == spec.ae(group, N) and spec.view(self.S) == spec.ae(group, S)", name="derived-from-seeds", tags="C14 C03 C18 C01")
c.ensures("spec.same_obj(self.M._g, group) and spec.same_obj(self.N._g, group) and spec.same_obj(self.S._g, group)", name="elements-of-group", tags="C18 C01 C03 C04 C09")
c.ensures("spec.insub(group, spec.view(self.M)) and spec.insub(group, spec.view(self.N)) and spec.insub(group, spec.view(self.S))", name="in-subgroup", tags="C18 C04")
c.ensures("self.M_str == M and self.N_str == N and self.S_str == S", name="seeds-kept", tags="C18")
