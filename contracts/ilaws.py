"""Interface laws (ILAW-*) of the abstract group, proved for IntegerGroup over symbolic valid (p,q,g).
The same statements that pyvc/spec_sym.py instantiates as facts for an abstract GroupSpec object are proved here
with the spec functions interpreted for an IntegerGroup object (gadd = a*b mod p, gmul = a^(n mod q) mod p, ...)."""
from pyvc.contracts import REG

IG = "obj:groups.IntegerGroup"


def law(impl, name, params, src):
    q = "ilaw.%s.%s" % (impl, name)
    c = REG.ghost_function(q, "groups", src)
    c.params(**params).returns("none")
    c.lemma_tags = {"ILAW"}
    REG.ilaw_lemmas[(impl, name)] = q
    return c


law("IntegerGroup", "ILAW-q", dict(g=IG), '''
def f(g):
    assert spec.gq(g) >= 2, "q>=2"
''')
law("IntegerGroup", "ILAW-size", dict(g=IG), '''
def f(g):
    assert spec.esize(g) >= 1 and spec.ssize(g) >= 1, "sizes>=1"
''')
law("IntegerGroup", "ILAW-closure", dict(g=IG, a="int", b="int", n="int"), '''
def f(g, a, b, n):
    lemma("powmod_base_one", g.q, g.p)
    assert spec.insub(g, spec.O(g)), "identity-in-subgroup"
    assert spec.insub(g, spec.G(g)), "generator-in-subgroup"
    assume(spec.insub(g, a) and spec.insub(g, b))
    lemma("powmod_mul", a, b, g.q, g.p)
    lemma("prime_mul_nonzero", a, b, g.p)
    assert spec.insub(g, spec.gadd(g, a, b)), "add-closed"
    lemma("powmod_pow", a, n % g.q, g.q, g.p)
    lemma("powmod_base_one", n % g.q, g.p)
    lemma("powmod_zero", spec.powmod(a, n % g.q, g.p), g.q, g.p)
    assert spec.insub(g, spec.gmul(g, n, a)), "scalarmult-closed"
''')
law("IntegerGroup", "ILAW-enc-len", dict(g=IG, a="int"), '''
def f(g, a):
    assume(spec.insub(g, a))
    assert len(spec.enc(g, a)) == spec.esize(g), "enc-len"
''')
law("IntegerGroup", "ILAW-dec-enc", dict(g=IG, a="int"), '''
def f(g, a):
    assume(spec.insub(g, a))
    assert spec.decodable(g, spec.enc(g, a)), "decodable"
    assert spec.dec(g, spec.enc(g, a)) == a, "dec-enc"
''')
law("IntegerGroup", "ILAW-enc-inj", dict(g=IG, a="int", b="int"), '''
def f(g, a, b):
    assume(spec.insub(g, a) and spec.insub(g, b))
    assume(spec.enc(g, a) == spec.enc(g, b))
    assert a == b, "enc-injective"
''')
law("IntegerGroup", "ILAW-dec-strict", dict(g=IG, bs="bytes"), '''
def f(g, bs):
    assume(spec.decodable(g, bs))
    assert len(bs) == spec.esize(g), "exact-length"
    assert spec.insub(g, spec.dec(g, bs)), "in-subgroup"
''')
law("IntegerGroup", "ILAW-enc-dec", dict(g=IG, bs="bytes"), '''
def f(g, bs):
    assume(spec.decodable(g, bs))
    assert spec.enc(g, spec.dec(g, bs)) == bs, "canonical"
''')
law("IntegerGroup", "ILAW-p2s-range", dict(g=IG, pw="bytes"), '''
def f(g, pw):
    assert 0 <= spec.p2s(g, pw) and spec.p2s(g, pw) < spec.gq(g), "p2s-range"
''')
law("IntegerGroup", "ILAW-ae-insub", dict(g=IG, seed="bytes"), '''
def f(g, seed):
    assume(spec.ae_ok(g, seed))
    h = spec.be(spec.hkdf(seed, b'', b'SPAKE2 arbitrary element', g.element_size_bytes)) % g.p
    r = (g.p - 1) // g.q
    lemma("powmod_exp_mul", h, r, g.q, g.p)
    lemma("fermat", h, g.p)
    lemma("powmod_zero", spec.powmod(h, r, g.p), g.q, g.p)
    assert spec.insub(g, spec.ae(g, seed)), "ae-in-subgroup"
''')
law("IntegerGroup", "ILAW-scalar-roundtrip", dict(g=IG, i="int"), '''
def f(g, i):
    assume(0 <= i and i < spec.gq(g))
    assert len(spec.s2b(g, i)) == spec.ssize(g), "s2b-len"
    assert spec.b2s_ok(g, spec.s2b(g, i)), "b2s-accepts"
    assert spec.b2s(g, spec.s2b(g, i)) == i, "roundtrip"
''')
law("IntegerGroup", "ILAW-b2s-len", dict(g=IG, bs="bytes"), '''
def f(g, bs):
    assume(spec.b2s_ok(g, bs))
    assert len(bs) == spec.ssize(g), "b2s-len"
''')

# ======================================================================================================================
# Ed25519: the same laws with gadd = ed_add, gmul = ed_mul, enc = RFC 8032 point encoding, q = L
# ======================================================================================================================
EG = "obj:ed25519_group._Ed25519Group"
law("Ed25519", "ILAW-q", dict(g=EG), '''
def f(g):
    assert spec.gq(g) >= 2, "q>=2"
''')
law("Ed25519", "ILAW-size", dict(g=EG), '''
def f(g):
    assert spec.esize(g) >= 1 and spec.ssize(g) >= 1, "sizes>=1"
''')
law("Ed25519", "ILAW-closure", dict(g=EG, a="spec:ept", b="spec:ept", n="int"), '''
def f(g, a, b, n):
    lemma("ed_insub_O")
    assert spec.insub(g, spec.O(g)), "identity-in-subgroup"
    assert spec.insub(g, spec.G(g)), "generator-in-subgroup"
    assume(spec.insub(g, a) and spec.insub(g, b))
    lemma("ed_insub_add", a, b)
    assert spec.insub(g, spec.gadd(g, a, b)), "add-closed"
    lemma("ed_insub_mul", n, a)
    assert spec.insub(g, spec.gmul(g, n, a)), "scalarmult-closed"
''')
law("Ed25519", "ILAW-enc-len", dict(g=EG, a="spec:ept"), '''
def f(g, a):
    assert len(spec.enc(g, a)) == spec.esize(g), "enc-len"
''')
law("Ed25519", "ILAW-dec-enc", dict(g=EG, a="spec:ept"), '''
def f(g, a):
    assume(spec.insub(g, a) and a != spec.O(g))
    spec.ed_decodable_intro(a, spec.enc(g, a))
    assert spec.decodable(g, spec.enc(g, a)), "decodable"
    assert spec.dec(g, spec.enc(g, a)) == a, "dec-enc"
''')
law("Ed25519", "ILAW-enc-inj", dict(g=EG, a="spec:ept", b="spec:ept"), '''
def f(g, a, b):
    spec.ed_disable_auto_injectivity()
    assume(spec.enc(g, a) == spec.enc(g, b))
    assert spec.ed_y(a) == spec.ed_y(b), "same-y"
    assert spec.ed_x(a) % 2 == spec.ed_x(b) % 2, "same-parity"
    lemma("ed_enc_injective", a, b)      # equal y and equal parity of x determine the point (Lean: bridge_ed_enc_injective)
    assert a == b, "enc-injective"
''')
law("Ed25519", "ILAW-dec-strict", dict(g=EG, bs="bytes"), '''
def f(g, bs):
    assume(spec.decodable(g, bs))
    assert len(bs) == spec.esize(g), "exact-length"
    assert spec.insub(g, spec.dec(g, bs)), "in-subgroup"
    assert spec.dec(g, bs) != spec.O(g), "not-identity"
''')
law("Ed25519", "ILAW-enc-dec", dict(g=EG, bs="bytes"), '''
def f(g, bs):
    assume(spec.decodable(g, bs))
    assert spec.enc(g, spec.dec(g, bs)) == bs, "canonical"
''')
law("Ed25519", "ILAW-p2s-range", dict(g=EG, pw="bytes"), '''
def f(g, pw):
    assert 0 <= spec.p2s(g, pw) and spec.p2s(g, pw) < spec.gq(g), "p2s-range"
''')
law("Ed25519", "ILAW-ae-insub", dict(g=EG, seed="bytes"), '''
def f(g, seed):
    e = g.arbitrary_element(seed)      # by contract (partial correctness: assumes the try-and-increment loop terminates)
    assert spec.insub(g, spec.ae(g, seed)), "ae-in-subgroup"
''')
law("Ed25519", "ILAW-scalar-roundtrip", dict(g=EG, i="int"), '''
def f(g, i):
    assume(0 <= i and i < spec.gq(g))
    assert len(spec.s2b(g, i)) == spec.ssize(g), "s2b-len"
    assert spec.b2s_ok(g, spec.s2b(g, i)), "b2s-accepts"
    assert spec.b2s(g, spec.s2b(g, i)) == i, "roundtrip"
''')
law("Ed25519", "ILAW-b2s-len", dict(g=EG, bs="bytes"), '''
def f(g, bs):
    assume(spec.b2s_ok(g, bs))
    assert len(bs) == spec.ssize(g), "b2s-len"
''')

# ---- module initialisation of ed25519_basic: the singletons Zero and Base satisfy their class invariants ----------------
c = REG.ghost_function("lemma.ed_module_init", "ed25519_basic", """
def module_init():
    raw_globals()
    z = xform_affine_to_extended((0, 1))
    assume(z == ground("xform_affine_to_extended((0,1))"))
    assert tuple(ground("Zero.XYTZ")) == tuple(ground("xform_affine_to_extended((0,1))")), "Zero-is-xform-of-(0,1)"
    assert spec.ed_valid(Zero.XYTZ), "Zero-valid"
    assert spec.ed_view(Zero) == spec.ed_O(), "Zero-is-identity"
    assert ground("_zero_bytes") == b"\\x01" + b"\\x00" * 31, "zero-bytes"
    assert ground("B") == [spec.ed_Bx(), spec.ed_By()], "B-is-RFC8032-base-point"
    b = xform_affine_to_extended(B)
    assume(b == ground("xform_affine_to_extended(B)"))
    assert tuple(ground("Base.XYTZ")) == tuple(ground("xform_affine_to_extended(B)")), "Base-is-xform-of-B"
    assert spec.ed_valid(Base.XYTZ), "Base-valid"
    assert spec.ed_view(Base) == spec.ed_B(), "Base-is-B"
    r = scalarmult_element_safe_slow(Base.XYTZ, L)
    t = is_extended_zero(r)
    assume(t == ground("is_extended_zero(scalarmult_element_safe_slow(Base.XYTZ, L))"))
    u = is_extended_zero(Base.XYTZ)
    assume(u == ground("is_extended_zero(Base.XYTZ)"))
    lemma("ed_insub_def", spec.ed_view(Base))
    assert spec.ed_insub(spec.ed_view(Base)), "Base-in-subgroup"
    assert spec.ed_view(Base) != spec.ed_O(), "Base-not-identity"
    assert ground("(lambda g: g.Ed25519Group.Base is Base and g.Ed25519Group.Zero is Zero and g.Ed25519Group.scalar_size_bytes == 32 and g.Ed25519Group.element_size_bytes == 32)(__import__('spake2.ed25519_group', fromlist=['x']))"), "group-object-holds-Base-and-Zero"
    return None
""")
c.params().returns("none")
c.lemma_tags = {"C13", "C18", "C12", "C05", "C01"}

# ---- the range fact that pyvc/spec_ed.py attaches to every ed_xrecover(y) term is a consequence of its definition -----------
# (spec.ed_xrecover is the defined symbol `ed_xrecover(y) := ed_xrecover_def(y)`; its facts must follow from the definition alone,
#  independently of the code: proved here for all y from the definition term)
c = REG.ghost_function("lemma.ed_xrecover_def_range", "ed25519_basic", """
def xrecover_def_range(y):
    r = spec.ed_xrecover_def(y)
    assert 0 <= r and r < Q and r % 2 == 0, "even-root-in-range"
    return None
""")
c.params(y="int").returns("none")
c.lemma_tags = {"C05", "C14", "C15", "C03", "C13"}
