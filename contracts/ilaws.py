"""Interface laws (ILAW-*) of the abstract group, proved for IntegerGroup over symbolic valid (p,q,g).
The same statements that pyvc/spec_sym.py instantiates as facts for an abstract GroupSpec object are proved here
with the spec functions interpreted for an IntegerGroup object (gadd = a*b mod p, gmul = a^(n mod q) mod p, ...)."""
from pyvc.contracts import REG

IG = "obj:groups.IntegerGroup"


def law(impl, name, params, src):
    q = "ilaw.%s.%s" % (impl, name)
    c = REG.ghost_function(q, "groups", src)
    c.params(**params).returns("none")
    c.lemma_tags = {"ILAW"}
    REG.ilaw_lemmas[(impl, name)] = q
    return c


law("IntegerGroup", "ILAW-q", dict(g=IG), '''
def f(g):
    assert spec.gq(g) >= 2, "q>=2"
''')
law("IntegerGroup", "ILAW-size", dict(g=IG), '''
def f(g):
    assert spec.esize(g) >= 1 and spec.ssize(g) >= 1, "sizes>=1"
''')
law("IntegerGroup", "ILAW-closure", dict(g=IG, a="int", b="int", n="int"), '''
def f(g, a, b, n):
    lemma("powmod_base_one", g.q, g.p)
    assert spec.insub(g, spec.O(g)), "identity-in-subgroup"
    assert spec.insub(g, spec.G(g)), "generator-in-subgroup"
    assume(spec.insub(g, a) and spec.insub(g, b))
    lemma("powmod_mul", a, b, g.q, g.p)
    lemma("prime_mul_nonzero", a, b, g.p)
    assert spec.insub(g, spec.gadd(g, a, b)), "add-closed"
    lemma("powmod_pow", a, n % g.q, g.q, g.p)
    lemma("powmod_base_one", n % g.q, g.p)
    lemma("powmod_zero", spec.powmod(a, n % g.q, g.p), g.q, g.p)
    assert spec.insub(g, spec.gmul(g, n, a)), "scalarmult-closed"
''')
law("IntegerGroup", "ILAW-enc-len", dict(g=IG, a="int"), '''
def f(g, a):
    assume(spec.insub(g, a))
    assert len(spec.enc(g, a)) == spec.esize(g), "enc-len"
''')
law("IntegerGroup", "ILAW-dec-enc", dict(g=IG, a="int"), '''
def f(g, a):
    assume(spec.insub(g, a))
    assert spec.decodable(g, spec.enc(g, a)), "decodable"
    assert spec.dec(g, spec.enc(g, a)) == a, "dec-enc"
''')
law("IntegerGroup", "ILAW-enc-inj", dict(g=IG, a="int", b="int"), '''
def f(g, a, b):
    assume(spec.insub(g, a) and spec.insub(g, b))
    assume(spec.enc(g, a) == spec.enc(g, b))
    assert a == b, "enc-injective"
''')
law("IntegerGroup", "ILAW-dec-strict", dict(g=IG, bs="bytes"), '''
def f(g, bs):
    assume(spec.decodable(g, bs))
    assert len(bs) == spec.esize(g), "exact-length"
    assert spec.insub(g, spec.dec(g, bs)), "in-subgroup"
''')
law("IntegerGroup", "ILAW-enc-dec", dict(g=IG, bs="bytes"), '''
def f(g, bs):
    assume(spec.decodable(g, bs))
    assert spec.enc(g, spec.dec(g, bs)) == bs, "canonical"
''')
law("IntegerGroup", "ILAW-p2s-range", dict(g=IG, pw="bytes"), '''
def f(g, pw):
    assert 0 <= spec.p2s(g, pw) and spec.p2s(g, pw) < spec.gq(g), "p2s-range"
''')
law("IntegerGroup", "ILAW-ae-insub", dict(g=IG, seed="bytes"), '''
def f(g, seed):
    assume(spec.ae_ok(g, seed))
    h = spec.be(spec.hkdf(seed, b'', b'SPAKE2 arbitrary element', g.element_size_bytes)) % g.p
    r = (g.p - 1) // g.q
    lemma("powmod_exp_mul", h, r, g.q, g.p)
    lemma("fermat", h, g.p)
    lemma("powmod_zero", spec.powmod(h, r, g.p), g.q, g.p)
    assert spec.insub(g, spec.ae(g, seed)), "ae-in-subgroup"
''')
law("IntegerGroup", "ILAW-scalar-roundtrip", dict(g=IG, i="int"), '''
def f(g, i):
    assume(0 <= i and i < spec.gq(g))
    assert len(spec.s2b(g, i)) == spec.ssize(g), "s2b-len"
    assert spec.b2s_ok(g, spec.s2b(g, i)), "b2s-accepts"
    assert spec.b2s(g, spec.s2b(g, i)) == i, "roundtrip"
''')
law("IntegerGroup", "ILAW-b2s-len", dict(g=IG, bs="bytes"), '''
def f(g, bs):
    assume(spec.b2s_ok(g, bs))
    assert len(bs) == spec.ssize(g), "b2s-len"
''')
