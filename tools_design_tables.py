"""Developer tool: fills the seeded-defect / benign-refactoring tables of DESIGN.md (section I.9) from the results
of selftest/seeds_all.sh and selftest/benign_all.sh.   usage: python3 tools_design_tables.py <seedres dir> <benres dir>"""
import json, glob, os, re, sys

VERIF = os.path.dirname(os.path.abspath(__file__))


def first_sentence(notes):
    for l in notes.splitlines():
        l = l.strip().lstrip("#*- ").strip()
        if len(l) > 25 and not l.lower().startswith(("notes", "seed", "m1", "m2", "property")):
            return re.sub(r"\s+", " ", l)[:150]
    return ""


def seeds_table(seedres):
    rows = []
    for d in sorted(glob.glob(os.path.join(VERIF, "seeded", "*"))):
        sid = os.path.basename(d)
        pid = sid.split("-")[0]
        f = os.path.join(seedres, sid + ".json")
        what = first_sentence(open(os.path.join(d, "notes.md")).read()) if os.path.exists(os.path.join(d, "notes.md")) else ""
        if not os.path.exists(f):
            rows.append("| %s | %s | %s | (not evaluated) | |" % (sid, pid, what))
            continue
        try:
            r = json.load(open(f))
        except Exception:
            rows.append("| %s | %s | %s | (evaluation incomplete) | |" % (sid, pid, what))
            continue
        c = r["checks"][pid]
        vio = [l for l in c["lines"] if l.startswith("VIOLATION")]
        und = [l for l in c["lines"] if l.startswith("UNDECIDED")]
        if c["exit"] == 1:
            ob = vio[0].split("replay=")[1].split("/")[-1].replace(".json", "").split(" ")[0] if vio else "(VIOLATION line beyond the first 6 lines)"
            conf = "no-failing-input-found" if vio and all("no-failing-input-found" in l for l in vio) else "failing input replayed on the real code"
            how = "`%s`" % ob[:90]
            if und and not vio:
                how = "undecided (%s) then bounded search on the real code" % und[0].split(":")[2].strip()[:60]
        elif c["exit"] == 2:
            how, conf = "**undecided** (exit 2): " + (und[0][10:90] if und else ""), "-"
        else:
            how, conf = "**missed** (exit %d)" % c["exit"], "-"
        rows.append("| %s | %s | %s | %s | %s |" % (sid, pid, what.replace("|", "/"), how, conf))
    hdr = "| seed | property | change (from the author's notes) | caught by (first failed obligation) | replay |\n|---|---|---|---|---|\n"
    return hdr + "\n".join(rows)


def benign_table(benres):
    rows = []
    for f in sorted(glob.glob(os.path.join(benres, "*.json"))):
        name = os.path.basename(f)[:-5]
        try:
            r = json.load(open(f))
        except Exception:
            rows.append("| %s | (incomplete) | | |" % name)
            continue
        nz = r.get("nonzero", {})
        e1 = sorted(p for p, x in nz.items() if x["exit"] == 1)
        e2 = sorted(p for p, x in nz.items() if x["exit"] == 2)
        e3 = sorted(p for p, x in nz.items() if x["exit"] not in (1, 2))
        why = ""
        if e2:
            l = nz[e2[0]]["lines"]
            why = (l[0][10:120] if l else "")
        rows.append("| %s | %d | %s | %s%s |" % (name, 18 - len(nz), ", ".join(e1) or "-", (", ".join(e2) + ": " + why.replace("|", "/")) if e2 else "-", (" exit3: " + ",".join(e3)) if e3 else ""))
    hdr = "| refactoring | checks exit 0 | false alarms (exit 1) | undecided (exit 2) and why |\n|---|---|---|---|\n"
    return hdr + "\n".join(rows)


if __name__ == "__main__":
    print(seeds_table(sys.argv[1]))
    print()
    if len(sys.argv) > 2:
        print(benign_table(sys.argv[2]))
