"""Independent reference implementation of the released SPAKE2 wire/persistence format (python-spake2 0.7+),
written from the published definition (the statements of C03/C10/C14/C17, RFC 5869, RFC 8032) -- it imports NOTHING
from /repo.  Used for closed (ground) obligations: constants of the shipped parameter sets, message/key vectors, the
released state format; and by the replay harness to look for concrete failing inputs."""
import hashlib, json
from . import concrete as C

Q, L, D, I_ = C.ED_Q, C.ED_L, C.ED_D, C.ED_I


# ---- groups --------------------------------------------------------------------------------------------------------------
class IntGroup:
    def __init__(self, p, q, g):
        self.p, self.q, self.g = p, q, g
        self.ssize = C.size_bytes(q)
        self.esize = C.size_bytes(p)
        self.identity = 1
        self.refuses_identity = False

    def add(self, a, b):
        return (a * b) % self.p

    def mul(self, n, a):
        return pow(a, n % self.q, self.p)

    def base(self):
        return self.g

    def enc(self, a):
        return a.to_bytes(self.esize, "big")

    def dec(self, b):
        if len(b) != self.esize:
            raise ValueError("length")
        a = int.from_bytes(b, "big")
        if not (0 < a < self.p) or pow(a, self.q, self.p) != 1:
            raise ValueError("not a member")
        return a

    def s2b(self, i):
        return i.to_bytes(self.ssize, "big")

    def b2s(self, b):
        return int.from_bytes(b, "big")

    def password_to_scalar(self, pw):
        return int.from_bytes(C.hkdf(pw, b"", b"SPAKE2 pw", self.ssize + 16), "big") % self.q

    def arbitrary_element(self, seed):
        h = int.from_bytes(C.hkdf(seed, b"", b"SPAKE2 arbitrary element", self.esize), "big") % self.p
        return pow(h, (self.p - 1) // self.q, self.p)

    def random_scalar(self, entropy):
        """rejection sampling: blocks of size_bytes(q) bytes, top byte reduced to the significant bits"""
        n = C.size_bytes(self.q)
        k = C.size_bits(self.q) - 8 * (n - 1)
        while True:
            blk = entropy(n)
            cand = ((blk[0] % (1 << k)) << (8 * (n - 1))) + int.from_bytes(blk[1:], "big")
            if cand < self.q:
                return cand


class EdGroup:
    q, ssize, esize, identity, refuses_identity = L, 32, 32, (0, 1), True

    def add(self, a, b):
        return C.ed_add_affine(a, b)

    def mul(self, n, a):
        return C.ed_mul_affine(n % L, a)

    def base(self):
        return C.ed_base()

    def enc(self, a):
        return C.ed_encode(a)

    def dec(self, b):
        if len(b) != 32:
            raise ValueError("length")
        v = int.from_bytes(b, "little")
        y, sign = v & ((1 << 255) - 1), v >> 255
        if y >= Q:
            raise ValueError("non-canonical y")
        p = C.ed_decompress_y(y)
        if p is None:
            raise ValueError("off curve")
        x = p[0]
        if x == 0 and sign:
            raise ValueError("non-canonical sign")
        if (x & 1) != sign:
            x = Q - x
        pt = (x, y)
        if pt == (0, 1) or C.ed_mul_affine(L, pt) != (0, 1):
            raise ValueError("not in the prime-order subgroup")
        return pt

    def s2b(self, i):
        return (i % L).to_bytes(32, "little")

    def b2s(self, b):
        return int.from_bytes(b, "little")

    def password_to_scalar(self, pw):
        return int.from_bytes(C.hkdf(pw, b"", b"SPAKE2 pw", 32 + 16), "big") % L

    def arbitrary_element(self, seed):
        y = int.from_bytes(C.hkdf(seed, b"", b"SPAKE2 arbitrary element", 48), "big") % Q
        plus = 0
        while True:
            yp = (y + plus) % Q
            plus += 1
            p = C.ed_decompress_y(yp)
            if p is None:
                continue
            x = p[0] if p[0] % 2 == 0 else Q - p[0]      # the library keeps the even root
            p8 = C.ed_mul_affine(8, (x, yp))
            if p8 == (0, 1):
                continue
            return p8

    def random_scalar(self, entropy):
        return int.from_bytes(entropy(64), "big") % L


class Params:
    def __init__(self, group, M=b"M", N=b"N", S=b"symmetric"):
        self.group = group
        self.M, self.N, self.S = (group.arbitrary_element(s) for s in (M, N, S))


# ---- protocol ------------------------------------------------------------------------------------------------------------
def H(b):
    return hashlib.sha256(b).digest()


class Session:
    """role in 'A','B','S'"""

    def __init__(self, role, pw, ids, params, scalar):
        self.role, self.pw, self.ids, self.params, self.x = role, pw, ids, params, scalar
        self.w = params.group.password_to_scalar(pw)

    def blind(self):
        return {"A": self.params.M, "B": self.params.N, "S": self.params.S}[self.role]

    def unblind(self):
        return {"A": self.params.N, "B": self.params.M, "S": self.params.S}[self.role]

    def message(self):
        g = self.params.group
        e = g.add(g.mul(self.x, g.base()), g.mul(self.w, self.blind()))
        return self.role.encode() + g.enc(e)

    def key(self, inbound):
        g = self.params.group
        side, body = inbound[0:1], inbound[1:]
        expected = {"A": b"B", "B": b"A", "S": b"S"}[self.role]
        if side != expected:
            raise ValueError("side")
        peer = g.dec(body)
        if g.refuses_identity and peer == g.identity:
            raise ValueError("identity")
        mine = self.message()[1:]
        if g.enc(peer) == mine:
            raise ValueError("reflection")
        K = g.enc(g.mul(self.x, g.add(peer, g.mul(-self.w, self.unblind()))))
        if self.role == "S":
            a, b = sorted([body, mine])
            return H(H(self.pw) + H(self.ids[0]) + a + b + K)
        X, Y = (mine, body) if self.role == "A" else (body, mine)
        return H(H(self.pw) + H(self.ids[0]) + H(self.ids[1]) + X + Y + K)

    def fingerprint(self):
        g = self.params.group
        pieces = [g.enc(g.arbitrary_element(b"")), g.s2b(g.password_to_scalar(b""))]
        pieces += [g.enc(self.params.S)] if self.role == "S" else [g.enc(self.params.M), g.enc(self.params.N)]
        return H(b"".join(pieces)).hex()

    def state(self):
        g = self.params.group
        d = {"hashed_params": self.fingerprint(), "side": self.role, "password": self.pw.hex(),
             "xy_scalar": g.s2b(self.x).hex()}
        if self.role == "S":
            d["idS"] = self.ids[0].hex()
        else:
            d["idA"], d["idB"] = self.ids[0].hex(), self.ids[1].hex()
        return d
