"""Concrete twins of the spec vocabulary (plain Python, no import from /repo).  Used by the replay harness:
the same contract clause text that z3 reasons about is evaluated natively on real inputs and real results."""
import hashlib, hmac, math


def bl(n):
    return abs(n).bit_length()


def p2(k):
    return 2 ** k


def p256(k):
    return 256 ** k


def size_bits(m):
    return m.bit_length() or 1


def size_bytes(m):
    return (size_bits(m) + 7) // 8


def be(b):
    return int.from_bytes(bytes(b), "big")


def le(b):
    return int.from_bytes(bytes(b), "little")


def rev(b):
    return bytes(b)[::-1]


def blen(b):
    return len(b)


def mkbytes(l, v):
    return int(v).to_bytes(l, "big")


def sha256(b):
    return hashlib.sha256(b).digest()


def hkdf(ikm, salt, info, n):
    """HKDF-SHA256 written from RFC 5869 (independent of the `cryptography` package)"""
    prk = hmac.new(salt if salt else b"\x00" * 32, ikm, hashlib.sha256).digest()
    okm, t, i = b"", b"", 1
    while len(okm) < n:
        t = hmac.new(prk, t + info + bytes([i]), hashlib.sha256).digest()
        okm += t
        i += 1
    return okm[:n]


def cat(*parts):
    return b"".join(parts)


def hexl(b):
    return bytes(b).hex()


def powmod(x, e, m):
    return pow(x, e, m)


def bmin(a, b):
    return min(a, b)


def bmax(a, b):
    return max(a, b)


def head(b):
    return b[0]


def transcript_asym(pw, idA, idB, X, Y, K):
    return sha256(sha256(pw) + sha256(idA) + sha256(idB) + X + Y + K)


def transcript_sym(pw, idS, m1, m2, K):
    return sha256(sha256(pw) + sha256(idS) + min(m1, m2) + max(m1, m2) + K)


def implies(a, b):
    return (not a) or b
