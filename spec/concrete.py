"""Concrete twins of the spec vocabulary (plain Python, no import from /repo).  Used by the replay harness:
the same contract clause text that z3 reasons about is evaluated natively on real inputs and real results."""
import hashlib, hmac, math


def bl(n):
    return abs(n).bit_length()


def p2(k):
    return 2 ** k


def p256(k):
    return 256 ** k


def size_bits(m):
    return m.bit_length() or 1


def size_bytes(m):
    return (size_bits(m) + 7) // 8


def be(b):
    return int.from_bytes(bytes(b), "big")


def le(b):
    return int.from_bytes(bytes(b), "little")


def rev(b):
    return bytes(b)[::-1]


def blen(b):
    return len(b)


def mkbytes(l, v):
    return int(v).to_bytes(l, "big")


def sha256(b):
    return hashlib.sha256(b).digest()


def hkdf(ikm, salt, info, n):
    """HKDF-SHA256 written from RFC 5869 (independent of the `cryptography` package)"""
    prk = hmac.new(salt if salt else b"\x00" * 32, ikm, hashlib.sha256).digest()
    okm, t, i = b"", b"", 1
    while len(okm) < n:
        t = hmac.new(prk, t + info + bytes([i]), hashlib.sha256).digest()
        okm += t
        i += 1
    return okm[:n]


def cat(*parts):
    return b"".join(parts)


def hexl(b):
    return bytes(b).hex()


def powmod(x, e, m):
    return pow(x, e, m)


def bmin(a, b):
    return min(a, b)


def bmax(a, b):
    return max(a, b)


def head(b):
    return b[0]


def transcript_asym(pw, idA, idB, X, Y, K):
    return sha256(sha256(pw) + sha256(idA) + sha256(idB) + X + Y + K)


def transcript_sym(pw, idS, m1, m2, K):
    return sha256(sha256(pw) + sha256(idS) + min(m1, m2) + max(m1, m2) + K)


def implies(a, b):
    return (not a) or b


# ---- independent affine reference for the twisted Edwards curve of RFC 8032 (written from the RFC) -------------------
ED_Q = 2 ** 255 - 19
ED_L = 2 ** 252 + 27742317777372353535851937790883648493
ED_D = (-121665 * pow(121666, ED_Q - 2, ED_Q)) % ED_Q
ED_I = pow(2, (ED_Q - 1) // 4, ED_Q)
ED_BY = (4 * pow(5, ED_Q - 2, ED_Q)) % ED_Q


def ed_add_affine(p, q):
    x1, y1 = p
    x2, y2 = q
    k = ED_D * x1 * x2 * y1 * y2
    x3 = (x1 * y2 + x2 * y1) * pow(1 + k, ED_Q - 2, ED_Q)
    y3 = (y1 * y2 + x1 * x2) * pow(1 - k, ED_Q - 2, ED_Q)
    return (x3 % ED_Q, y3 % ED_Q)


def ed_mul_affine(n, p):
    r = (0, 1)
    n %= 8 * ED_L
    while n:
        if n & 1:
            r = ed_add_affine(r, p)
        p = ed_add_affine(p, p)
        n >>= 1
    return r


def ed_sqrt(u):
    x = pow(u, (ED_Q + 3) // 8, ED_Q)
    if (x * x - u) % ED_Q != 0:
        x = (x * ED_I) % ED_Q
    if (x * x - u) % ED_Q != 0:
        return None
    return x


def ed_decompress_y(y):
    u = ((y * y - 1) * pow(ED_D * y * y + 1, ED_Q - 2, ED_Q)) % ED_Q
    x = ed_sqrt(u)
    if x is None:
        return None
    return (x, y % ED_Q)


def ed_oncurve(p):
    x, y = p
    return (-x * x + y * y - 1 - ED_D * x * x * y * y) % ED_Q == 0


def ed_base():
    p = ed_decompress_y(ED_BY)
    x = p[0] if p[0] % 2 == 0 else ED_Q - p[0]
    return (x, ED_BY)


def ed_small_order_points():
    """the 8 points of order dividing 8"""
    pts = [(0, 1), (0, ED_Q - 1), (ED_I, 0), (ED_Q - ED_I, 0)]
    # order 8: y^2 = ... solve x^2 = y^2 for points with x = +-y ... computed by halving: find P with 2P of order 4
    import itertools
    b = ed_base()
    # 8-torsion generator: (L * T) for a point T of full order 8L; search deterministic small y
    y = 2
    while len(pts) < 8:
        p = ed_decompress_y(y)
        y += 1
        if p is None:
            continue
        t = ed_mul_affine(ED_L, p)
        for k in range(8):
            c = ed_mul_affine(k, t)
            if c not in pts:
                pts.append(c)
    return pts[:8]


def ed_encode(p):
    x, y = p
    return int(y + ((x & 1) << 255)).to_bytes(32, "little")


# ---- concrete twins of the Ed25519 spec vocabulary used in clauses of plain functions -------------------------------------------
def ed_Q():
    return ED_Q


def ed_L():
    return ED_L


def _repo_d():
    """the library keeps d unreduced; any representative gives the same curve equation"""
    return ED_D


def ed_oncurve(x, y=None):
    if y is None:
        x, y = x
    return (-x * x + y * y - 1 - ED_D * x * x * y * y) % ED_Q == 0


ed_oncurve_def = ed_oncurve


def ed_xrecover_def(y):
    xx = (y * y - 1) * pow(ED_D * y * y + 1, ED_Q - 2, ED_Q)
    x = pow(xx, (ED_Q + 3) // 8, ED_Q)
    if (x * x - xx) % ED_Q != 0:
        x = (x * ED_I) % ED_Q
    if x % 2 != 0:
        x = ED_Q - x
    return x


ed_xrecover = ed_xrecover_def


def ed_decode_xy(s):
    u = int.from_bytes(bytes(s[:32]), "little")
    y = u % (1 << 255)
    x0 = ed_xrecover_def(y)
    sign = (u >> 255) % 2
    x = ED_Q - x0 if ((x0 % 2 == 1) != (sign == 1)) else x0
    return (x, y)


def ed_encode_xy(x, y):
    return int(y + (1 << 255) * (x % 2)).to_bytes(32, "little")


# ---- entropy streams (replay of counter-models and bounded search on functions that take an entropy function) ---------------
import hashlib as _hl
import os as _os
_ENTROPY_INSTANCES = []
_GLOBAL_ENTROPY_CALLS = [0]


class ModelEntropy:
    """An entropy function with a replayable stream: the k-th call returns the recorded block `calls[k]` when one of the requested
    size was recorded (a solver model), `0xff..ff` for the first `ones` calls (forces rejections), otherwise a deterministic
    pseudo-random block depending on (seed, k, n).  `at(k, n)` is the pure view used by the spec functions."""

    def __init__(self, calls=None, seed=0, ones=0):
        self.calls = dict(calls or {})
        self.seed, self.ones = seed, ones
        self.log = []
        _ENTROPY_INSTANCES.append(self)

    def at(self, k, n):
        b = self.calls.get(k)
        if b is not None and len(b) == n:
            return b
        if k < self.ones:
            return b"\xff" * n
        out, i = b"", 0
        while len(out) < n:
            out += _hl.sha256(b"%d:%d:%d:%d" % (self.seed, k, n, i)).digest()
            i += 1
        return out[:n]

    def __call__(self, n):
        k = len(self.log)
        self.log.append(n)
        return self.at(k, n)


def _reset_entropy():
    del _ENTROPY_INSTANCES[:]
    _GLOBAL_ENTROPY_CALLS[0] = 0


def ent(e, k, n):
    return e.at(k, n)


def topbits(m):
    return size_bits(m) - 8 * (size_bytes(m) - 1)


def cand(m, e, pos):
    n = size_bytes(m)
    blk = e.at(pos, n)
    return (blk[0] % (1 << topbits(m))) * 256 ** (n - 1) + int.from_bytes(blk[1:], "big")


def rr(m, e, pos):
    """rejection sampling: the first candidate < m at or after block pos"""
    for k in range(pos, pos + 100000):
        c = cand(m, e, k)
        if c < m:
            return c
    raise RuntimeError("rr: no accepted candidate in 100000 blocks")


def entropy_pos(e):
    return len(e.log)


def entropy_calls():
    return sum(len(e.log) for e in _ENTROPY_INSTANCES)


def entropy_sizes_all(n):
    return all(x == n for e in _ENTROPY_INSTANCES for x in e.log)


def no_global_entropy():
    return _GLOBAL_ENTROPY_CALLS[0] == 0
