#!/bin/sh
# offline setup: nothing to download or compile; warm the interpreters and check the tools are present
cd "$(dirname "$0")"
python3-vt -c "import z3; print('z3', z3.get_version_string())" || exit 1
/venv/bin/python -c "import spake2, cryptography; print('repo importable')" || exit 1
mkdir -p evidence replays
exit 0
