#!/bin/sh
# offline setup: nothing to download or compile.  Checks the tools are present and warms the Lean build cache
# (.cache/lean_*.json, keyed by the sha256 of the exact text handed to lean) so that the per-property checks do not
# each pay the cold start of Mathlib.
cd "$(dirname "$0")"
python3-vt -c "import z3; print('z3', z3.get_version_string())" || exit 1
/venv/bin/python -c "import spake2, cryptography; print('repo importable')" || exit 1
mkdir -p evidence replays .cache
python3-vt -c "
import sys; sys.path.insert(0, '.')
from pyvc import leanback
r, names = leanback.algebra_status(); print('lean Algebra.lean ok=%s %.0fs' % (r['ok'], r['seconds']))
st = leanback.edwards_status(); print('lean Edwards ok=%s %ss' % (st['ok'], st.get('seconds')))
ps = leanback.primes_status(); print('lean Primes ok=%s %ss' % (ps['ok'], ps.get('seconds')))
for part in ('abstract', 'curve'):
    b = leanback.bridge_status(part); print('lean Bridge(%s) ok=%s %ss, %d statements proved' % (part, b['ok'], b.get('seconds'), len(b['names'])))
" || echo "lean warm-up failed (checks will report it)"
exit 0
