#!/bin/sh
# every seeded defect against the check of its own property (developer tool)
cd "$(dirname "$0")/.."
mkdir -p seedres
./setup.sh > seedres/setup.log 2>&1
ls seeded | xargs -P 3 -I{} sh -c 'p=$(echo {} | cut -d- -f1); timeout 3000 python3-vt selftest/seed_eval.py seeded/{} --props $p > seedres/{}.json 2>&1'
echo ALLDONE > seedres/DONE
