"""Developer tool: apply textual mutations to a scratch copy of the repo and run the verifier on them.
usage: python3-vt selftest/mut.py <mutfile.json>     (entries: {name, file, old, new, quals, expect})"""
import sys, os, json, shutil, subprocess, tempfile
VERIF = os.path.dirname(os.path.dirname(os.path.abspath(__file__)))


def run(m, keep=False):
    d = tempfile.mkdtemp(prefix="mut_", dir="/root/scratch")
    try:
        subprocess.check_call(["cp", "-r", "/repo/src", d + "/src"])
        p = os.path.join(d, m["file"])
        s = open(p).read()
        if m["old"] not in s:
            return "PATTERN-NOT-FOUND"
        s = s.replace(m["old"], m["new"], 1)
        open(p, "w").write(s)
        env = dict(os.environ, VERIF_REPO=d)
        r = subprocess.run(["python3-vt", "-m", "pyvc.run"] + m["quals"], cwd=VERIF, env=env, capture_output=True, text=True)
        out = r.stdout + r.stderr
        bad = [l for l in out.splitlines() if "NOT-OK" in l]
        detail = [l[:200] for l in out.splitlines() if l.startswith("    ") and ("refuted" in l or "UNSUPPORTED" in l or "ERROR" in l or "undecided" in l)]
        return ("CAUGHT" if bad else "MISSED"), detail[:4]
    finally:
        shutil.rmtree(d, ignore_errors=True)


if __name__ == "__main__":
    muts = json.load(open(sys.argv[1]))
    only = sys.argv[2:]
    for m in muts:
        if only and m["name"] not in only:
            continue
        print(m["name"], run(m))
