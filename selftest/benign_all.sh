#!/bin/sh
# every behaviour-preserving refactoring under selftest/benign against every check (developer tool)
cd "$(dirname "$0")/.."
mkdir -p benres
./setup.sh > benres/setup.log 2>&1
ls selftest/benign | xargs -P 4 -I{} sh -c 'timeout 7000 python3-vt selftest/benign_eval.py selftest/benign/{}/patch.diff > benres/{}.json 2>&1'
echo ALLDONE > benres/DONE
