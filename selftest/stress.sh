#!/bin/sh
# developer tool: N copies of the full real-tree regression at the same time (verdicts must not depend on machine load)
# usage: selftest/stress.sh [N=4] ; prints every check that did not exit 0
cd "$(dirname "$0")/.."
N=${1:-4}
mkdir -p /root/scratch/stress
for i in $(seq 1 $N); do
  ( for p in C01 C02 C03 C04 C05 C06 C07 C08 C09 C10 C11 C12 C13 C14 C15 C16 C17 C18; do
      t0=$(date +%s); ./check $p > /root/scratch/stress/$i.$p.log 2>&1; rc=$?; t1=$(date +%s)
      echo "$i $p exit=$rc $((t1-t0))s"
    done ) > /root/scratch/stress/run$i.log 2>&1 &
done
wait
cat /root/scratch/stress/run*.log | grep -v "exit=0" ; echo "slowest:"; cat /root/scratch/stress/run*.log | sort -t' ' -k4 -n | awk '{print $4, $0}' | sort -n | tail -5
