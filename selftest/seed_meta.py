"""Developer tool: write seeded/<id>/meta.json from evaluation results.
usage: python3 selftest/seed_meta.py <final seedres dir> [--first <seedres dir of the first (unbiased) evaluation>] [--only r3]"""
import json, os, sys, glob

VERIF = os.path.dirname(os.path.dirname(os.path.abspath(__file__)))
ORIGIN = {
    1: "written by an independent sub-agent that saw only the property record and a scratch git worktree of /repo under /tmp (nothing from /verif)",
    2: "written by an independent sub-agent that saw only the property record and a scratch git worktree of /repo under /tmp (nothing from /verif); round 2 agents were additionally told which obvious candidates to avoid",
    3: "written by an independent sub-agent that saw only the property record and a scratch git worktree of /repo under /tmp (nothing from /verif); round 3 agents were told the kinds of change used in rounds 1-2 and asked for cooperating edits, call histories / mid-method exceptions, low-level helpers with rare values, order-of-operations cleanups, differences between classes / parameter sets and Python subtleties",
}


def load(d, sid):
    f = os.path.join(d, sid + ".json")
    if not os.path.exists(f):
        return None
    try:
        return json.load(open(f))
    except Exception:
        return {"incomplete": True}


def summary(r, pid):
    if r is None:
        return None
    if r.get("incomplete"):
        return {"property": pid, "exit": None, "note": "evaluation did not finish (see DESIGN.md I.9)"}
    c = (r.get("checks") or {}).get(pid) or {}
    return {"property": pid, "exit": c.get("exit"), "seconds": c.get("secs"), "first_lines": [l.replace("/root/.vp/runs/", "<vp run>/") for l in (c.get("lines") or [])[:3]]}


def main():
    final = sys.argv[1]
    first = sys.argv[sys.argv.index("--first") + 1] if "--first" in sys.argv else None
    only = sys.argv[sys.argv.index("--only") + 1] if "--only" in sys.argv else None
    for d in sorted(glob.glob(os.path.join(VERIF, "seeded", "*"))):
        sid = os.path.basename(d)
        if only and ("-" + only) not in sid:
            continue
        pid = sid.split("-")[0]
        rnd = 3 if "-r3" in sid else 2 if "-r2" in sid else 1
        mp = os.path.join(d, "meta.json")
        meta = json.load(open(mp)) if os.path.exists(mp) else {}
        r = load(final, sid)
        if r is None:
            continue
        notes = open(os.path.join(d, "notes.md")).read() if os.path.exists(os.path.join(d, "notes.md")) else ""
        meta.update(id=sid, property=pid, round=rnd, origin=ORIGIN[rnd])
        meta.setdefault("needs_to_manifest", notes[:1800])
        if not r.get("incomplete"):
            meta["confirmed_by_me"] = {
                "how": "selftest/seed_eval.py: fresh clone of /repo outside /repo and /verif, `git apply patch.diff`, unedited test suite, demo.py with and without the patch, then `./check %s` with VERIF_REPO pointing at the clone; clone removed afterwards" % pid,
                "tests_with_patch": r.get("tests_with_patch"), "demo_without_patch": r.get("demo_without_patch"), "demo_with_patch": r.get("demo_with_patch")}
        meta["check_result"] = summary(r, pid)
        if first:
            fr = summary(load(first, sid), pid)
            if fr is not None:
                meta["first_evaluation_before_any_correction"] = fr
        json.dump(meta, open(mp, "w"), indent=1)
        print(sid, meta["check_result"].get("exit"))


if __name__ == "__main__":
    main()
