#!/bin/sh
# detection matrix: every seeded defect against every property check (developer tool; long)
cd "$(dirname "$0")/.."
mkdir -p matrix
./setup.sh > matrix/setup.log 2>&1
ls seeded | xargs -P 2 -I{} sh -c 'timeout 7000 python3-vt selftest/seed_eval.py seeded/{} --all > matrix/{}.json 2>&1'
echo ALLDONE > matrix/DONE
