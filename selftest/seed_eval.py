"""Evaluate a seeded defect (directory with patch.diff + demo.py) against the checks.

usage: python3-vt selftest/seed_eval.py <seed dir> [--props C01,C02,...] [--all]
 1. copies /repo's working tree sources to a scratch directory outside /repo and /verif, applies patch.diff there;
 2. confirms: the unedited test suite passes with the patch, the demo FAILS with the patch and PASSES without;
 3. runs the checks with VERIF_REPO pointing at the scratch copy and reports which raise VIOLATION / undecided / pass.
The scratch copy is removed afterwards."""
import sys, os, json, shutil, subprocess, tempfile, time

VERIF = os.path.dirname(os.path.dirname(os.path.abspath(__file__)))
ALL = ["C%02d" % i for i in range(1, 19)]


def sh(cmd, cwd=None, env=None, timeout=3000):
    p = subprocess.run(cmd, cwd=cwd, env=env, capture_output=True, text=True, timeout=timeout)
    return p.returncode, p.stdout + p.stderr


def main():
    seed = os.path.abspath(sys.argv[1])
    props = None
    if "--props" in sys.argv:
        props = sys.argv[sys.argv.index("--props") + 1].split(",")
    if "--all" in sys.argv:
        props = ALL
    meta_p = os.path.join(seed, "meta.json")
    meta = json.load(open(meta_p)) if os.path.exists(meta_p) else {}
    if props is None:
        props = [meta.get("property")] if meta.get("property") else ALL
    os.makedirs("/root/scratch", exist_ok=True)
    d = tempfile.mkdtemp(prefix="seed_", dir="/root/scratch")
    out = {"seed": seed, "props": props}
    try:
        sh(["git", "-C", "/repo", "worktree", "prune"])
        rc, o = sh(["git", "clone", "-q", "--no-hardlinks", "/repo", d + "/r"])
        r = d + "/r"
        env = dict(os.environ, PYTHONPATH=r + "/src", PYTHONDONTWRITEBYTECODE="1")
        demo = os.path.join(seed, "demo.py")
        rc0, o0 = sh(["/venv/bin/python", demo], cwd=r, env=env)
        out["demo_without_patch"] = "PASS" if rc0 == 0 else "FAIL(%d)" % rc0
        rc, o = sh(["git", "-C", r, "apply", os.path.join(seed, "patch.diff")])
        if rc != 0:
            out["apply"] = "FAILED: " + o[-300:]
            print(json.dumps(out, indent=1))
            return 2
        rc, o = sh(["/venv/bin/python", "-m", "pytest", "-q", "-p", "no:cacheprovider", "-x"], cwd=r, env=env)
        out["tests_with_patch"] = o.strip().splitlines()[-1] if o.strip() else "?"
        rc1, o1 = sh(["/venv/bin/python", demo], cwd=r, env=env)
        out["demo_with_patch"] = "PASS" if rc1 == 0 else "FAIL(%d)" % rc1
        out["demo_output"] = o1[-400:]
        res = {}
        for p in props:
            t0 = time.time()
            env2 = dict(os.environ, VERIF_REPO=r)
            rc, o = sh([os.path.join(VERIF, "check"), p, "--tier", "quick"], cwd=VERIF, env=env2)
            lines = [l for l in o.splitlines() if l.startswith(("VIOLATION", "UNDECIDED", "CHECKER-FAULT", "KNOWN"))]
            res[p] = {"exit": rc, "secs": round(time.time() - t0, 1), "lines": [l[:230] for l in lines[:6]]}
        out["checks"] = res
    finally:
        shutil.rmtree(d, ignore_errors=True)
    print(json.dumps(out, indent=1))
    return 0


if __name__ == "__main__":
    sys.exit(main())
