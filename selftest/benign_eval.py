"""Run the checks on a behaviour-preserving refactoring (patch): every check must exit 0 (2 = undecided is tolerated and
reported; 1 would be a false alarm)."""
import sys, os, json, shutil, subprocess, tempfile, time
VERIF = os.path.dirname(os.path.dirname(os.path.abspath(__file__)))
ALL = ["C%02d" % i for i in range(1, 19)]


def sh(cmd, cwd=None, env=None):
    p = subprocess.run(cmd, cwd=cwd, env=env, capture_output=True, text=True, timeout=4000)
    return p.returncode, p.stdout + p.stderr


def main():
    patch = os.path.abspath(sys.argv[1])
    props = sys.argv[2].split(",") if len(sys.argv) > 2 else ALL
    d = tempfile.mkdtemp(prefix="benign_", dir="/root/scratch")
    out = {"patch": patch}
    try:
        sh(["git", "clone", "-q", "--no-hardlinks", "/repo", d + "/r"])
        r = d + "/r"
        rc, o = sh(["git", "-C", r, "apply", patch])
        if rc:
            print("APPLY FAILED", o); return 2
        env = dict(os.environ, PYTHONPATH=r + "/src")
        rc, o = sh(["/venv/bin/python", "-m", "pytest", "-q", "-p", "no:cacheprovider"], cwd=r, env=env)
        out["tests"] = o.strip().splitlines()[-1]
        res = {}
        for p in props:
            rc, o = sh([os.path.join(VERIF, "check"), p], cwd=VERIF, env=dict(os.environ, VERIF_REPO=r))
            res[p] = {"exit": rc, "lines": [l[:260] for l in o.splitlines() if l.startswith(("VIOLATION", "UNDECIDED", "CHECKER"))][:4]}
        out["checks"] = res
    finally:
        shutil.rmtree(d, ignore_errors=True)
    bad = {p: r for p, r in out["checks"].items() if r["exit"] != 0}
    print(json.dumps({"patch": patch, "tests": out["tests"], "nonzero": bad}, indent=1))
    return 0


if __name__ == "__main__":
    sys.exit(main())
