"""Ground evaluator / replay oracle.  Runs under /venv/bin/python (the interpreter that has the
repository's real dependencies) and imports the REAL code from $VERIF_REPO/src.

Protocol: one JSON request per line on stdin, one JSON answer per line on stdout.
Values are encoded as: int -> {"i": "<decimal>"}, bytes -> {"b": "<hex>"}, str -> {"s": ...},
bool/None as JSON, list -> {"l": [...]}, tuple -> {"t": [...]}, dict -> {"d": {...}},
object -> {"o": "<ClassName>", "id": n, "f": {...}}.
"""
import sys, os, json, importlib, traceback, random

REPO = os.environ.get("VERIF_REPO", "/repo")
sys.path.insert(0, os.path.join(REPO, "src"))
sys.path.insert(0, os.path.dirname(os.path.dirname(os.path.abspath(__file__))))


def enc(v, depth=0, seen=None):
    seen = seen if seen is not None else {}
    if v is None or isinstance(v, bool):
        return v
    if isinstance(v, int):
        return {"i": str(v)}
    if isinstance(v, float):
        return {"fl": repr(v)}
    if isinstance(v, (bytes, bytearray)):
        return {"b": bytes(v).hex()}
    if isinstance(v, str):
        return {"s": v}
    if isinstance(v, list):
        return {"l": [enc(x, depth + 1, seen) for x in v]}
    if isinstance(v, tuple):
        return {"t": [enc(x, depth + 1, seen) for x in v]}
    if isinstance(v, dict):
        return {"d": {str(k): enc(x, depth + 1, seen) for k, x in v.items()}}
    if isinstance(v, type):
        return {"cls": v.__module__ + "." + v.__name__}
    if callable(v) and not hasattr(v, "__dict__"):
        return {"fn": getattr(v, "__name__", "?")}
    if id(v) in seen:
        return {"o": type(v).__name__, "id": seen[id(v)], "ref": True}
    seen[id(v)] = len(seen) + 1
    out = {"o": type(v).__name__, "m": type(v).__module__, "id": seen[id(v)]}
    if depth < 4 and hasattr(v, "__dict__"):
        out["f"] = {k: enc(x, depth + 1, seen) for k, x in vars(v).items() if not callable(x) or isinstance(x, type)}
    return out


def dec(v):
    if v is None or isinstance(v, bool):
        return v
    if isinstance(v, dict):
        if "i" in v:
            return int(v["i"])
        if "b" in v:
            return bytes.fromhex(v["b"])
        if "s" in v:
            return v["s"]
        if "l" in v:
            return [dec(x) for x in v["l"]]
        if "t" in v:
            return tuple(dec(x) for x in v["t"])
        if "d" in v:
            return {k: dec(x) for k, x in v["d"].items()}
        if "py" in v:  # python expression evaluated in the helper namespace
            return eval(v["py"], NS)
    raise ValueError("cannot decode %r" % (v,))


NS = {}


def setup_ns():
    NS.update(dict(random=random, importlib=importlib))
    # the real modules; an import failure (a broken working tree) is reported per request, not fatal here
    for alias, name in (("util", "spake2.util"), ("groups", "spake2.groups"), ("params", "spake2.params"),
                        ("ed25519_basic", "spake2.ed25519_basic"), ("ed25519_group", "spake2.ed25519_group"),
                        ("spake2mod", "spake2.spake2"), ("pall", "spake2.parameters.all"), ("spake2", "spake2")):
        try:
            NS[alias] = importlib.import_module(name)
        except BaseException as e:
            NS.setdefault("import_errors", {})[name] = "%s: %s" % (type(e).__name__, e)
    try:
        import spec.concrete as sc
        NS["spec"] = sc
    except Exception:
        NS["spec_error"] = traceback.format_exc()


def handle(req):
    op = req["op"]
    if op == "ping":
        return {"ok": True, "repo": REPO, "file": getattr(NS.get("spake2"), "__file__", None),
                "import_errors": NS.get("import_errors", {})}
    if op == "global":
        mod = importlib.import_module(req["module"])
        v = getattr(mod, req["name"])
        return {"ok": True, "value": enc(v)}
    if op == "eval":
        # closed python expression over the real modules
        v = eval(req["expr"], NS, {k: dec(x) for k, x in req.get("env", {}).items()})
        return {"ok": True, "value": enc(v)}
    if op == "exec":
        # run a python snippet; it must set `result`
        ns = dict(NS)
        ns.update({k: dec(x) for k, x in req.get("env", {}).items()})
        exec(req["code"], ns)
        return {"ok": True, "value": enc(ns.get("result"))}
    if op == "call":
        # call a function by dotted path with decoded args; report value or exception class
        f = eval(req["func"], NS)
        args = [dec(a) for a in req.get("args", [])]
        kwargs = {k: dec(a) for k, a in req.get("kwargs", {}).items()}
        try:
            r = f(*args, **kwargs)
            return {"ok": True, "outcome": "return", "value": enc(r)}
        except BaseException as e:
            return {"ok": True, "outcome": "raise", "exc": type(e).__name__,
                    "excmod": type(e).__module__, "msg": str(e)[:200]}
    if op == "replay":
        return replay(req)
    if op == "search":
        return search(req)
    raise ValueError("unknown op " + op)


def replay(req):
    """call the real function on concrete inputs and evaluate the contract clause natively"""
    f = eval(req["func"], NS)
    sc = NS.get("spec")
    if sc is not None and hasattr(sc, "_reset_entropy"):
        sc._reset_entropy()
    args = {k: dec(a) for k, a in req["args"].items()}
    out = {"ok": True}
    import os as _os
    real_urandom = _os.urandom

    def counted_urandom(n):
        if sc is not None and hasattr(sc, "_GLOBAL_ENTROPY_CALLS"):
            sc._GLOBAL_ENTROPY_CALLS[0] += 1
        return real_urandom(n)
    _os.urandom = counted_urandom
    # the preconditions speak about the arguments only: evaluate them BEFORE the call - outside its precondition the real function
    # need not even terminate (unbiased_randrange with start >= stop loops forever)
    try:
        env0 = dict(args)
        env0.update(spec=NS.get("spec"), implies=lambda a, b: (not a) or b, old=lambda x: x)
        if not all(bool(eval(p, dict(NS), env0)) for p in req.get("requires", [])):
            _os.urandom = real_urandom
            return {"ok": True, "precondition_holds": False, "outcome": "not-called"}
    except BaseException:
        pass          # not evaluable without the result: fall through to the old order
    try:
        r = f(**args)
        out.update(outcome="return", value=enc(r))
    except BaseException as e:
        r = None
        out.update(outcome="raise", exc=type(e).__name__, msg=str(e)[:200])
    finally:
        _os.urandom = real_urandom
    env = dict(args)
    env.update(spec=NS.get("spec"), implies=lambda a, b: (not a) or b, result=r, old=lambda x: x)
    cl = req["clause"]

    def ev(src):
        return bool(eval(src, dict(NS), env))
    try:
        pre_ok = all(ev(p) for p in req.get("requires", []))
        out["precondition_holds"] = pre_ok
        if cl["kind"] == "ensures":
            w = ev(cl["when"]) if cl.get("when") else True
            if out["outcome"] == "return":
                out["clause_holds"] = (not w) or ev(cl["expr"])
            else:
                out["clause_holds"] = None
        elif cl["kind"] == "raises":
            # "raises E exactly when w", read together with the other raises clauses of the contract (an exception class may
            # be a subclass of several declared classes): (1) w => an exception matching E is raised; (2) a raised exception
            # matching E must be justified by SOME clause whose class it matches and whose condition holds (or be in may_raise)
            w = ev(cl["expr"])
            raised = out["outcome"] == "raise" and excmatch(out["exc"], cl["exc"])
            ok = True
            if w and not raised:
                ok = False
            if raised and not w:
                others = [c2 for c2 in cl.get("all_raises", []) if excmatch(out["exc"], c2["exc"]) and ev(c2["expr"])]
                allowed = any(excmatch(out["exc"], e) for e in cl.get("may_raise", []))
                ok = bool(others) or allowed
            out["clause_holds"] = ok
            out["when"] = w
        elif cl["kind"] == "unexpected":
            out["clause_holds"] = not (out["outcome"] == "raise" and out["exc"] == cl["exc"].split(".")[-1])
    except BaseException as e:
        out["clause_error"] = "%s: %s" % (type(e).__name__, e)
    return out


def gen_value(t, rng):
    """random small/boundary value for a contract parameter type"""
    if t in ("int", "nat", "byte"):
        lo = 0 if t != "int" else -3
        pool = [0, 1, 2, 3, 7, 8, 15, 16, 17, 127, 128, 255, 256, 257, 65535, 65536, 2**31, 2**64 - 1, 2**64, 2**255 - 19, 2**256]
        if t == "byte":
            return rng.randrange(256)
        r = rng.random()
        if r < 0.5:
            return rng.choice(pool)
        if r < 0.6 and lo < 0:
            return -rng.choice(pool)
        return rng.randrange(lo, 2 ** rng.choice([4, 8, 9, 16, 17, 33, 70]))
    if t == "bool":
        return rng.random() < 0.5
    if t == "bytes":
        n = rng.choice([0, 0, 1, 1, 2, 3, 8, 31, 32, 33, 64])
        if rng.random() < 0.3:
            return bytes(n)
        return bytes(rng.randrange(256) for _ in range(n))
    if t.startswith("bytes:"):
        n = int(t[6:])
        return bytes(rng.randrange(256) for _ in range(n))
    if t == "entropy":
        # replayable entropy function; a third of them start with all-ones blocks (forces rejections / re-draws)
        return NS["spec"].ModelEntropy(seed=rng.randrange(1 << 30), ones=rng.choice([0, 0, 1, 2, 5]))
    raise ValueError("no generator for type " + t)


def enc_arg(v):
    """encode a generated argument for transport / re-decoding (entropy functions as a python expression)"""
    sc = NS.get("spec")
    if sc is not None and isinstance(v, getattr(sc, "ModelEntropy", ())):
        return {"py": "spec.ModelEntropy(%r, seed=%d, ones=%d)" % (v.calls, v.seed, v.ones)}
    return enc(v)


def search(req):
    """bounded random search for an input on which the REAL function violates the clause"""
    rng = random.Random(req.get("seed", 0))
    tried = 0
    prev = None
    import time as _t
    t_end = _t.time() + float(req.get("seconds", 15))
    bkeys = [k for k, t in req["types"].items() if t == "bytes"]
    # systematic phase: for every ordered pair of byte-string parameters, (p, p+t) and (p+t, p) over short strings of a small
    # alphabet - arguments that are prefixes / suffixes of one another (ordering and framing defects need exactly those)
    shorts = [bytes(x) for n in (1, 2) for x in __import__("itertools").product([0x00, 0x61, 0x62, 0xff], repeat=n)]
    systematic = []
    if len(bkeys) >= 2:
        for a in bkeys:
            for b in bkeys:
                if a != b:
                    for p_ in shorts[:8] + [b""]:
                        for t_ in shorts[:12]:
                            systematic.append((a, b, p_, p_ + t_))
        rng.shuffle(systematic)
        systematic = systematic[:1500]
    for i in range(req.get("budget", 3000) + len(systematic)):
        if _t.time() > t_end:
            return {"ok": True, "found": False, "tried": tried, "reason": "time budget"}
        try:
            args = {k: gen_value(t, rng) for k, t in req["types"].items()}
        except ValueError as e:
            return {"ok": True, "found": False, "reason": str(e), "tried": tried}
        if i < len(systematic):
            a, b, va, vb = systematic[i]
            args[a], args[b] = va, vb
        elif i % 5 == 2:
            # history: a preceding call that fails (one argument of the wrong type) must not influence the next call
            bad = dict(args)
            bad[rng.choice(sorted(bad))] = rng.choice([None, u"text", 1.5])
            try:
                eval(req["func"], NS)(**bad)
            except BaseException:
                pass
        if prev is not None and len(bkeys) >= 2 and i % 3 == 1 and i >= len(systematic):
            # related inputs: the same concatenation split differently / two fields swapped (stateful and framing defects)
            args = dict(prev)
            a, b = rng.sample(bkeys, 2)
            if rng.random() < 0.5:
                cat = args[a] + args[b]
                k = rng.randrange(len(cat) + 1)
                args[a], args[b] = cat[:k], cat[k:]
            else:
                args[a], args[b] = args[b], args[a]
        if bkeys and i % 7 == 3 and i >= len(systematic):
            a = rng.choice(bkeys)
            args[a] = bytes(rng.choice([0, 1])) + args[a] if False else (b"\x00" + args[a])[: rng.choice([1, 2, 3, 33])]
        prev = dict(args)
        r = replay(dict(func=req["func"], args={k: enc_arg(v) for k, v in args.items()}, clause=req["clause"], requires=req.get("requires", [])))
        if "clause_error" in r:
            return {"ok": True, "found": False, "tried": tried, "reason": "clause not evaluable natively: " + r["clause_error"]}
        if not r.get("precondition_holds", False):
            continue
        tried += 1
        if r.get("clause_holds") is False:
            return {"ok": True, "found": True, "args": {k: enc_arg(v) for k, v in args.items()}, "answer": r, "tried": tried}
    return {"ok": True, "found": False, "tried": tried}


def excmatch(raised, declared):
    import builtins, binascii
    d = declared.split(".")[-1]
    if raised == d:
        return True
    rc = getattr(builtins, raised, None) or (binascii.Error if raised == "Error" else None)
    dc = getattr(builtins, d, None) or (binascii.Error if declared == "binascii.Error" else None)
    if rc is not None and dc is not None and isinstance(rc, type) and isinstance(dc, type):
        return issubclass(rc, dc)
    return False


def main():
    try:
        # die with the parent: if the check is killed from outside (a harness time-out) while the real code is in a long or
        # non-terminating call, this evaluator must not stay behind
        import ctypes, signal
        ctypes.CDLL("libc.so.6").prctl(1, signal.SIGKILL)      # PR_SET_PDEATHSIG
    except Exception:
        pass
    setup_ns()
    for line in sys.stdin:
        line = line.strip()
        if not line:
            continue
        try:
            req = json.loads(line)
            ans = handle(req)
        except BaseException as e:
            ans = {"ok": False, "error": "%s: %s" % (type(e).__name__, e), "tb": traceback.format_exc()[-1500:]}
        sys.stdout.write(json.dumps(ans) + "\n")
        sys.stdout.flush()


if __name__ == "__main__":
    main()
