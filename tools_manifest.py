"""Regenerates MANIFEST.json from the list of claimed properties (developer tool)."""
import json, os, sys
VERIF = os.path.dirname(os.path.abspath(__file__))
sys.path.insert(0, VERIF)
from pyvc.manifest_data import CLAIMED, NOT_APPLICABLE

props = [json.loads(l) for l in open(os.path.join(VERIF, "properties.jsonl"))]
ids = [p["id"] for p in props]
checks = []
for pid in ids:
    if pid in CLAIMED:
        c = CLAIMED[pid]
        checks.append({
            "property_id": pid,
            "quick_cmd": "./check %s --tier quick" % pid,
            "thorough_cmd": "./check %s --tier thorough" % pid,
            "evidence_file": "evidence/%s.json" % pid,
            "replay_cmd_template": "./check %s --replay {path}" % pid,
            "engine": "pyvc",
            "level_claimed": {"category": "proof", "text": c["text"], "design_ref": c.get("ref", "DESIGN.md section 7 (%s)" % pid)},
            "level_note": c["note"],
            "technique": c["technique"],
        })
na = [{"property_id": pid, "reason": NOT_APPLICABLE.get(pid, "check not built yet in this round (planned, DESIGN.md section 7); it moves to checks when its obligations discharge on the unchanged tree")}
      for pid in ids if pid not in CLAIMED]
m = {
    "version": 1,
    "setup_cmd": "./setup.sh",
    "hooks": {"guard": "SPAKE2_VERIF", "enable": "none needed: contracts are sidecar files under /verif/contracts and the verifier re-reads /repo/src/spake2/*.py on every run",
              "baseline_off_cmd": "cd /repo && /venv/bin/python -m pytest -ra -q -p no:cacheprovider --timeout=900 --continue-on-collection-errors",
              "source_commits": [], "add_only": True},
    "engines": [{"name": "pyvc", "path": "pyvc/", "serves_properties": sorted(CLAIMED),
                 "kind_free_text": "contract-based deductive verifier built here: VC generation by symbolic execution of the real Python AST against sidecar contracts, discharged by z3 (cvc5 cross-check in the thorough tier), Lean 4 + Mathlib for algebra, ground evaluation on the real modules for closed obligations"}],
    "checks": checks,
    "notes": "All checks: exit 0 held / 1 violation (VIOLATION line + replay file) / 2 undecided / 3 checker fault. See DESIGN.md.",
    "not_applicable": na,
}
json.dump(m, open(os.path.join(VERIF, "MANIFEST.json"), "w"), indent=1)
print("claimed:", sorted(CLAIMED), "not claimed:", [x["property_id"] for x in na])
